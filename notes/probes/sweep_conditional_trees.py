import pyrtl, itertools, random
# tree: list of nodes; node = (pred or 'O', assigns(list of (target, valueindex)), children(list of nodes))
PREDS=['p','q','r']
TARGETS=['w','reg']
def gen_nodes(depth, budget):
    """yield (nodelist, used) of sibling lists with total nodes<=budget"""
    if budget==0:
        yield []; return
    yield []
    # first node
    for pred in PREDS+['O']:
        for asg in [(),('w',),('reg',),('w','reg')]:
            for nchild_budget in range(0, budget if depth>1 else 1):
                for children in (gen_nodes(depth-1, nchild_budget) if depth>1 else [[]]):
                    cn=count(children)
                    if cn!=nchild_budget: continue
                    for rest in gen_nodes(depth, budget-1-cn):
                        yield [(pred,asg,children)]+rest
def count(nodes): return sum(1+count(c) for _,_,c in nodes)
def valid(nodes):
    # otherwise cannot be first? PyRTL allows 'with otherwise' anywhere syntactically. keep all.
    return True
random.seed(0)
trees=[]
for b in range(1,5):
    for t in gen_nodes(2,b):
        if count(t)==b: trees.append(t)
print('trees',len(trees))
random.shuffle(trees)
trees=trees[:3000]
def elaborate(tree):
    pyrtl.reset_working_block()
    P={n:pyrtl.Input(1,n) for n in PREDS}
    w=pyrtl.WireVector(4,'w'); reg=pyrtl.Register(4,'reg'); ow=pyrtl.Output(4,'ow'); orr=pyrtl.Output(4,'orr')
    cnt=[0]; tags={}
    def walk(nodes,path):
        for i,(pred,asg,children) in enumerate(nodes):
            ctx = pyrtl.otherwise if pred=='O' else P[pred]
            with ctx:
                for tg in asg:
                    cnt[0]+=1; v=cnt[0]
                    tags[(path+(i,),tg)]=v
                    if tg=='w': w.__ior__(pyrtl.Const(v,4))
                    else: reg.next |= pyrtl.Const(v,4)
                walk(children,path+(i,))
    with pyrtl.conditional_assignment:
        walk(tree,())
    # if a target never assigned, drive it to keep block sane
    blk=pyrtl.working_block()
    src,_=blk.net_connections()
    if w not in src: w <<= 0
    if reg not in [n.dests[0] for n in blk.logic if n.op=='r']: reg.next <<= reg
    ow<<=w; orr<<=reg
    return tags
def interp(tree, val, tags):
    """return dict target-> list of values from active assigning branches"""
    act={'w':[], 'reg':[]}
    def walk(nodes,path,enclosing):
        taken=False   # whether a sibling since last otherwise was taken
        for i,(pred,asg,children) in enumerate(nodes):
            if pred=='O':
                active = enclosing and not taken
                nxt_taken=False   # chain resets after otherwise
            else:
                active = enclosing and (not taken) and val[pred]==1
                nxt_taken = taken or (val[pred]==1)
            if active:
                for tg in asg: act[tg].append(tags[(path+(i,),tg)])
            walk(children,path+(i,),active)
            taken = nxt_taken
        return
    walk(tree,(),True)
    return act
def syntactically_exclusive(tree):
    # collect for each target the list of (branch path) ; two assignments exclusive if they are in different branches of the same sibling chain (no otherwise between resets?) at some level
    # conservative oracle: we instead use semantic check below
    return None
stats={'accepted':0,'rejected':0,'mismatch':0,'accepted_nonexclusive':0,'rejected_exclusive':0}
examples={}
for tree in trees:
    try:
        tags=elaborate(tree); ok=True
    except pyrtl.PyrtlError as e:
        ok=False
    except Exception as e:
        examples.setdefault('EXC',(tree,type(e).__name__,str(e)[:80])); continue
    # semantic exclusivity under interpreter: for all valuations each target has <=1 active assignment
    if not ok:
        # need tags to interpret: build fake tags
        cnt=[0]; tags={}
        def walk(nodes,path):
            for i,(pred,asg,children) in enumerate(nodes):
                for tg in asg: cnt[0]+=1; tags[(path+(i,),tg)]=cnt[0]
                walk(children,path+(i,))
        walk(tree,())
    sem_excl=True
    for bits in itertools.product([0,1],repeat=3):
        val=dict(zip(PREDS,bits)); a=interp(tree,val,tags)
        if len(a['w'])>1 or len(a['reg'])>1: sem_excl=False
    if not ok:
        stats['rejected']+=1
        if sem_excl:
            stats['rejected_exclusive']+=1; examples.setdefault('rejected_but_semantically_exclusive',tree)
        continue
    stats['accepted']+=1
    if not sem_excl:
        stats['accepted_nonexclusive']+=1; examples.setdefault('accepted_nonexclusive',tree)
    sim=pyrtl.Simulation()
    regv=0
    for bits in itertools.product([0,1],repeat=3):
        val=dict(zip(PREDS,bits)); sim.step(val); a=interp(tree,val,tags)
        ew = a['w'][0] if len(a['w'])==1 else (0 if not a['w'] else None)
        if sim.inspect('orr')!=regv:
            stats['mismatch']+=1; examples.setdefault('reg mismatch',(tree,bits)); break
        if ew is not None and ('w' in [t for (_,t) in tags]) and sim.inspect('ow')!=ew:
            stats['mismatch']+=1; examples.setdefault('w mismatch',(tree,bits,sim.inspect('ow'),ew)); break
        if len(a['reg'])==1: regv=a['reg'][0]
        elif len(a['reg'])>1: break
print(stats)
for k,v in examples.items(): print(k, v)
