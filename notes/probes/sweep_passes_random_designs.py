import pyrtl, random, io, sys
def gen(seed, mem=True):
    rnd=random.Random(seed)
    pyrtl.reset_working_block()
    ins=[pyrtl.Input(rnd.randint(1,5),'in%d'%i) for i in range(3)]
    pool=list(ins)
    regs=[pyrtl.Register(rnd.randint(1,4),'r%d'%i, reset_value=rnd.choice([None,0,1])) for i in range(2)]
    pool+=regs
    m=None
    if mem and rnd.random()<0.6:
        m=pyrtl.MemBlock(bitwidth=3,addrwidth=2,name='m',asynchronous=True,max_read_ports=None)
    for k in range(rnd.randint(3,9)):
        a=rnd.choice(pool); b=rnd.choice(pool)
        op=rnd.choice('+-*&|^<>=~xcsn'+('m' if m else ''))
        if op=='+': r=a+b
        elif op=='-': r=a-b
        elif op=='*': r=a*b
        elif op=='&': r=a&b
        elif op=='|': r=a|b
        elif op=='^': r=a^b
        elif op=='<': r=a<b
        elif op=='>': r=a>b
        elif op=='=': r=a==b
        elif op=='~': r=~a
        elif op=='n': r=a.nand(b)
        elif op=='x': r=pyrtl.select(rnd.choice(pool)[0],a,b)
        elif op=='c': r=pyrtl.concat(a,b,rnd.choice(pool))
        elif op=='s':
            i=rnd.randrange(len(a)); j=rnd.randrange(len(a)); r=a[min(i,j):max(i,j)+1] if rnd.random()<.7 else a[::-1]
        elif op=='m': r=m[a[:2] if len(a)>=2 else a]
        if rnd.random()<0.3: r=r+pyrtl.Const(rnd.randint(0,3))
        pool.append(r)
    for i,r in enumerate(regs):
        r.next <<= rnd.choice(pool)
    if m:
        ad=rnd.choice(pool); da=rnd.choice(pool)
        m[ad[:2] if len(ad)>=2 else ad] <<= pyrtl.MemBlock.EnabledWrite(da[:3] if len(da)>=3 else da.zero_extended(3), rnd.choice(pool)[0])
    outs=[]
    for i in range(3):
        w=rnd.choice(pool[3:]); o=pyrtl.Output(len(w),'out%d'%i); o<<=w; outs.append(o)
    return pyrtl.working_block()
def trace(block, stim, n=12):
    sim=pyrtl.Simulation(block=block, tracer=pyrtl.SimulationTrace(block=block, wires_to_track=list(block.wirevector_subset(pyrtl.Output))))
    for t in range(n): sim.step(stim[t])
    return {k:list(v) for k,v in sim.tracer.trace.items()}
import contextlib
passes={
 'synth': lambda: pyrtl.synthesize(),
 'synth_unmerged': None,
 'opt': lambda: pyrtl.optimize(),
 'synth+opt': lambda: (pyrtl.synthesize(), pyrtl.optimize()),
 'synth+nand': lambda: (pyrtl.synthesize(), pyrtl.nand_synth()),
 'synth+aig': lambda: (pyrtl.synthesize(), pyrtl.and_inverter_synth()),
 'twc': lambda: pyrtl.two_way_concat(),
 'obs': lambda: pyrtl.one_bit_selects(),
 'dco': lambda: pyrtl.direct_connect_outputs(),
 'twf': lambda: pyrtl.two_way_fanout(),
 'copy': lambda: pyrtl.copy_block(),
 'cse': lambda: pyrtl.common_subexp_elimination(),
 'cp': lambda: pyrtl.constant_propagation(pyrtl.working_block(), True),
}
stats={}
for pname,p in passes.items():
    if p is None: continue
    nb=0; first=None; exc=None
    for seed in range(120):
        blk=gen(seed)
        rnd=random.Random(seed+999)
        stim=[{w.name:rnd.getrandbits(len(w)) for w in blk.wirevector_subset(pyrtl.Input)} for _ in range(12)]
        ref=trace(blk,stim)
        try:
            with contextlib.redirect_stdout(io.StringIO()):
                p()
            b2=pyrtl.working_block()
            b2.sanity_check()
            got=trace(b2,[{k:v for k,v in s.items() if k in b2.wirevector_by_name} for s in stim])
        except Exception as e:
            exc=exc or (seed,type(e).__name__,str(e)[:70]); nb+=1; continue
        if got!=ref:
            nb+=1; first=first or seed
    stats[pname]=(nb,first,exc)
    print(pname, stats[pname]); sys.stdout.flush()
