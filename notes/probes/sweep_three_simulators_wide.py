import pyrtl, itertools, random, sys
random.seed(1)
W=[1,2,31,32,33,63,64,65,66,127,128,129,130]
ops={'+':lambda a,b:a+b,'-':lambda a,b:a-b,'*':lambda a,b:a*b,'&':lambda a,b:a&b,'|':lambda a,b:a|b,'^':lambda a,b:a^b,
     'n':lambda a,b:a.nand(b),'<':lambda a,b:a<b,'>':lambda a,b:a>b,'=':lambda a,b:a==b,'~':lambda a,b:~a,
     'x':lambda a,b:pyrtl.select(a[0],a,b),'c':lambda a,b:pyrtl.concat(a,b,a),'s':lambda a,b:a[::-1], 's2':lambda a,b:a[1::2] if len(a)>2 else a[0]}
def vals(w):
    return [0,1,(1<<w)-1,(1<<w)-2 if w>1 else 0,1<<(w-1)]+[random.getrandbits(w) for _ in range(6)]
tot=0; bad=[]
for opn,f in ops.items():
    for w in W:
        for trunc in (None,1,-1):
            pyrtl.reset_working_block()
            a=pyrtl.Input(w,'a'); b=pyrtl.Input(w,'b')
            r=f(a,b)
            ow=len(r) if trunc is None else (1 if trunc==1 else max(1,len(r)-1))
            o=pyrtl.Output(ow,'o'); o<<=r
            va,vb=vals(w),vals(w)
            ins={'a':va,'b':vb[::-1]}
            sims={}
            for S in (pyrtl.Simulation,pyrtl.FastSimulation,pyrtl.CompiledSimulation):
                try:
                    s=S(); s.step_multiple(ins); sims[S.__name__]=s.tracer.trace['o']
                except Exception as e:
                    sims[S.__name__]='EXC %s %s'%(type(e).__name__,str(e)[:50])
            tot+=1
            if not(sims['Simulation']==sims['FastSimulation']==list(sims['CompiledSimulation']) if not isinstance(sims['CompiledSimulation'],str) else False):
                bad.append((opn,w,trunc,{k:(v if isinstance(v,str) else v[:3]) for k,v in sims.items()}))
print('designs',tot,'bad',len(bad))
for b in bad[:12]: print(b)
