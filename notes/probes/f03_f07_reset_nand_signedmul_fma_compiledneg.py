import pyrtl, io, itertools
from pyrtl.rtllib import multipliers, adders
def fresh(): pyrtl.reset_working_block()
# 1 clone_wire reset
fresh()
r=pyrtl.Register(4,'r',reset_value=5); o=pyrtl.Output(4,'o'); r.next<<=r; o<<=r
b2=pyrtl.copy_block(update_working_block=False)
print('copy reset_value:', b2.wirevector_by_name['r'].reset_value)
sb=pyrtl.synthesize(update_working_block=False)
sim=pyrtl.Simulation(block=sb, tracer=pyrtl.SimulationTrace(block=sb)); sim.step({}); print('synth first-cycle o (expect 5):', sim.inspect('o'))
# 2 nand of consts
fresh()
i=pyrtl.Input(2,'i'); o=pyrtl.Output(2,'o'); o <<= pyrtl.Const(3,2).nand(pyrtl.Const(3,2)) | i
s=pyrtl.Simulation(); s.step({'i':0}); a=s.inspect('o')
pyrtl.optimize(); s=pyrtl.Simulation(); s.step({'i':0}); print('nand const before/after optimize', a, s.inspect('o'))
# 3 signed tree mult most negative
fresh()
a=pyrtl.Input(3,'a'); b=pyrtl.Input(3,'b'); o=pyrtl.Output(6,'o'); o<<=multipliers.signed_tree_multiplier(a,b)
s=pyrtl.Simulation(); bad=[]
for x in range(8):
  for y in range(8):
    s.step({'a':x,'b':y}); sx=x-8 if x>=4 else x; sy=y-8 if y>=4 else y
    if s.inspect('o')!=(sx*sy)%64: bad.append((sx,sy,s.inspect('o'),(sx*sy)%64))
print('signed_tree bad', bad[:6], len(bad))
# 4 fma overflow
fresh()
a=pyrtl.Input(4,'a'); b=pyrtl.Input(4,'b'); c=pyrtl.Input(7,'c'); o=pyrtl.Output(name='o'); r=multipliers.fused_multiply_adder(a,b,c); o<<=r
s=pyrtl.Simulation(); s.step({'a':15,'b':15,'c':127}); print('fma len',len(r),'val',s.inspect('o'),'expect',15*15+127)
# 5 compiled negative
fresh()
a=pyrtl.Input(4,'a'); o=pyrtl.Output(4,'o'); o<<=a
try:
    cs=pyrtl.CompiledSimulation(); cs.step({'a':-1}); print('compiled accepted -1 ->', cs.inspect('o'))
except Exception as e: print('compiled rejected', type(e).__name__, e)
for S in (pyrtl.Simulation, pyrtl.FastSimulation):
    try:
        s=S(); s.step({'a':-1}); print(S.__name__,'accepted')
    except pyrtl.PyrtlError as e: print(S.__name__,'rejected')
    try:
        s=S(); s.step({'a':16}); print(S.__name__,'accepted 16')
    except pyrtl.PyrtlError as e: print(S.__name__,'rejected 16')
    try:
        s=S(); s.step({}); print(S.__name__,'accepted missing input')
    except pyrtl.PyrtlError as e: print(S.__name__,'rejected missing')
    except Exception as e: print(S.__name__,'missing ->', type(e).__name__)
