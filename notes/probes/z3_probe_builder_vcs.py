from z3 import *
import time
def prove(name, hyps, goal, to=20000):
    s = Solver(); s.set('timeout', to)
    for h in hyps: s.add(h)
    s.add(Not(goal)); t=time.time(); r=s.check(); print(name, 'PROVED' if r==unsat else r, round(time.time()-t,3))
    return r
# signed_lt with symbolic width n: P = 2^(n-1) as symbolic positive int
a,b,P,r,q = Ints('a b P r q')
# r = (a-b) mod 4P  encoded with witness q
hyp=[P>=1, 0<=a,a<2*P, 0<=b,b<2*P, a-b == q*(4*P)+r, 0<=r, r<4*P, q>=-1, q<=0]
am=If(a>=P,1,0); bm=If(b>=P,1,0); rm=If(r>=2*P,1,0)   # msb of (n+1)-bit r is bit n => r div 2P ... note len(r)=n+1, r[-1] = r div 2^n = r div 2P
def xor(x,y): return If(x==y,0,1)
res = xor(xor(rm, 1-am), 1-bm)
sa = If(a>=P, a-2*P, a); sb=If(b>=P, b-2*P, b)
prove('signed_lt', hyp, res == If(sa<sb,1,0))
# using native mod with symbolic modulus
a2,b2=Ints('a2 b2')
hyp2=[P>=1, 0<=a,a<2*P, 0<=b,b<2*P]
r2=(a-b)%(4*P)
rm2=If(r2>=2*P,1,0)
prove('signed_lt_native_mod', hyp2, xor(xor(rm2,1-am),1-bm)==If(sa<sb,1,0))
# sign_extended: concat(replicate(msb, k), a) : value = a + msb*(2^k -1)*2^n ; claim == sgn(a) mod 2^(n+k)
N,K=Ints('N K')   # N=2^n, K=2^k
hyp3=[N>=2, K>=2, 0<=a, a<N]
msb=If(2*a>=N,1,0)
ext = a + msb*(K-1)*N
sgn = If(2*a>=N, a-N, a)
prove('sign_ext', hyp3, And(ext == sgn % (N*K), ext>=0, ext<N*K))
# slice a[lo:hi] = (a div 2^lo) mod 2^(hi-lo); concat(hi_part, lo_part) reproduces a: a div L * L + a mod L == a
L=Int('L')
prove('split_join', [L>=1,a>=0], (a/L)*L + a%L == a)
# _two_var_op '+': exactness: (a'+b') mod 2^(m+1) == a+b where m=max(n1,n2), a<2^n1,b<2^n2 ; with A=2^n1,B=2^n2, M=max
A,B,M=Ints('A B M')
prove('add_exact', [A>=2,B>=2, M>=A, M>=B, 0<=a,a<A,0<=b,b<B], (a+b)%(2*M)==a+b)
prove('mul_exact', [A>=2,B>=2, 0<=a,a<A,0<=b,b<B], (a*b)%(A*B)==a*b)
