from z3 import *
import time
pow2 = Function('pow2', IntSort(), IntSort())
P=pow2
def prove(name, hyps, goal):
    s = Solver(); s.set('timeout', 20000)
    for h in hyps: s.add(h)
    s.add(Not(goal)); t=time.time(); r=s.check(); print(name, 'PROVED' if r==unsat else r, round(time.time()-t,3))
def pw(*ts):
    out=[]
    for t in ts:
        out += [P(t)>0, Implies(t>=1, P(t)==2*P(t-1)), Implies(t==0,P(t)==1)]
    return out
# select loop: selspec(m) = sum_{i<m} bit(p_i) 2^i ; Inv: res*2^(n-k) + selspec(n-k) == selspec(n)
selspec=Function('selspec',IntSort(),IntSort())   # for fixed src & params
bitp=Function('bitp',IntSort(),IntSort())         # bit(src, p_i) in {0,1}
n,k,res=Ints('n k res')
j=n-k-1
hyps=[n>=1,k>=0,k<n,res>=0, res*P(n-k)+selspec(n-k)==selspec(n),
      selspec(j+1)==selspec(j)+bitp(j)*P(j), bitp(j)>=0,bitp(j)<=1]+pw(n-k,n-k-1)
res2=2*res+bitp(j)
prove('select_step', hyps, res2*P(n-k-1)+selspec(n-k-1)==selspec(n))
# help: introduce q=P(n-k-1) explicitly
q=Int('q')
hyps2=[n>=1,k>=0,k<n,res>=0,q==P(n-k-1),P(n-k)==2*q,q>0, res*(2*q)+selspec(n-k)==selspec(n),
      selspec(j+1)==selspec(j)+bitp(j)*q, bitp(j)>=0,bitp(j)<=1]
prove('select_step_q', hyps2, res2*q+selspec(n-k-1)==selspec(n))
# step lemma with arrays
W=DeclareSort('W')
val=Array('val',W,IntSort())
dest=Function('dest',IntSort(),W)
arg=Function('arg',IntSort(),IntSort(),W)
sem=Function('sem',IntSort(),IntSort(),IntSort(),IntSort(),IntSort())  # sem(j, v0,v1,v2)
def S(jx,v): return sem(jx, v[arg(jx,0)], v[arg(jx,1)], v[arg(jx,2)])
kk,N=Ints('kk N'); jj=Int('jj'); pp=Int('pp'); ii=Int('ii')
topo=ForAll([ii,jj,pp], Implies(And(0<=jj,jj<=ii,ii<N,0<=pp,pp<3), arg(jj,pp)!=dest(ii)))
single=ForAll([ii,jj], Implies(And(0<=ii,ii<N,0<=jj,jj<N,ii!=jj), dest(ii)!=dest(jj)))
inv=ForAll([jj], Implies(And(0<=jj,jj<kk), val[dest(jj)]==S(jj,val)))
val2=Store(val,dest(kk),S(kk,val))
j0=Int('j0')
prove('step_lemma', [0<=kk,kk<N,topo,single,inv, 0<=j0,j0<=kk], val2[dest(j0)]==S(j0,val2))
