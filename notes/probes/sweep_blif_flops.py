import pyrtl, itertools, random, io, re
random.seed(2)
# ---- C12 flop table vs yosys naming
def yosys_next(name, d, e, s, r, q):
    # returns next q
    body=name.strip('$_')
    if body.startswith('SDFFCE'):
        _,pol=body.split('_',1); pol=pol.strip('_'); c,rp,rv,ep=pol
        en = (e==1) if ep=='P' else (e==0)
        rs = (r==1) if rp=='P' else (r==0)
        if not en: return q
        return int(rv) if rs else d
    if body.startswith('SDFFE'):
        pol=body.split('_',1)[1].strip('_'); c,rp,rv,ep=pol
        en = (e==1) if ep=='P' else (e==0); rs=(r==1) if rp=='P' else (r==0)
        if rs: return int(rv)
        return d if en else q
    if body.startswith('SDFF'):
        pol=body.split('_',1)[1].strip('_'); c,rp,rv=pol
        rs=(r==1) if rp=='P' else (r==0)
        return int(rv) if rs else d
    if body.startswith('DFFSRE'):
        pol=body.split('_',1)[1].strip('_'); c,sp,rp,ep=pol
        en=(e==1) if ep=='P' else (e==0)
        if (r==1) if rp=='P' else (r==0): return 0
        if (s==1) if sp=='P' else (s==0): return 1
        return d if en else q
    if body.startswith('DFFSR'):
        pol=body.split('_',1)[1].strip('_'); c,sp,rp=pol
        if (r==1) if rp=='P' else (r==0): return 0
        if (s==1) if sp=='P' else (s==0): return 1
        return d
    if body.startswith('DFFE'):
        pol=body.split('_',1)[1].strip('_')
        if len(pol)==2:
            c,ep=pol; en=(e==1) if ep=='P' else (e==0); return d if en else q
        c,rp,rv,ep=pol; en=(e==1) if ep=='P' else (e==0)
        if (r==1) if rp=='P' else (r==0): return int(rv)
        return d if en else q
    if body.startswith('DFF'):
        pol=body.split('_',1)[1].strip('_')
        if len(pol)==1: return d
        c,rp,rv=pol
        if (r==1) if rp=='P' else (r==0): return int(rv)
        return d
    raise Exception(name)
src=open('/repo/pyrtl/importexport.py').read()
names=re.findall(r"'(\$_[A-Z]+_[A-Z0-9]+_?)'", src.split('dff_names = [')[1].split(']')[0])
bad=[]
for nm in names:
    pins=['C','D']
    if 'E' in nm.strip('$_').split('_')[0][3:] or nm.strip('$_').split('_')[0].endswith('E') or 'CE' in nm: pins.append('E')
    has_e = nm.strip('$_').split('_')[0] in ('DFFE','SDFFE','SDFFCE','DFFSRE')
    has_s = nm.strip('$_').split('_')[0] in ('DFFSR','DFFSRE')
    pol=nm.strip('$_').split('_',1)[1].strip('_')
    has_r = len(pol)>=3 or has_s
    if nm.strip('$_').split('_')[0]=='DFFE' and len(pol)==2: has_r=False
    formal='C=clk D=d '+('E=e ' if has_e else '')+'Q=q '+('S=s ' if has_s else '')+('R=r' if has_r else '')
    ins='clk d'+(' e' if has_e else '')+(' s' if has_s else '')+(' r' if has_r else '')
    blif=".model top\n.inputs %s\n.outputs q\n.subckt %s %s\n.end\n"%(ins,nm,formal)
    pyrtl.reset_working_block()
    try:
        pyrtl.input_from_blif(blif)
    except Exception as ex:
        bad.append((nm,'EXC',type(ex).__name__,str(ex)[:80])); continue
    sim=pyrtl.Simulation(); q=0
    seq=[(random.randint(0,1),random.randint(0,1),random.randint(0,1),random.randint(0,1)) for _ in range(60)]
    for (d,e,s,r) in seq:
        inp={'d':d}
        if has_e: inp['e']=e
        if has_s: inp['s']=s
        if has_r: inp['r']=r
        sim.step(inp)
        if sim.inspect('q')!=q: bad.append((nm,'q',sim.inspect('q'),q)); break
        q=yosys_next(nm,d,e,s,r,q)
print('flops', len(names), 'bad', bad[:8])
