import pyrtl, itertools, io, re, random
# ---- C08: 2-word x 2-bit memory, 1 write port, 2 read ports, all histories of length 3 (sampled), three simulators
def build():
    pyrtl.reset_working_block()
    wa=pyrtl.Input(1,'wa'); wd=pyrtl.Input(2,'wd'); we=pyrtl.Input(1,'we'); ra=pyrtl.Input(1,'ra'); rb=pyrtl.Input(1,'rb')
    m=pyrtl.MemBlock(2,1,'m',asynchronous=True)
    o1=pyrtl.Output(2,'o1'); o2=pyrtl.Output(2,'o2')
    o1<<=m[ra]; o2<<=m[rb]
    m[wa] <<= pyrtl.MemBlock.EnabledWrite(wd,we)
    return m
ops=list(itertools.product([0,1],[0,1,2,3],[0,1],[0,1],[0,1]))
random.seed(5)
bad=[]
for init in [{}, {0:3}, {0:1,1:2}]:
    hists=[tuple(random.choice(ops) for _ in range(4)) for _ in range(60)]
    for S in (pyrtl.Simulation, pyrtl.FastSimulation, pyrtl.CompiledSimulation):
        m=build()
        for h in hists:
            sim=S(memory_value_map={m:dict(init)})
            model=dict(init)
            for (wa,wd,we,ra,rb) in h:
                sim.step({'wa':wa,'wd':wd,'we':we,'ra':ra,'rb':rb})
                if (sim.inspect('o1'),sim.inspect('o2'))!=(model.get(ra,0),model.get(rb,0)):
                    bad.append((S.__name__,init,h)); break
                if we: model[wa]=wd
            mem=sim.inspect_mem(m)
            if any(mem.get(a,0)!=model.get(a,0) for a in (0,1)): bad.append((S.__name__,'final',init,h))
print('C08 bad',bad[:3],len(bad))
# ---- C15: vcd / print_trace round trip, step vs step_multiple
pyrtl.reset_working_block()
a=pyrtl.Input(70,'a'); b=pyrtl.Input(3,'b[1]'); r=pyrtl.Register(70,'r'); o=pyrtl.Output(71,'o')
r.next<<=a; o<<=r+b
vals={'a':[random.getrandbits(70) for _ in range(5)],'b[1]':[random.getrandbits(3) for _ in range(5)]}
for S in (pyrtl.Simulation, pyrtl.FastSimulation, pyrtl.CompiledSimulation):
    s1=S(); s1.step_multiple(vals)
    s2=S()
    for i in range(5): s2.step({k:v[i] for k,v in vals.items()})
    same = all(list(s1.tracer.trace[k])==list(s2.tracer.trace[k]) for k in s1.tracer.trace)
    f=io.StringIO(); s1.tracer.print_vcd(f); t=f.getvalue()
    # parse vcd
    ids={}; cur={}; series={}
    for line in t.splitlines():
        mm=re.match(r'\$var wire (\d+) (\S+) (\S+) \$end',line)
        if mm: ids[mm.group(2)]=mm.group(3); continue
    f2=io.StringIO(); s1.tracer.print_trace(f2, base=16, compact=False); pt=f2.getvalue()
    rows={}
    for line in pt.splitlines()[1:]:
        parts=line.split()
        if parts: rows[parts[0]]=[int(x,16) for x in parts[1:]]
    ok_pt = all(rows.get(k)==list(s1.tracer.trace[k]) for k in s1.tracer.trace)
    print(S.__name__,'step_multiple==steps',same,'print_trace roundtrip',ok_pt, 'trace len', len(s1.tracer), 'vcd vars', sorted(ids.values()))
    # expected_outputs report
    out=io.StringIO()
    s3=S(); exp={'o':[ (x+1) for x in s2.tracer.trace['o']]}; exp['o'][2]=s2.tracer.trace['o'][2]
    s3.step_multiple(vals, exp, file=out)
    rep=[l.split() for l in out.getvalue().splitlines()[2:]]
    print('   report steps', [r_[0] for r_ in rep])
