import pyrtl, io
def run(build, xform, n=4):
    pyrtl.reset_working_block()
    a=pyrtl.Input(n,'a'); b=pyrtl.Input(n,'b'); o=pyrtl.Output(name='o')
    o <<= build(a,b)
    ref = {}
    sim=pyrtl.Simulation()
    for x in range(2**n):
        for y in range(2**n):
            sim.step({'a':x,'b':y}); ref[(x,y)]=sim.inspect('o')
    xform()
    sim=pyrtl.Simulation()
    bad=[]
    for x in range(2**n):
        for y in range(2**n):
            sim.step({'a':x,'b':y})
            if sim.inspect('o')!=ref[(x,y)]: bad.append((x,y,ref[(x,y)],sim.inspect('o')))
    return bad[:5], len(bad)
print('sub synth', run(lambda a,b:a-b, lambda: pyrtl.synthesize()))
print('xor aig', run(lambda a,b:a^b, lambda: (pyrtl.synthesize(), pyrtl.and_inverter_synth())))
print('xor nand', run(lambda a,b:a^b, lambda: (pyrtl.synthesize(), pyrtl.nand_synth())))
print('or aig', run(lambda a,b:a|b, lambda: (pyrtl.synthesize(), pyrtl.and_inverter_synth())))
print('add synth', run(lambda a,b:a+b, lambda: pyrtl.synthesize()))
print('mul synth', run(lambda a,b:a*b, lambda: pyrtl.synthesize()))
print('lt synth', run(lambda a,b:a<b, lambda: pyrtl.synthesize()))
