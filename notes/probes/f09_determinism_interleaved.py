import sys, io, hashlib
variant, k = sys.argv[1], int(sys.argv[2])
import pyrtl
class J(object):
    def __init__(self): self.a=1; self.b=2
keep=[]
def gap():
    for _ in range(k): keep.append(J())
names = ['a1','a01','a001','b2','b02','b002','c3','c03'] if variant=='tie' else ['x[0]','x[1]','y.z','p-q','r s','t#','u@v','w%']
ws=[]
for n in names:
    ws.append(pyrtl.Input(2,n)); gap()
acc=ws[0]
for w in ws[1:]: acc = acc ^ w
o=pyrtl.Output(2,'o'); o <<= acc
f=io.StringIO(); pyrtl.output_to_verilog(f); t=f.getvalue()
print(hashlib.md5(t.encode()).hexdigest()[:8])
