import pyrtl, itertools, sys
from pyrtl.rtllib import adders, multipliers, muxes, barrel, libutils
def sgn(v,w): return v-(1<<w) if v>>(w-1) else v
def run2(f, wa, wb, spec, name, wmax=None):
    pyrtl.reset_working_block()
    a=pyrtl.Input(wa,'a'); b=pyrtl.Input(wb,'b'); r=f(a,b); o=pyrtl.Output(len(r),'o'); o<<=r
    s=pyrtl.Simulation(); bad=[]
    for x in range(1<<wa):
        for y in range(1<<wb):
            s.step({'a':x,'b':y}); e=spec(x,y,wa,wb,len(r))
            if e is None: continue
            if s.inspect('o')!=e: bad.append((wa,wb,x,y,s.inspect('o'),e))
    return bad, len(r)
res={}
W=range(1,5)
def sweep(name,f,spec,lenspec=None, W1=W, W2=W):
    allbad=[]; lenbad=[]
    for wa in W1:
        for wb in W2:
            try:
                bad,l=run2(f,wa,wb,spec,name)
            except Exception as e:
                allbad.append(('EXC',wa,wb,type(e).__name__,str(e)[:60])); continue
            allbad+=bad[:2]
            if lenspec and l!=lenspec(wa,wb): lenbad.append((wa,wb,l,lenspec(wa,wb)))
    print(name, 'OK' if not allbad and not lenbad else ('BAD',allbad[:4],'LEN',lenbad[:4]))
M=lambda w:(1<<w)-1
sweep('add', lambda a,b:a+b, lambda x,y,wa,wb,l:(x+y), lambda wa,wb:max(wa,wb)+1)
sweep('sub', lambda a,b:a-b, lambda x,y,wa,wb,l:(x-y)%(1<<l), lambda wa,wb:max(wa,wb)+1)
sweep('mul', lambda a,b:a*b, lambda x,y,wa,wb,l:(x*y), lambda wa,wb:wa+wb)
sweep('lt', lambda a,b:a<b, lambda x,y,wa,wb,l:int(x<y), lambda wa,wb:1)
sweep('le', lambda a,b:a<=b, lambda x,y,wa,wb,l:int(x<=y), lambda wa,wb:1)
sweep('ge', lambda a,b:a>=b, lambda x,y,wa,wb,l:int(x>=y), lambda wa,wb:1)
sweep('ne', lambda a,b:a!=b, lambda x,y,wa,wb,l:int(x!=y), lambda wa,wb:1)
sweep('and', lambda a,b:a&b, lambda x,y,wa,wb,l:x&y, lambda wa,wb:max(wa,wb))
sweep('xor', lambda a,b:a^b, lambda x,y,wa,wb,l:x^y, lambda wa,wb:max(wa,wb))
sweep('nand', lambda a,b:a.nand(b), lambda x,y,wa,wb,l:~(x&y)&M(l), lambda wa,wb:max(wa,wb))
sweep('signed_add', pyrtl.signed_add, lambda x,y,wa,wb,l:(sgn(x,wa)+sgn(y,wb))%(1<<l), lambda wa,wb:max(wa,wb)+1)
sweep('signed_mult', pyrtl.signed_mult, lambda x,y,wa,wb,l:(sgn(x,wa)*sgn(y,wb))%(1<<l), lambda wa,wb:wa+wb)
sweep('signed_lt', pyrtl.signed_lt, lambda x,y,wa,wb,l:int(sgn(x,wa)<sgn(y,wb)), lambda wa,wb:1)
sweep('signed_le', pyrtl.signed_le, lambda x,y,wa,wb,l:int(sgn(x,wa)<=sgn(y,wb)), lambda wa,wb:1)
sweep('signed_gt', pyrtl.signed_gt, lambda x,y,wa,wb,l:int(sgn(x,wa)>sgn(y,wb)), lambda wa,wb:1)
sweep('signed_ge', pyrtl.signed_ge, lambda x,y,wa,wb,l:int(sgn(x,wa)>=sgn(y,wb)), lambda wa,wb:1)
sweep('sll', pyrtl.shift_left_logical, lambda x,y,wa,wb,l:(x<<y)&M(wa), lambda wa,wb:wa)
sweep('sla', pyrtl.shift_left_arithmetic, lambda x,y,wa,wb,l:(x<<y)&M(wa), lambda wa,wb:wa)
sweep('srl', pyrtl.shift_right_logical, lambda x,y,wa,wb,l:(x>>y), lambda wa,wb:wa)
sweep('sra', pyrtl.shift_right_arithmetic, lambda x,y,wa,wb,l:(sgn(x,wa)>>y)&M(wa), lambda wa,wb:wa)
for k in (1,2,3):
    sweep('sll_c%d'%k, lambda a,b,k=k:pyrtl.shift_left_logical(a,k), lambda x,y,wa,wb,l,k=k:(x<<k)&M(wa), lambda wa,wb:wa, W1=range(k+1,6), W2=[1])
    sweep('srl_c%d'%k, lambda a,b,k=k:pyrtl.shift_right_logical(a,k), lambda x,y,wa,wb,l,k=k:(x>>k), lambda wa,wb:wa, W1=range(k+1,6), W2=[1])
    sweep('sra_c%d'%k, lambda a,b,k=k:pyrtl.shift_right_arithmetic(a,k), lambda x,y,wa,wb,l,k=k:(sgn(x,wa)>>k)&M(wa), lambda wa,wb:wa, W1=range(k+1,6), W2=[1])
# adders
sweep('kogge', adders.kogge_stone, lambda x,y,wa,wb,l:x+y, lambda wa,wb:max(wa,wb)+1, W1=range(1,6),W2=range(1,6))
sweep('ripple', adders.ripple_add, lambda x,y,wa,wb,l:x+y, lambda wa,wb:max(wa,wb)+1, W1=range(1,6),W2=range(1,6))
for u in (1,2,3,4):
    sweep('cla%d'%u, lambda a,b,u=u:adders.cla_adder(a,b,la_unit_len=u), lambda x,y,wa,wb,l:x+y, lambda wa,wb:max(wa,wb)+1, W1=range(1,6),W2=range(1,6))
for red in (adders.wallace_reducer, adders.dada_reducer):
    sweep('treemul_'+red.__name__, lambda a,b,red=red:multipliers.tree_multiplier(a,b,reducer=red), lambda x,y,wa,wb,l:x*y, lambda wa,wb:wa+wb, W1=range(1,6),W2=range(1,6))
    sweep('fga_'+red.__name__, lambda a,b,red=red:adders.fast_group_adder([a,b,a],reducer=red), lambda x,y,wa,wb,l:(2*x+y), None, W1=range(1,5),W2=range(1,5))
sweep('signed_tree', multipliers.signed_tree_multiplier, lambda x,y,wa,wb,l:(sgn(x,wa)*sgn(y,wb))%(1<<l), lambda wa,wb:wa+wb, W1=range(2,5),W2=range(2,5))
