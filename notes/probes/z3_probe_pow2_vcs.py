from z3 import *
import time
pow2 = Function('pow2', IntSort(), IntSort())
band = Function('band', IntSort(), IntSort(), IntSort())
bor = Function('bor', IntSort(), IntSort(), IntSort())
def P(k): return pow2(k)
def prove(name, hyps, goal, extra=[]):
    s = Solver(); s.set('timeout', 10000)
    for h in hyps+extra: s.add(h)
    s.add(Not(goal)); t=time.time(); r=s.check(); print(name, 'PROVED' if r==unsat else r, round(time.time()-t,3))
    if r==sat: print(s.model())
k,w,n,a,b,v,r,c,cin = Ints('k w n a b v r c cin')
# ground instantiation of pow2 axioms
def pw(*ts):
    out=[]
    for t in ts:
        out += [P(t)>0, Implies(t>=1, P(t)==2*P(t-1)), Implies(t==0,P(t)==1), Implies(t>=1,P(t)>=2)]
    return out
# 1. sanitize: val & mask(w) == val mod 2^w ; mask = (1<<w)-1 = pow2(w)-1 ; axiom band(x, pow2(w)-1) = x mod pow2(w)
x=Int('x')
ax_mask = ForAll([x,w], Implies(w>=0, band(x, P(w)-1) == x % P(w)))
prove('sanitize', [w>=1, ax_mask]+pw(w), And(band(v, (1*P(w))-1) == v % P(w), band(v,P(w)-1)>=0, band(v,P(w)-1)<P(w)))
# 2. concat step: (r << w) | v == r*2^w + v for 0<=v<2^w ; r>=0
ax_or = ForAll([a,b,k], Implies(And(k>=0, a>=0, b>=0, b<P(k)), bor(a*P(k), b) == a*P(k)+b))
prove('concat_step', [w>=1, r>=0, v>=0, v<P(w), ax_or]+pw(w), bor(r*P(w), v) == r*P(w)+v)
# 3. add_helper induction step
ms, co, ls, rc, a0,b0 = Ints('ms co ls rc a0 b0')
hyp = [n>=2, a>=0,a<P(n), b>=0,b<P(n), cin>=0,cin<=1,
       ls>=0,ls<=1,rc>=0,rc<=1, ls+2*rc == a%2 + b%2 + cin,
       ms>=0, ms<P(n-1), co>=0,co<=1, ms + P(n-1)*co == a/2 + b/2 + rc]
prove('add_helper_step', hyp+pw(n,n-1), And((ms*2+ls) + P(n)*co == a+b+cin, ms*2+ls < P(n)))
# 4 basic_sub check: a + (2^n-1-b) + 1 = S + 2^n*co ; claim concat(co,S) == (a-b) mod 2^(n+1) -> should be refuted
S=Int('S')
hyp=[n>=1,a>=0,a<P(n),b>=0,b<P(n),S>=0,S<P(n),co>=0,co<=1, S+P(n)*co == a+(P(n)-1-b)+1]
prove('basic_sub (expect sat)', hyp+pw(n,n+1), co*P(n)+S == (a-b) % P(n+1))
prove('basic_sub fixed', hyp+pw(n,n+1), (1-co)*P(n)+S == (a-b) % P(n+1))
# 5 convert_int accept: bitlen axiom
bitlen=Function('bitlen',IntSort(),IntSort())
val,bw=Ints('val bw')
axbl=[Implies(val>0, And(P(bitlen(val)-1)<=val, val<P(bitlen(val)), bitlen(val)>=1)), Implies(val==0, bitlen(val)==1)]
# monotonic instantiation: pow2 monotone
mono = ForAll([a,b], Implies(And(a>=0,a<=b), P(a)<=P(b)))
minbw = bitlen(val)+If(val!=0,1,0)
prove('convert_int signed accept <=> val < 2^(bw-1)', [val>=0,bw>=1,mono]+axbl+pw(bw,bw-1,bitlen(val),bitlen(val)-1), (bw>=minbw) == (val < P(bw-1)))
