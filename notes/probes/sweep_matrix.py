import pyrtl, random, itertools, sys
from pyrtl.rtllib import matrix as M
random.seed(3)
def run(build, shapes_bits, ref, name, trials=6):
    """shapes_bits: list of (rows,cols,bits) for inputs; build(mats)->Matrix or WireVector; ref(lists)->(list-of-lists or int)"""
    bad=[]
    pyrtl.reset_working_block()
    ins=[]; mats=[]
    for k,(r,c,b) in enumerate(shapes_bits):
        w=pyrtl.Input(r*c*b,'m%d'%k); ins.append(w); mats.append(M.Matrix(r,c,b,value=w))
    try:
        res=build(mats)
    except Exception as e:
        return [('EXC',type(e).__name__,str(e)[:70])]
    if isinstance(res,M.Matrix):
        o=pyrtl.Output(len(res),'o'); o<<=res.to_wirevector(); rr,rc,rb=res.rows,res.columns,res.bits
    else:
        o=pyrtl.Output(len(res),'o'); o<<=res; rr=None; rb=len(res)
    sim=pyrtl.Simulation()
    for t in range(trials):
        vals=[[[random.getrandbits(b) for _ in range(c)] for _ in range(r)] for (r,c,b) in shapes_bits]
        if t==0: vals=[[[ (1<<b)-1 for _ in range(c)] for _ in range(r)] for (r,c,b) in shapes_bits]
        inp={}
        for k,(r,c,b) in enumerate(shapes_bits):
            inp['m%d'%k]=M.list_to_int(vals[k],b)
        sim.step(inp)
        got=sim.inspect('o')
        exp=ref(vals)
        if rr is not None:
            gl=M.matrix_wv_to_list if False else None
            # decode
            flat=[]; g=got
            for _ in range(rr*rc): flat.append(g & ((1<<rb)-1)); g>>=rb
            flat=flat[::-1]
            gm=[flat[i*rc:(i+1)*rc] for i in range(rr)]
            em=[[x % (1<<rb) for x in row] for row in exp]
            if gm!=em: bad.append((name,shapes_bits,vals,gm,em,rb)); break
        else:
            if isinstance(exp,list):
                while isinstance(exp,list): exp=exp[0] if len(exp)==1 else None
                if exp is None: bad.append((name,shapes_bits,'SHAPE: scalar returned, matrix expected')); break
            if got!=exp%(1<<rb): bad.append((name,shapes_bits,vals,got,exp%(1<<rb))); break
    return bad
def T(m): return [list(x) for x in zip(*m)]
tests=[]
for (r,c) in [(1,1),(1,3),(2,2),(2,3),(3,2)]:
  for b in (1,3):
    tests.append(('transpose',[(r,c,b)], lambda ms:ms[0].transpose(), lambda v:T(v[0])))
    tests.append(('reversed',[(r,c,b)], lambda ms:reversed(ms[0]), lambda v:[row[::-1] for row in v[0][::-1]]))
    for b2 in (1,2,3):
        tests.append(('add',[(r,c,b),(r,c,b2)], lambda ms:ms[0]+ms[1], lambda v:[[x+y for x,y in zip(a,bb)] for a,bb in zip(v[0],v[1])]))
        tests.append(('sub',[(r,c,b),(r,c,b2)], lambda ms:ms[0]-ms[1], lambda v:[[max(x-y,0) for x,y in zip(a,bb)] for a,bb in zip(v[0],v[1])]))
        tests.append(('mul',[(r,c,b),(r,c,b2)], lambda ms:ms[0]*ms[1], lambda v:[[x*y for x,y in zip(a,bb)] for a,bb in zip(v[0],v[1])]))
        tests.append(('matmul',[(r,c,b),(c,r,b2)], lambda ms:ms[0]@ms[1], lambda v:[[sum(v[0][i][k]*v[1][k][j] for k in range(len(v[1]))) for j in range(len(v[1][0]))] for i in range(len(v[0]))]))
        tests.append(('dot',[(r,c,b),(c,r,b2)], lambda ms:M.dot(ms[0],ms[1]), lambda v:[[sum(v[0][i][k]*v[1][k][j] for k in range(len(v[1]))) for j in range(len(v[1][0]))] for i in range(len(v[0]))]))
        tests.append(('hstack',[(r,c,b),(r,c,b2)], lambda ms:M.hstack(ms[0],ms[1]), lambda v:[a+bb for a,bb in zip(v[0],v[1])]))
        tests.append(('vstack',[(r,c,b),(r,c,b2)], lambda ms:M.vstack(ms[0],ms[1]), lambda v:v[0]+v[1]))
    for ax in (None,0,1):
        def red(f,ax=ax):
            def g(v):
                m=v[0]
                if ax is None: return f([x for row in m for x in row])
                if ax==0: return [[f([m[i][j] for i in range(len(m))]) for j in range(len(m[0]))]]
                return [[f(row) for row in m]]
            return g
        import builtins
        tests.append(('sum%s'%ax,[(r,c,b)], lambda ms,ax=ax:M.sum(ms[0],axis=ax), red(builtins.sum)))
        tests.append(('min%s'%ax,[(r,c,b)], lambda ms,ax=ax:M.min(ms[0],axis=ax), red(builtins.min)))
        tests.append(('max%s'%ax,[(r,c,b)], lambda ms,ax=ax:M.max(ms[0],axis=ax), red(builtins.max)))
        tests.append(('argmax%s'%ax,[(r,c,b)], lambda ms,ax=ax:M.argmax(ms[0],axis=ax), red(lambda l: l.index(builtins.max(l)))))
    for order in 'CF':
        def rs(v,order=order,r=r,c=c):
            m=v[0]; flat=[x for row in m for x in row] if order=='C' else [m[i][j] for j in range(c) for i in range(r)]
            return [flat]
        tests.append(('flatten'+order,[(r,c,b)], lambda ms,order=order:ms[0].flatten(order=order), rs))
        def rs2(v,order=order,r=r,c=c):
            m=v[0]; flat=[x for row in m for x in row] if order=='C' else [m[i][j] for j in range(c) for i in range(r)]
            nr,nc=c,r
            if order=='C': return [flat[i*nc:(i+1)*nc] for i in range(nr)]
            out=[[0]*nc for _ in range(nr)]; ix=0
            for j in range(nc):
                for i in range(nr): out[i][j]=flat[ix]; ix+=1
            return out
        tests.append(('reshape'+order,[(r,c,b)], lambda ms,order=order,r=r,c=c:ms[0].reshape(c,r,order=order), rs2))
    tests.append(('pow2',[(r,r,b)], lambda ms:ms[0]**2, lambda v:[[sum(v[0][i][k]*v[0][k][j] for k in range(len(v[0]))) for j in range(len(v[0]))] for i in range(len(v[0]))]))
    tests.append(('getneg',[(r,c,b)], lambda ms:ms[0][-1,-1], lambda v:v[0][-1][-1]))
    tests.append(('getrow',[(r,c,b)], lambda ms:ms[0][-1], lambda v:[v[0][-1]]))
    tests.append(('slice',[(r,c,b)], lambda ms:ms[0][0:1,:], lambda v:[v[0][0]]))
summary={}
for (name,sb,bld,ref) in tests:
    bad=run(bld,sb,ref,name)
    if bad: summary.setdefault(name,[]).append((sb,bad[0][1:] if bad[0][0]!='EXC' else bad[0]))
for k,v in summary.items():
    print(k, len(v), str(v[0])[:260])
print('total tests',len(tests),'failing kinds',len(summary))
