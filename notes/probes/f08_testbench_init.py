import pyrtl, io
def build():
    pyrtl.reset_working_block()
    a=pyrtl.Input(2,'a'); r=pyrtl.Register(4,'r'); m=pyrtl.MemBlock(4,2,'m'); o=pyrtl.Output(4,'o'); o2=pyrtl.Output(4,'o2')
    r.next <<= r + a; o <<= r; o2 <<= m[a]
    m[a] <<= pyrtl.MemBlock.EnabledWrite(r, a[0])
    return r,m
for S in (pyrtl.Simulation, pyrtl.FastSimulation, pyrtl.CompiledSimulation):
    r,m=build()
    s=S(register_value_map={r:9}, memory_value_map={m:{1:7}})
    s.step_multiple({'a':[1,2]})
    f=io.StringIO(); pyrtl.output_verilog_testbench(f, s.tracer, vcd=None)
    t=f.getvalue()
    print(S.__name__, [l.strip() for l in t.splitlines() if 'block.' in l and 'for' not in l], 'first o:', s.tracer.trace['o'][0])
