import pyrtl, itertools, sys, io
from pyrtl.rtllib import muxes, libutils
from pyrtl import helperfuncs as hf
M=lambda w:(1<<w)-1
# ---- conversions C16
bad=[]
for signed in (False,True):
  for bw in [None]+list(range(1,7)):
    for v in range(-40,41):
        if signed: rep = (bw is None) or (-(1<<(bw-1))<=v<(1<<(bw-1)))
        else:
            rep = (v>=0 and (bw is None or v<(1<<bw))) or (v<0 and bw is not None and v>=-(1<<(bw-1)))
        try:
            n,w=hf.infer_val_and_bitwidth(v,bw,signed); ok=True
        except pyrtl.PyrtlError: ok=False
        if ok!=rep: bad.append(('acc',v,bw,signed,ok,rep)); continue
        if ok:
            if n!=v%(1<<w): bad.append(('val',v,bw,signed,n,w))
            if bw is None:
                # minimal
                if signed: mn=min(k for k in range(1,20) if -(1<<(k-1))<=v<(1<<(k-1)))
                else: mn=max(1,v.bit_length())
                if w!=mn: bad.append(('min',v,signed,w,mn))
print('infer int', bad[:6], len(bad))
bad=[]
for bw in range(1,7):
    for v in range(1<<bw):
        s=hf.val_to_signed_integer(v,bw)
        if not(-(1<<(bw-1))<=s<(1<<(bw-1)) and s%(1<<bw)==v): bad.append((v,bw,s))
        for f in 'sxbu':
            fmt=f+str(bw)
            st=hf.val_to_formatted_str(v,fmt)
            if hf.formatted_str_to_val(st,fmt)!=v: bad.append((v,fmt,st))
print('signed/format', bad[:5])
bad=[]
for bw in range(1,8):
    for v in range(-(1<<bw),(1<<bw)+1):
        try: r=libutils.twos_comp_repr(v,bw)
        except pyrtl.PyrtlError: continue
        try:
            back=libutils.rev_twos_comp_repr(r,bw)
            if back!=v: bad.append((v,bw,r,back))
        except pyrtl.PyrtlError as e: bad.append((v,bw,r,'rev rejects'))
print('twos_comp', bad[:5])
for s,exp in [("5'd12",(12,5)),("-4'd3",(13,4)),("-4'd8",(8,4)),("4'hf",(15,4)),("-1'd1",(1,1)),("-3'd4",(4,3)),("-3'd5",None),("3'd8",None)]:
    try: r=tuple(hf.infer_val_and_bitwidth(s))
    except pyrtl.PyrtlError: r=None
    print(' vstr',s,r,exp,'OK' if r==exp else 'DIFF')
# ---- mux family
def sim1(build, widths, spec):
    pyrtl.reset_working_block()
    ins=[pyrtl.Input(w,'i%d'%k) for k,w in enumerate(widths)]
    r=build(*ins); o=pyrtl.Output(len(r),'o'); o<<=r
    s=pyrtl.Simulation(); bad=[]
    for vals in itertools.product(*[range(1<<w) for w in widths]):
        s.step({'i%d'%k:v for k,v in enumerate(vals)})
        e=spec(*vals)
        if e is not None and s.inspect('o')!=e: bad.append((vals,s.inspect('o'),e))
    return bad[:3]
print('mux4', sim1(lambda s,a,b,c,d:pyrtl.mux(s,a,b,c,d),[2,2,2,2,2], lambda s,a,b,c,d:[a,b,c,d][s]))
print('mux3d', sim1(lambda s,a,b,c:pyrtl.mux(s,a,b,c,default=1),[2,2,2,2], lambda s,a,b,c:[a,b,c,1][s]))
print('select', sim1(lambda s,a,b:pyrtl.select(s,a,b),[1,2,3], lambda s,a,b:a if s else b))
print('sparse', sim1(lambda s,a,b:muxes.sparse_mux(s,{0:a,5:b,'default':pyrtl.Const(3,2)}),[3,2,2], lambda s,a,b:{0:a,5:b}.get(s,3)))
print('sparse_nodef', sim1(lambda s,a,b:muxes.sparse_mux(s,{1:a,6:b}),[3,2,2], lambda s,a,b:{1:a,6:b}.get(s)))
print('prio', sim1(lambda s0,s1,s2,a,b,c:muxes.prioritized_mux([s0,s1,s2],[a,b,c]),[1,1,1,2,2,2], lambda s0,s1,s2,a,b,c:a if s0 else b if s1 else c))
def dm(s):
    return pyrtl.concat_list(list(muxes.demux(s)))
print('demux', sim1(dm,[3], lambda s:1<<s))
for (st,en) in [(0,2),(1,3),(None,2),(2,None),(-2,None),(None,-1),(-3,-1),(1,2)]:
    w=5
    idx=list(range(w))[st:en]
    def spec(x,v,idx=idx):
        r=x
        for k,i in enumerate(idx): r=(r&~(1<<i))|(((v>>k)&1)<<i)
        return r
    print(' bfu',st,en, sim1(lambda x,v,st=st,en=en:pyrtl.bitfield_update(x,st,en,v),[w,len(idx)],spec))
print('chop', sim1(lambda x:pyrtl.concat(*pyrtl.chop(x,1,3,2)),[6],lambda x:x))
def chk_chop(x):
    a,b,c=pyrtl.chop(x,1,3,2); return pyrtl.concat(c,b,a)
print('chop order', sim1(chk_chop,[6],lambda x:((x&3)<<4)|(((x>>2)&7)<<1)|(x>>5)))
def mb(x):
    m,(a,b)=pyrtl.match_bitpattern(x,'1a0b ba?_a'.replace(' ','')) if False else pyrtl.match_bitpattern(x,'1a0bba?a')
    return pyrtl.concat(m,a,b)
def mbspec(x):
    bits=[(x>>i)&1 for i in range(8)]  # lsb first ; pattern msb first: idx7='1',6='a',5='0',4='b',3='b',2='a',1='?',0='a'
    m=int(bits[7]==1 and bits[5]==0)
    a=(bits[6]<<2)|(bits[2]<<1)|bits[0]; b=(bits[4]<<1)|bits[3]
    return (m<<5)|(a<<2)|b
print('match_bitpattern', sim1(mb,[8],mbspec))
print('bitpattern_to_val', hf.bitpattern_to_val('1a0bba?a'.replace('?','1'),a=5,b=2), bin(hf.bitpattern_to_val('1a0bba1a',a=5,b=2)))
