import sys, io
variant, pad, rev = sys.argv[1], int(sys.argv[2]), int(sys.argv[3])
junk=[bytearray(37) for _ in range(pad)]
import pyrtl
def mk(names, cls, w=2):
    order = names[::-1] if rev else names
    d={}
    for n in order: d[n]=cls(w,n)
    return d
if variant=='tie':
    ws=mk(['a1','a01'], pyrtl.Input); o=pyrtl.Output(2,'o'); o <<= ws['a1'] ^ ws['a01']
elif variant=='sani':
    ws=mk(['x[0]','y.z'], pyrtl.Input); o=pyrtl.Output(2,'o'); o <<= ws['x[0]'] & ws['y.z']
elif variant=='memen':
    a=pyrtl.Input(2,'a'); b=pyrtl.Input(2,'b'); we=pyrtl.Input(1,'we'); d=pyrtl.Input(3,'d'); o=pyrtl.Output(3,'o')
    m=pyrtl.MemBlock(3,2,'m',max_write_ports=2,asynchronous=True)
    ports=[(a,d),(b,~d)]
    if rev: ports=ports[::-1]
    for ad,da in ports: m[ad] <<= pyrtl.MemBlock.EnabledWrite(da, we)
    o <<= m[a]
f=io.StringIO(); pyrtl.output_to_verilog(f)
import hashlib; t=f.getvalue()
print(hashlib.md5(t.encode()).hexdigest()[:8])
if len(sys.argv)>4: print(t)
