import pyrtl, random, io, sys, contextlib, math
exec(open('p6.py').read().split("import contextlib")[0])
from pyrtl import analysis
bad=[]
for seed in range(150):
    blk=gen(seed)
    delays={}
    rnd=random.Random(seed)
    dl={op: (lambda w,op=op,v=rnd.choice([0,1,2,3,5]): v) for op in 'w~&|^n+-*<>=xcs'}
    dl['r']=lambda w:-1; dl['@']=lambda w:-1; dl['m']=lambda mem:4
    ta=analysis.TimingAnalysis(block=blk, gate_delay_funcs=dl)
    # independent: memoized longest path
    src,_=blk.net_connections()
    memo={}
    def t(w):
        if isinstance(w,(pyrtl.Input,pyrtl.Const,pyrtl.Register)): return 0
        if w in memo: return memo[w]
        n=src[w]
        d=dl['m'](n.op_param[1]) if n.op=='m' else dl[n.op](len(n.args[0]))
        memo[w]=max(t(a) for a in n.args)+d
        return memo[w]
    for w,v in ta.timing_map.items():
        if t(w)!=v: bad.append((seed,w.name,v,t(w)))
    missing=[w.name for w in blk.wirevector_set if w not in ta.timing_map]
    if missing: bad.append((seed,'missing',missing[:3]))
    ml=ta.max_length()
    with contextlib.redirect_stdout(io.StringIO()):
        cps=ta.critical_path(print_cp=False, cp_limit=1000)
    for first,path in cps:
        tot=sum((dl['m'](n.op_param[1]) if n.op=='m' else dl[n.op](len(n.args[0]))) for n in path)
        if tot!=ml: bad.append((seed,'cp sum',tot,ml)); break
    # fanout
    for w in blk.wirevector_set:
        fo=sum(1 for n in blk.logic for a in n.args if a is w)
        if analysis.fanout(w)!=fo: bad.append((seed,'fanout',w.name,analysis.fanout(w),fo)); break
print('C17 bad', bad[:6], len(bad))
# paths vs independent simple-path enumeration
bad=[]
for seed in range(60):
    blk=gen(seed, mem=False)
    _,dst=blk.net_connections()
    ins=list(blk.wirevector_subset(pyrtl.Input)); outs=list(blk.wirevector_subset(pyrtl.Output))
    res=analysis.paths(block=blk)
    def enum(s,d):
        out=[]
        def dfs(w,path):
            if w is d and path: out.append(tuple(path))
            for n in dst.get(w,[]):
                if n in path or n.op=='@': continue
                dfs(n.dests[0],path+[n])
        dfs(s,[])
        return out
    for s in ins:
        for d in outs:
            a=sorted(map(lambda p:tuple(id(n) for n in p), res[s][d])); b=sorted(map(lambda p:tuple(id(n) for n in p), enum(s,d)))
            if a!=b: bad.append((seed,s.name,d.name,len(a),len(b)))
print('paths bad', bad[:6], len(bad))
