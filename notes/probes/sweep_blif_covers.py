import pyrtl, itertools, random
random.seed(7)
def cover_eval(rows, vals):
    # rows: list of (inplane, '1'); ON-set
    for plane,_ in rows:
        if all(c=='-' or int(c)==v for c,v in zip(plane,vals)): return 1
    return 0
bad=[]; n=0
for nin in (1,2,3,4):
    planes=[''.join(p) for p in itertools.product('01-',repeat=nin)]
    for trial in range(120 if nin>1 else 12):
        k=random.randint(1,3)
        rows=[(random.choice(planes),'1') for _ in range(k)]
        ins=' '.join('i%d'%j for j in range(nin))
        blif=".model top\n.inputs %s\n.outputs o\n.names %s o\n%s\n.end\n"%(ins,ins,'\n'.join(p+' 1' for p,_ in rows))
        pyrtl.reset_working_block()
        try: pyrtl.input_from_blif(blif)
        except Exception as e:
            bad.append(('EXC',rows,type(e).__name__,str(e)[:60])); continue
        sim=pyrtl.Simulation(); n+=1
        for vals in itertools.product([0,1],repeat=nin):
            sim.step({'i%d'%j:v for j,v in enumerate(vals)})
            if sim.inspect('o')!=cover_eval(rows,vals): bad.append((rows,vals,sim.inspect('o'))); break
print('covers',n,'bad',bad[:5],len(bad))
# constants and latches, vector merge
blif=""".model top
.inputs clk a[0] a[1] b
.outputs o[0] o[1] q0 q1 q2 q3 z one
.names z
.names one
1
.names a[0] b o[0]
11 1
.names a[1] o[0] o[1]
1- 1
-1 1
.latch a[0] q0 re clk 0
.latch a[0] q1 re clk 1
.latch a[0] q2 re clk 2
.latch a[0] q3 re clk 3
.end
"""
for merge in (True,False):
    pyrtl.reset_working_block(); pyrtl.input_from_blif(blif, merge_io_vectors=merge)
    sim=pyrtl.Simulation(); prev=None; out=[]
    for t in range(6):
        a0,a1,b=random.randint(0,1),random.randint(0,1),random.randint(0,1)
        inp={'a':a0|(a1<<1),'b':b} if merge else {'a[0]':a0,'a[1]':a1,'b':b}
        sim.step(inp)
        o0=a0&b; o1=a1|o0
        got=(sim.inspect('o'),) if merge else (sim.inspect('o[0]')|(sim.inspect('o[1]')<<1),)
        exp=(o0|(o1<<1),)
        qs=[sim.inspect('q%d'%i) for i in range(4)]
        expq=[0,1,0,0] if prev is None else [prev]*4
        out.append((got==exp, qs==expq, sim.inspect('z'), sim.inspect('one')))
        prev=a0
    print('merge',merge,out)
