#!/bin/bash
# seed_sweep.sh [workers] - run every stored seeded change through the check of its property, in parallel,
# on scratch git worktrees of /repo (VERIF_REPO); /repo itself is not touched.  Properties are partitioned
# over the workers so that one property's check never runs twice at the same time (evidence / replay files).
# Output: one line per seed "<id> exit=<n>" (1 = reported).  Worktrees are removed at the end.
N=${1:-4}
OUT=${2:-/tmp/seed_sweep.out}
: > $OUT
cd /verif
PROPS=($(ls seeded | sed 's/-m.*//' | sort -u))
worker() {
  k=$1
  WT=/tmp/sw_$k
  git -C /repo worktree remove --force $WT 2>/dev/null
  git -C /repo worktree add -q $WT HEAD || exit 2
  i=0
  for P in "${PROPS[@]}"; do
    if [ $((i % N)) -eq $k ]; then
      for d in seeded/$P-m*/; do
        id=$(basename $d)
        ( cd $WT && git checkout -q -- . && git apply /verif/seeded/$id/patch.diff ) || { echo "$id cannot-apply" >> $OUT; continue; }
        VERIF_EVIDENCE_DIR=/tmp/sw_evidence_$k VERIF_REPO=$WT ./check $P --tier quick > /tmp/sw_$id.log 2>&1
        echo "$id exit=$? violations=$(grep -c VIOLATION /tmp/sw_$id.log)" >> $OUT
      done
    fi
    i=$((i+1))
  done
  git -C /repo worktree remove --force $WT
}
for k in $(seq 0 $((N-1))); do worker $k & done
wait
sort $OUT -o $OUT
echo "done: $(wc -l < $OUT) seeds, $(grep -vc 'exit=1' $OUT) not reported"
grep -v 'exit=1' $OUT
