#!/usr/bin/env python3
"""Writes MANIFEST.json from the table below (kept next to the code so it stays current)."""
import json
import os

ROOT = os.path.dirname(os.path.dirname(os.path.abspath(__file__)))

# id: (category, technique, text, note)
CHECKS = {}
NA = {}


def load():
    import importlib.util
    spec = importlib.util.spec_from_file_location('mtable', os.path.join(ROOT, 'tools', 'manifest_table.py'))
    m = importlib.util.module_from_spec(spec)
    spec.loader.exec_module(m)
    return m.CHECKS, m.NA


def main():
    checks, na = load()
    out = {
        'version': 1,
        'setup_cmd': 'bash setup.sh',
        'hooks': {
            'guard': 'none',
            'enable': 'no hooks: contracts are sidecar files bound to /repo functions by qualified name',
            'baseline_off_cmd': 'cd /repo && /venv/bin/python -m pytest -ra -q -p no:cacheprovider --timeout=900 --continue-on-collection-errors',
            'source_commits': [],
            'add_only': True,
        },
        'engines': [
            {'name': 'pyvc', 'path': 'pyvc/', 'kind_free_text': 'VC generator: symbolic execution of the real function ASTs from /repo with sidecar contracts, discharged by z3 (level P, proved)',
             'serves_properties': sorted(k for k, v in checks.items() if 'pyvc' in v.get('engines', []))},
            {'name': 'elab', 'path': 'elab/', 'kind_free_text': 'bounded stand-in: real code elaborated per structural instance, netlist -> SMT, all data values decided by z3 (level PB); executable contracts (level B)',
             'serves_properties': sorted(k for k, v in checks.items() if 'elab' in v.get('engines', []))},
        ],
        'checks': [],
        'not_applicable': [{'property_id': k, 'reason': v} for k, v in sorted(na.items())],
        'notes': 'See DESIGN.md. Levels: P = proved by pyvc for all widths/values; PB/B = bounded stand-in, never counted as proved.',
    }
    for pid in sorted(checks):
        c = checks[pid]
        out['checks'].append({
            'property_id': pid,
            'quick_cmd': './check %s --tier quick' % pid,
            'thorough_cmd': './check %s --tier thorough' % pid,
            'evidence_file': 'evidence/%s.json' % pid,
            'replay_cmd_template': './check %s --replay {path}' % pid,
            'engine': '+'.join(c.get('engines', ['elab'])),
            'level_claimed': {'category': c['category'], 'text': c['text'], 'design_ref': c.get('ref', 'DESIGN.md section 4')},
            'level_note': c['note'],
            'technique': c['technique'],
        })
    with open(os.path.join(ROOT, 'MANIFEST.json'), 'w') as f:
        json.dump(out, f, indent=1)
    print('wrote MANIFEST.json with', len(out['checks']), 'checks,', len(out['not_applicable']), 'not applicable')


if __name__ == '__main__':
    main()
