#!/bin/bash
# seed_verify.sh <worktree> <mdir (e.g. seed_out/m1)> <seed id> <property>
# Confirms a seeded change in a scratch worktree: applies cleanly, suite result unchanged,
# demo passes without and fails with the change.  On success stores it under /verif/seeded/<id>/.
WT=$1; M=$2; ID=$3; PROP=$4
cd $WT || exit 2
git checkout -q -- pyrtl 2>/dev/null
run_suite() { PYTHONPATH=$WT /venv/bin/python -m pytest -q -p no:cacheprovider --timeout=900 tests 2>&1 | tail -1; }
BASE=$(run_suite)
PYTHONPATH=$WT /venv/bin/python $M/demo.py >/dev/null 2>&1; D0=$?
git apply $M/patch.diff || { echo "PATCH DOES NOT APPLY"; exit 2; }
WITH=$(run_suite)
PYTHONPATH=$WT /venv/bin/python $M/demo.py >/dev/null 2>&1; D1=$?
git checkout -q -- pyrtl
echo "base:  $BASE"; echo "with:  $WITH"; echo "demo unchanged exit=$D0 changed exit=$D1"
B=$(echo "$BASE" | sed 's/, [0-9]* warnings.*//; s/ in .*//'); W=$(echo "$WITH" | sed 's/, [0-9]* warnings.*//; s/ in .*//')
if [ "$B" == "$W" ] && [ $D0 -eq 0 ] && [ $D1 -ne 0 ]; then
  mkdir -p /verif/seeded/$ID
  cp $M/patch.diff /verif/seeded/$ID/patch.diff
  cp $M/demo.py /verif/seeded/$ID/demo.py
  /venv/bin/python - <<PY
import json
m=json.load(open('$M/meta.json'))
out={'property':'$PROP','seed_id':'$ID','description':m.get('description'),'needs_to_manifest':m.get('needs_to_manifest'),
     'files_changed':m.get('files_changed'),
     'confirmed':{'suite_unchanged':'$B','suite_with_change':'$W','demo_exit_unchanged':$D0,'demo_exit_changed':$D1,
                  'how':'tools/seed_verify.sh in a scratch git worktree of /repo (patch applied alone, suite run, demo run, patch reverted)'},
     'origin':'fresh sub-agent given only the property text and a scratch worktree'}
json.dump(out,open('/verif/seeded/$ID/meta.json','w'),indent=1)
PY
  echo "KEPT as /verif/seeded/$ID"
else
  echo "REJECTED"
fi
