TB = 'z3; spec/netsem.py as the reading of the LogicNet docstring; elab/n2smt.py translation; CPython'
CHECKS = {
 'C03': dict(category='other', engines=['elab'],
             technique='contract on synthesize(): bounded stand-in - real synthesize() per design instance, k-cycle + inductive equivalence decided by SMT for all inputs/states; structural postcondition and interface-map contract evaluated on the result',
             text='bounded in structure (design family), complete in data and state per instance; not a proof over all designs',
             note=TB),
 'C04': dict(category='other', engines=['elab'],
             technique='contract on optimize()/constant_propagation()/common_subexp_elimination() and sub-passes: bounded stand-in, SMT equivalence per (design, pass sequence) with the sanctioned constant-register precondition',
             text='bounded in structure, complete in data/state per instance', note=TB),
 'C09': dict(category='other', engines=['elab'],
             technique='contracts on the lowering passes: bounded stand-in, SMT equivalence per (design, pass ordering) plus structural postconditions',
             text='bounded in structure, complete in data/state per instance', note=TB),
 'C11': dict(category='other', engines=['elab'],
             technique='copy_block / non-updating passes: SMT equivalence copy==source per instance (PB) + executable frame contract (fingerprint, identity disjointness, working block) (B)',
             text='bounded; frame conditions checked at run time on the family, not proved statically', note=TB),
}
NA = {pid: 'check not built yet in this round (work in progress)' for pid in
      ['C01', 'C02', 'C05', 'C06', 'C07', 'C08', 'C10', 'C12', 'C13', 'C14', 'C15', 'C16', 'C17', 'C18', 'C19', 'C20']}
