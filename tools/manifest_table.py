TB = 'z3; spec/netsem.py as the reading of the LogicNet docstring; elab/n2smt.py translation; CPython'
CHECKS = {
 'C03': dict(category='other', engines=['elab'],
             technique='contract on synthesize(): bounded stand-in - real synthesize() per design instance, k-cycle + inductive equivalence decided by SMT for all inputs/states; structural postcondition and interface-map contract evaluated on the result',
             text='bounded in structure (design family), complete in data and state per instance; not a proof over all designs',
             note=TB),
 'C04': dict(category='other', engines=['elab'],
             technique='contract on optimize()/constant_propagation()/common_subexp_elimination() and sub-passes: bounded stand-in, SMT equivalence per (design, pass sequence) with the sanctioned constant-register precondition',
             text='bounded in structure, complete in data/state per instance', note=TB),
 'C09': dict(category='other', engines=['elab'],
             technique='contracts on the lowering passes: bounded stand-in, SMT equivalence per (design, pass ordering) plus structural postconditions',
             text='bounded in structure, complete in data/state per instance', note=TB),
 'C11': dict(category='other', engines=['elab'],
             technique='copy_block / non-updating passes: SMT equivalence copy==source per instance (PB) + executable frame contract (fingerprint, identity disjointness, working block) (B)',
             text='bounded; frame conditions checked at run time on the family, not proved statically', note=TB),
}
CHECKS.update({
 'C01': dict(category='proof', engines=['pyvc', 'elab'],
             technique='contracts on the real Simulation functions (simple_func table, _sanitize, bitmask, _execute incl. loop invariants for concat/select, _mem_update, RomBlock._get_read_data) discharged by z3 from VCs generated over the real ASTs; executable-contract cross-check on CPython; bounded whole-simulator runs against the reference cycle semantics',
             text='per-function contracts proved for all widths/values/iteration counts (level P); step/_initialize/__iter__ glue covered by the bounded family (level B), labelled bounded',
             note='pyvc VC generator and its Python-semantics assumptions (DESIGN 3); z3; int theory rewrites (lean/PyInt.lean)'),
 'C02': dict(category='other', engines=['elab'],
             technique='bounded stand-in (level B): FastSimulation / CompiledSimulation executed on the design family incl. limb-crossing widths and synthesized/optimized blocks, compared per cycle and wire with the reference cycle semantics that Simulation is verified against',
             text='bounded runs; no deductive contract on the code generators yet', note='spec/cycle.py; gcc; host CPU'),
 'C06': dict(category='other', engines=['elab'],
             technique='contracts (len, den) on WireVector operators and core helpers: bounded stand-in - real operators elaborated per width combination, exact-result and documented-width postconditions decided by SMT for all operand values',
             text='bounded in widths, complete in values', note=TB),
 'C13': dict(category='other', engines=['elab'],
             technique='contracts on rtllib adders/multipliers: bounded stand-in per width/parameter combination, exactness decided by SMT for all values; BMC of the sequential multipliers from an arbitrary register state',
             text='bounded in widths, complete in values', note=TB),
 'C14': dict(category='other', engines=['elab'],
             technique='contracts on mux/bitfield/pattern/struct helpers: bounded stand-in per shape, decided by SMT for all data values',
             text='bounded in shapes, complete in values', note=TB),
})
NA = {pid: 'check not built yet in this round (work in progress)' for pid in
      ['C05', 'C07', 'C08', 'C10', 'C12', 'C15', 'C16', 'C17', 'C18', 'C19', 'C20']}
