TB = 'z3; spec/netsem.py as the reading of the LogicNet docstring; elab/n2smt.py translation; CPython'
CHECKS = {
 'C03': dict(category='other', engines=['elab'],
             technique='contract on synthesize(): bounded stand-in - real synthesize() per design instance, k-cycle + inductive equivalence decided by SMT for all inputs/states; structural postcondition and interface-map contract evaluated on the result',
             text='bounded in structure (design family), complete in data and state per instance; not a proof over all designs',
             note=TB),
 'C04': dict(category='other', engines=['elab'],
             technique='contract on optimize()/constant_propagation()/common_subexp_elimination() and sub-passes: bounded stand-in, SMT equivalence per (design, pass sequence) with the sanctioned constant-register precondition',
             text='bounded in structure, complete in data/state per instance', note=TB),
 'C09': dict(category='other', engines=['elab'],
             technique='contracts on the lowering passes: bounded stand-in, SMT equivalence per (design, pass ordering) plus structural postconditions',
             text='bounded in structure, complete in data/state per instance', note=TB),
 'C11': dict(category='other', engines=['elab'],
             technique='copy_block / non-updating passes: SMT equivalence copy==source per instance (PB) + executable frame contract (fingerprint, identity disjointness, working block) (B)',
             text='bounded; frame conditions checked at run time on the family, not proved statically', note=TB),
}
CHECKS.update({
 'C01': dict(category='proof', engines=['pyvc', 'elab'],
             technique='contracts on the real Simulation functions (simple_func table, _sanitize, bitmask, _execute incl. loop invariants for concat/select, _mem_update, RomBlock._get_read_data) discharged by z3 from VCs generated over the real ASTs; executable-contract cross-check on CPython; bounded whole-simulator runs against the reference cycle semantics',
             text='per-function contracts proved for all widths/values/iteration counts (level P); step/_initialize/__iter__ glue covered by the bounded family (level B), labelled bounded',
             note='pyvc VC generator and its Python-semantics assumptions (DESIGN 3); z3; int theory rewrites (lean/PyInt.lean)'),
 'C02': dict(category='translation_validation', engines=['elab'],
             technique='bounded stand-in (level B): FastSimulation / CompiledSimulation executed on the design family incl. limb-crossing widths and synthesized/optimized blocks, compared per cycle and wire with the reference cycle semantics that Simulation is verified against',
             text='bounded runs; no deductive contract on the code generators yet', note='spec/cycle.py; gcc; host CPU'),
 'C06': dict(category='other', engines=['elab'],
             technique='contracts (len, den) on WireVector operators and core helpers: bounded stand-in - real operators elaborated per width combination, exact-result and documented-width postconditions decided by SMT for all operand values',
             text='bounded in widths, complete in values', note=TB),
 'C13': dict(category='other', engines=['elab'],
             technique='contracts on rtllib adders/multipliers: bounded stand-in per width/parameter combination, exactness decided by SMT for all values; BMC of the sequential multipliers from an arbitrary register state',
             text='bounded in widths, complete in values', note=TB),
 'C14': dict(category='other', engines=['elab'],
             technique='contracts on mux/bitfield/pattern/struct helpers: bounded stand-in per shape, decided by SMT for all data values',
             text='bounded in shapes, complete in values', note=TB),
})
CHECKS.update({
 'C05': dict(category='translation_validation', engines=['elab'],
             technique='translation validation of output_to_verilog: emitted module parsed and interpreted under Verilog-2001 width rules (spec/vsem.py), one-step equivalence with the netlist semantics decided by SMT for all inputs/states per design and reset mode; static contract clauses (declared widths, reset values, ROM contents, ports); parsed testbench initial state / driven inputs vs runs of the three simulators',
             text='per-design translation validation (bounded in designs, complete in data/state); no proof over all designs',
             note=TB + '; spec/vsem.py reading of IEEE 1364-2001 for the emitted subset; exporter name sanitiser'),
 'C07': dict(category='other', engines=['elab'],
             technique='contract on conditional_assignment: bounded stand-in - every enumerated condition tree elaborated by the real conditional.py, target values / next states decided by SMT against a reference tree interpreter for all predicate and data valuations; non-exclusive programs must be rejected',
             text='bounded in tree size, complete in data', note=TB + '; fam/condtrees.py reference interpreter'),
 'C08': dict(category='proof', engines=['pyvc', 'elab'],
             technique='contracts on Simulation._execute[m], _mem_update, RomBlock._get_read_data discharged by z3 + array lemmas over those contracts; complete (content x operation) space of a 2-word memory walked on all three simulators and post-pass blocks; ROM kinds per simulator',
             text='Simulation memory semantics proved per function (P); other back ends and histories bounded (B)',
             note='pyvc; z3; spec/cycle.py'),
 'C10': dict(category='fault_enumeration', engines=['elab'],
             technique='fault enumeration: every single structural fault of 32 classes injected at every applicable site of API-built designs, offered to sanity_check and the three simulator constructors; unfaulted designs accepted; all tie-break schedules of Block.__iter__ enumerated through a scheduler-controlled set',
             text='fault enumeration over a design family; iteration schedules exhaustive for small blocks', note='CPython; fam/faults.py'),
 'C12': dict(category='other', engines=['elab'],
             technique='contract on input_from_blif / input_from_iscas_bench: generated netlists (all covers <=3 inputs, every supported flip-flop cell, latches, nested subckts, vector ports, ISCAS gates) imported by the real importer and compared with BLIF cover semantics / the Yosys cell-name grammar for every input valuation and flop state',
             text='bounded in structure, exhaustive in data per instance', note='CPython; pyparsing; fam/blifcheck.py references'),
 'C15': dict(category='other', engines=['elab'],
             technique='executable contracts on the observation channels (inspect vs trace, step_multiple vs step, mismatch report, print_trace/print_vcd round trip, rtl_assert timing, illegal input rejection) evaluated on enumerated designs/inputs for the three simulators',
             text='bounded (level B)', note='CPython'),
 'C16': dict(category='proof', engines=['pyvc', 'elab'],
             technique='contracts on _convert_int/_convert_bool/infer_val_and_bitwidth (accept iff representable, encoding, minimal width), val_to_signed_integer, log2, truncate, twos_comp_repr/rev_twos_comp_repr discharged by z3 from VCs over the real ASTs, inverse lemmas over the contracts; plus executable contracts on the conversion helpers evaluated exhaustively within stated bounds (ints x bitwidths x signed, well-formed and all short strings over a 12-symbol alphabet, format round trips, twos-complement helpers, bitpattern_to_val vs the real match_bitpattern circuit), failures grouped by class with canonical first input',
             text='integer helpers proved for all values and bitwidths (P); string helpers bounded exhaustive (B)', note='pyvc; z3; int theory; CPython'),
 'C17': dict(category='other', engines=['elab'],
             technique='executable contracts on TimingAnalysis / paths / fanout against independent graph computations (memoised longest path, all maximal chains, simple-net-path enumeration) with default and custom integer delay tables',
             text='bounded (level B)', note='CPython; fam/timingcheck.py'),
 'C18': dict(category='other', engines=['elab'],
             technique='AES: tables exhaustive vs GF(2^8) arithmetic; every round step elaborated alone and proved equal to FIPS-197 for all 2^128 inputs by SMT; encryption/decryption/_key_gen executed with step methods replaced by their contracts (uninterpreted functions) and compared with the FIPS composition; state machines on vectors. PRNGs: next-state relation of every register proved equal to the published update for all states by SMT; load/req/ready protocol by runs against reference implementations',
             text='structure bounded (fixed 128-bit AES; bitwidth/bits_per_cycle families), data complete by SMT; protocols bounded',
             note=TB + '; spec/fips197.py; fam/prngcheck.py'),
 'C19': dict(category='other', engines=['elab'],
             technique='contracts on rtllib Matrix operations: bounded stand-in per operation x shape x element widths, encoded result decided by SMT for all element values against integer-matrix arithmetic',
             text='bounded in shapes/widths, complete in values', note=TB + '; fam/cases_matrix.py'),
 'C20': dict(category='other', engines=['elab'],
             technique='byte identity of every exported text and of simulation traces across fresh processes with different PYTHONHASHSEED and allocation gaps (adversarial names); fingerprint + simulation before/after every export/visualisation/analysis call',
             text='bounded (level B)', note='CPython'),
})
NA = {}


# ---- as built: proved (pyvc) parts per property, prepended to the technique / text of the check
PV = 'pyvc VC generator and its Python-semantics assumptions (DESIGN 3, 9); z3; int theory lemmas re-checked in lean/PyInt.lean (thorough tier)'
PROVED = {
 'C01': ('Simulation._initialize (symbolic number of wires, 3 loop invariants: register_value_map > reset_value > default_value) and Simulation.step (input validation; phase order with loop invariants over ghost state) are also under contract', None),
 'C05': ('P: translation validation for ALL widths of the per-net Verilog emitters - the assign statement printed by the real loop body of _to_verilog_combinational (executed from the real source on a model net with symbolic widths) is parsed back and read under the IEEE 1364-2001 expression width rules, and equals the documented value of the primitive (w ~ & | ^ + - * < > = x, concat of 1..3 pieces, select shapes) for every operand value, discharged by z3; then ', 'per-net emitters proved for all widths (P); '),
 'C15': ('P: contracts on Simulation.step (input validation: PyrtlError iff a value is outside [0, 2**bitwidth), a non-Input is driven or an Input is missing; the trace receives exactly the final value map), FastSimulation.step (PyrtlError iff a provided value is negative or >= 2**bitwidth, by name or by wire; otherwise the compiled step function and the trace receive exactly the provided values), SimulationTrace.add_step / add_fast_step (any number of traced names, loop invariant over ghost length/content arrays: every list grows by exactly one entry = the value of its wire, earlier entries unchanged, PyrtlError iff nothing is traced), Simulation.inspect, and the lemma over those contracts inspect(n) == trace[n][-1] / len grows by one per step, discharged by z3; then ', 'Simulation observation channel proved (P); other simulators, printers, step_multiple, assertions bounded (B); '),
 'C17': ('P: contract on TimingAnalysis._generate_timing_map with a caller-supplied integer delay table over a symbolic well-formed netlist of any size: sources are timed 0 and every timed net satisfies T[dest] == max(T[arg]) + delay (the longest-path recurrence; loop invariant over ghost netlist functions, `max` of a generator over a symbolic argument list), discharged by z3; then ', 'timing-map recurrence proved for integer tables (P); float default table, critical paths, paths, fanout bounded (B); '),
 'C20': ('P: contracts on the ordering helpers every exporter sorts its emitted lists with - importexport._natural_sort_key and simulation._trace_sort_key (the key determines the name: it is the name or holds it as a component), _name_sorted and _net_sorted (the result is sorted(argument, key=K), K of an item ends with its mapped name; _natural_sort_key applied by contract at the call) and the lemma over them (different names have different keys; the least element under a strict total order is unique, so the ascending arrangement does not depend on the iteration order of the set), discharged by z3; then ',
         'ordering helpers proved tie-free on names (P); every exported text, trace and read-only-ness bounded across processes (B)'),
 'C19': ('P: contract on the real Matrix constructor from a WireVector (and the bits setter it runs), per shape 1x1..3x3, 1x4, 4x1, for ALL element widths, max_bits and values over the builder model: PyrtlError iff bits <= 0 or the clipped width <= 0 or len(value) != width*rows*columns; element (i,j) has the element width and carries (value >> (((rows-1-i)*columns + (columns-1-j))*width)) mod 2**width (row-major, first element most significant); rows/columns/bits/max_bits recorded; and on the bits setter alone (elements of arbitrary widths: PyrtlError iff b <= 0, every element keeps exactly its low min(b, len) bits) and on Matrix.to_wirevector (the inverse layout, shapes up to 2x2 / 1x3) and Matrix.transpose (element (i,j) carries source (j,i)) - slicing, concat and as_wires through their own contracts, discharged by z3; then ',
         'WireVector -> Matrix bit layout proved for all element widths/values per shape (P); every operation bounded in shapes/widths, complete in values (PB)'),
 'C02': ('P: translation validation for ALL widths of the FastSimulation per-op expression templates (real simple_func templates evaluated from source, emitted text parsed back) with the real _no_mask_bitwidth mask-elision rule, discharged by z3; PB: translation validation of every emitted C op of CompiledSimulation at limb-crossing widths (elab/cemit); multi-limb multiply on limb-pattern stimuli; then ',
         'FastSimulation per-op emission proved for all widths/values (P); C emitters per width instance (PB); whole programs bounded (B)'),
 'C03': ('P: contracts on the real gate-level generators _one_bit_add, _add_helper (induction on operand length), _basic_add, _basic_sub, _basic_lt (induction), _basic_gt, _basic_eq, or_all_bits, tree_reduce (induction on the vector length; the higher-order precondition `op is OR on one-bit wires` is discharged at each call site by executing the passed lambda on two arbitrary one-bit wires) over the builder model (wire = (bitwidth, den); add_net = WF obligation + documented value), discharged by z3 for all widths and values; then ',
         'adder / subtractor / comparator generators proved for all widths (P); _basic_mult, synthesize glue and maps bounded per design (PB)'),
 'C04': ('P: contract on the nested function _constant_prop_pass.constant_prop_check (every folding rule computes the documented value of the replaced net, all widths/values) and the CSE symmetry lemma over the real constant ops_where_arg_order_matters, discharged by z3; then ',
         'folding rules and CSE argument-sorting proved (P); pass-level equivalence bounded per design (PB)'),
 'C06': ('P: (len, den) contracts on WireVector._two_var_op (10 ops x wire/int operand), __invert__, __getitem__ (Python index/slice semantics), _extend_with_bit, concat, select over the builder model, discharged by z3 for all widths and values; then ',
         'operator layer proved for all widths/values (P) except the documented a*b length (known finding); helpers / shifts / signed ops bounded per width (PB)'),
 'C07': ('P: contract on conditional._finalize taken from the property statement (for ANY number of branches, under the exclusion precondition, the target == rhs of its unique active branch, else its default; wires, registers with default self, `defaults`, memory write ports incl. enable 0 when no branch is active) with structure-independent loop invariants, discharged by z3; then ',
         'unique-active-branch value proved for all branch counts (P); predicate construction and exclusion check bounded by tree enumeration (PB)'),
 'C08': ('the port builders MemBlock._build_read_port and MemBlock._assignment (one well-formed m / @ net per port: memid = id, geometry, zero-extension, enable default 1, refusals) and MemBlock._make_copy / RomBlock._make_copy are also under contract; ', None),
 'C09': ('P: contracts on every rewrite rule of nand_synth / and_inverter_synth (one-bit wires: new logic computes the documented value using only the target gates; kept ops return truthy), discharged by z3; then ',
         'per-op rewrite rules proved (P); pass-level equivalence and structural postconditions bounded per design (PB)'),
 'C10': ('P: contract Block.sanity_check_net accepts exactly WF_net (DESIGN A.2) - 7465 obligations over (op, arity 0..4, 0..2 destinations, parameter shape) cases with symbolic bitwidths / wire kinds, and contract on Block.__iter__ over a symbolic netlist of any size and every tie-break of its worklist (sets as membership arrays, `pop` = arbitrary member; while-loop + inner-loop invariants): every yielded net has all argument wires produced by earlier yielded nets or sources, and on completion every net was yielded (partial correctness; PyrtlError permitted) - 140 obligations, discharged by z3; then ',
         'per-net rule list proved equivalent to WF_net for all bitwidths (P) within the stated arities; block-level faults and iteration schedules by fault enumeration (B)'),
 'C11': ('P: attribute-preservation contracts on clone_wire, MemBlock._make_copy, RomBlock._make_copy discharged by z3; then ',
         'copy primitives proved attribute-preserving (P); frame and behaviour bounded (PB/B)'),
 'C12': ('P: contract on input_from_blif.extract_flop.flop_next: each of the 32 table entries builds the next-state function its Yosys cell name denotes (all values), discharged by z3; then ',
         'flip-flop table proved (P); covers, hierarchy, vectors, ISCAS bounded (B)'),
 'C13': ('P: contracts on half_adder, _one_bit_add_no_concat, one_bit_add, ripple_half_add, ripple_add (induction on operand length) discharged by z3 for all widths and values; then ',
         'ripple adders proved for all widths (P); prefix / look-ahead / reducer adders and multipliers bounded per width (PB)'),
 'C14': ('P: (len, den) contracts on select, w[i] / w[lo:hi], concat, bitfield_update discharged by z3 for all widths and values; then ',
         'select / slicing / concat / bitfield_update proved (P; bitfield value clause without explicit end); mux family, shifters, patterns, structs bounded per shape (PB)'),
}
for _k, (_t, _x) in PROVED.items():
    c = CHECKS[_k]
    c['technique'] = _t + c['technique']
    if _x:
        c['text'] = _x
    if 'pyvc' not in c['engines']:
        c['engines'] = ['pyvc'] + c['engines']
    if 'pyvc' not in c['note']:
        c['note'] = PV + '; ' + c['note']
