#!/bin/bash
# seed_run.sh <seed id> <Cxx> [more Cxx...]  - apply a kept seeded change to /repo, run the checks, undo.
ID=$1; shift
trap 'cd /repo && git checkout -- . ' EXIT PIPE INT TERM
cd /repo && git apply /verif/seeded/$ID/patch.diff || { echo "cannot apply"; exit 2; }
for P in "$@"; do
  cd /verif && ./check $P --tier quick 2>&1 | grep -v conda | grep -E "VIOLATION|tier=|CRASH|UNDECIDED" | head -6
  echo "  -> $P exit=${PIPESTATUS[0]}"
done
cd /repo && git checkout -- . && git status --short | head -3
