"""Executable contract (level B): a simulator run agrees with the reference cycle semantics
(spec/cycle.RefSim) on every traced wire, every cycle, and on final memory contents.
Pure PyRTL."""
import random


def interesting(w):
    """Boundary values of a w-bit wire, including every 64-bit limb boundary."""
    vs = {0, 1, (1 << w) - 1, (1 << w) - 2, 1 << (w - 1), (1 << (w - 1)) - 1}
    for k in range(64, w + 1, 64):
        vs |= {(1 << k) - 1, 1 << k, (1 << k) + 1, ((1 << w) - 1) ^ ((1 << k) - 1),
               ((1 << w) - 1) ^ 1, ((1 << w) - 1) ^ (1 << (k - 1))}
    return sorted(v for v in vs if 0 <= v < (1 << w))


def _rand_val(rnd, w):
    c = rnd.random()
    if c < 0.45:
        return rnd.choice(interesting(w))
    return rnd.getrandbits(w)


def stimuli(block, seed, nsteps):
    import pyrtl
    rnd = random.Random(seed)
    ins = sorted(block.wirevector_subset(pyrtl.Input), key=lambda w: w.name)
    out = []
    for _ in range(nsteps):
        if out and rnd.random() < 0.35:
            out.append(dict(out[-1]))          # hold every input for another cycle
        else:
            out.append({w.name: _rand_val(rnd, w.bitwidth) for w in ins})
    return out


def init_state(block, seed, use_init):
    """use_init: False/0 none; 1 random; 2 every register explicitly 0 and memories explicit 0s;
    3 every register all-ones"""
    import pyrtl
    rnd = random.Random(seed + 7919)
    regmap, memmap = {}, {}
    if not use_init:
        return regmap, memmap
    mode = int(use_init)
    for r in sorted(block.wirevector_subset(pyrtl.Register), key=lambda w: w.name):
        if mode == 2:
            regmap[r] = 0
        elif mode == 3:
            regmap[r] = (1 << r.bitwidth) - 1
        elif rnd.random() < 0.7:
            regmap[r] = _rand_val(rnd, r.bitwidth)
    mems = {}
    for n in block.logic:
        if n.op in 'm@' and not isinstance(n.op_param[1], pyrtl.RomBlock):
            mems[n.op_param[1].id] = n.op_param[1]
    for mid in sorted(mems):
        m = mems[mid]
        d = {}
        for a in range(min(2 ** m.addrwidth, 16)):
            if mode == 2:
                if a % 2 == 0:
                    d[a] = 0
            elif rnd.random() < 0.5:
                d[a] = _rand_val(rnd, m.bitwidth)
        memmap[m] = d
    return regmap, memmap


def run_case(design, simname='Simulation', seed=0, nsteps=6, use_init=True, default_value=0,
             pre=(), mode=None):
    """-> replay-style dict"""
    import pyrtl
    from fam import designs, passes
    from spec.cycle import RefSim
    block = designs.build(design)
    for p in pre:
        block, _ = passes.get(p)(block)
    regmap, memmap = init_state(block, seed, use_init)
    # without initial state the simulator is built with its OWN defaults for the two maps, and the block is
    # simulated twice by two simulator objects in a row (a second simulation starts from scratch)
    for rep in range(1 if (regmap or memmap) else 2):
        r = _run_once(block, simname, seed + 17 * rep, nsteps, regmap, memmap, default_value,
                      own_defaults=not (regmap or memmap), mode=mode)
        if r['failed']:
            if rep:
                r['observed']['second_simulation_of_the_block'] = True
            return r
    return r


def _run_once(block, simname, seed, nsteps, regmap, memmap, default_value, own_defaults, mode=None):
    """mode 'bools': on every other cycle all inputs are 0 / 1 and handed over as Python False / True (a bool is an
    int); mode 'track_outputs': the tracer follows the Outputs only and every wire of the block is read with
    inspect() on every cycle (untraced wires are simulated all the same)"""
    import pyrtl
    from spec.cycle import RefSim
    steps = stimuli(block, seed, nsteps)
    if mode == 'bools':
        steps = [({k: (t + i) % 2 for i, k in enumerate(sorted(s_, key=str))} if t % 2 == 0 else s_)
                 for t, s_ in enumerate(steps)]
    ref = RefSim(block, regmap, {m: dict(d) for m, d in memmap.items()}, default_value,
                 mem_default=(0 if simname == 'CompiledSimulation' else None))
    tracer = pyrtl.SimulationTrace(wires_to_track='all' if simname == 'Simulation' else None,
                                   block=block)
    if mode == 'track_outputs' and block.wirevector_subset(pyrtl.Output):
        tracer = pyrtl.SimulationTrace(wires_to_track=sorted(block.wirevector_subset(pyrtl.Output), key=lambda w: w.name),
                                       block=block)
    simcls = getattr(pyrtl, simname)
    kw = dict(tracer=tracer, block=block)
    if not own_defaults:
        kw.update(register_value_map=dict(regmap), memory_value_map={m: dict(d) for m, d in memmap.items()})
    if default_value:
        kw['default_value'] = default_value
    sim = simcls(**kw)
    tracked = set(tracer.trace.keys())
    for t, s in enumerate(steps):
        if mode == 'bools':
            sim.step({k: (bool(v) if v in (0, 1) else v) for k, v in s.items()})
        else:
            sim.step(dict(s))
        val = ref.step(s)
        for w, v in val.items():
            if w.name not in tracked:
                if mode == 'track_outputs' and simname == 'Simulation' and not isinstance(w, pyrtl.Const):
                    iv = sim.inspect(w)
                    if iv != v:
                        return dict(failed=True, observed={'cycle': t, 'untraced wire': w.name, 'inspect': iv},
                                    expected={'cycle': t, 'wire': w.name, 'value': v})
                continue
            got = tracer.trace[w.name][t]
            if got != v or not (0 <= got < 2 ** w.bitwidth):
                return dict(failed=True, observed={'cycle': t, 'wire': w.name, 'value': got},
                            expected={'cycle': t, 'wire': w.name, 'value': v})
            if simname != 'CompiledSimulation' or w.name in sim.block.wirevector_by_name:
                try:
                    iv = sim.inspect(w.name)
                except Exception:
                    iv = got
                if iv != got:
                    return dict(failed=True, observed={'cycle': t, 'wire': w.name, 'inspect': iv},
                                expected={'cycle': t, 'wire': w.name, 'trace': got})
    for m in memmap:
        got = dict(sim.inspect_mem(m))
        exp = ref.mems[m.id]
        if simname == 'CompiledSimulation':
            got = {a: v for a, v in got.items() if v != 0}
            exp = {a: v for a, v in exp.items() if v != 0}
        if got != exp:
            return dict(failed=True, observed={'mem': m.name, 'content': got},
                        expected={'mem': m.name, 'content': exp})
    return dict(failed=False, observed='agree', expected='agree', wires=len(tracked),
                cycles=len(steps))


def cnet_replay(op, op_param, argws, dw, vals, simname='CompiledSimulation'):
    """Replayer: a one-net design (hand-made LogicNet between Inputs and an Output) on the real
    simulator, against netsem_int."""
    import pyrtl
    from spec.netsem import netsem_int
    pyrtl.reset_working_block()
    ins = [pyrtl.Input(w, 'i%d' % i) for i, w in enumerate(argws)]
    vals = list(vals)
    if op == '*' and op_param is not None:
        _, ci, cv = op_param                      # that operand is a Const of the given value
        ins[ci] = pyrtl.Const(cv, bitwidth=argws[ci])
        vals[ci] = cv
        op_param = None
    dest = pyrtl.WireVector(dw, 'dest_w')
    net = pyrtl.LogicNet(op, tuple(op_param) if op_param is not None else None, tuple(ins), (dest,))
    pyrtl.working_block().add_net(net)
    o = pyrtl.Output(dw, 'o')
    o <<= dest
    sim = getattr(pyrtl, simname)()
    sim.step({'i%d' % i: v for i, v in enumerate(vals) if isinstance(ins[i], pyrtl.Input)})
    got = sim.inspect('o')
    exp = netsem_int(op, op_param, list(vals), list(argws), dw)
    return dict(failed=(got != exp), observed=got, expected=exp)


def wide_mul_corners(simname='CompiledSimulation', w=128, seed=0):
    """a*b with both operands spanning several 64-bit limbs, on limb patterns that make every
    partial-product carry fire (all-ones, 2**64-2, 2**63 +- 1, ...) plus random values"""
    import itertools
    import random
    import pyrtl
    pyrtl.reset_working_block()
    a, b = pyrtl.Input(w, 'a'), pyrtl.Input(w, 'b')
    o = pyrtl.Output(2 * w, 'o')
    o <<= a * b
    t = pyrtl.Output(w + 3, 'ot')
    t <<= (a * b)[:w + 3]
    rnd = random.Random(seed)
    nl = (w + 63) // 64
    M = (1 << 64) - 1
    pool = [0, 1, M, M - 1, 1 << 63, (1 << 63) + 1, (1 << 63) - 1, 0x8000000000000001, 0xFFFFFFFF00000000,
            rnd.getrandbits(64)]
    vals = set()
    for limbs in itertools.product(pool[:6], repeat=min(nl, 2)):
        v = 0
        for i in range(nl):
            v |= limbs[i % len(limbs)] << (64 * i)
        vals.add(v & ((1 << w) - 1))
    for _ in range(40):
        v = 0
        for i in range(nl):
            v |= rnd.choice(pool) << (64 * i)
        vals.add(v & ((1 << w) - 1))
    vals = sorted(vals)
    pairs = [(x, y) for x in vals[:16] for y in vals[:16]] + \
            [(rnd.choice(vals), rnd.choice(vals)) for _ in range(250)]
    cls = getattr(pyrtl, simname)
    sim = cls()
    n = 0
    for (x, y) in pairs:
        sim.step({'a': x, 'b': y})
        n += 1
        got, gott = sim.inspect('o'), sim.inspect('ot')
        if got != x * y or gott != (x * y) % (1 << (w + 3)):
            return dict(failed=True, observed=dict(a=hex(x), b=hex(y), o=hex(got), ot=hex(gott)),
                        expected=dict(o=hex(x * y)), evaluations=n)
    return dict(failed=False, observed='ok', expected='ok', evaluations=n)


def compiled_run_multi(nsteps=5, seed=0):
    """CompiledSimulation.run() with several steps in one call: traces of inputs and outputs and
    the final state equal those of single stepping and of Simulation"""
    import random
    import pyrtl
    rnd = random.Random(seed)

    def build():
        pyrtl.reset_working_block()
        a = pyrtl.Input(70, 'a')
        b = pyrtl.Input(8, 'b')
        c = pyrtl.Input(8, 'c')
        r = pyrtl.Register(8, 'r')
        r.next <<= (r + b)[:8]
        o = pyrtl.Output(8, 'o')
        o <<= (a[:8] ^ b) + c[:4] + r
        o2 = pyrtl.Output(71, 'o2')
        o2 <<= a + c
        return pyrtl.working_block()
    steps = [dict(a=rnd.getrandbits(70), b=rnd.getrandbits(8), c=rnd.getrandbits(8)) for _ in range(nsteps)]
    blk = build()
    ref = pyrtl.Simulation(tracer=pyrtl.SimulationTrace(block=blk), block=blk)
    for s in steps:
        ref.step(dict(s))
    want = {k: list(v) for k, v in ref.tracer.trace.items()}
    blk = build()
    sim = pyrtl.CompiledSimulation(tracer=pyrtl.SimulationTrace(block=blk), block=blk)
    sim.run([dict(s) for s in steps])
    got = {k: list(v) for k, v in sim.tracer.trace.items()}
    # CompiledSimulation traces Inputs and Outputs (registers only through probes)
    keys = ['a', 'b', 'c', 'o', 'o2']
    bad = {k: (got.get(k), want[k]) for k in keys if got.get(k) != want[k]}
    if bad:
        k = sorted(bad)[0]
        return dict(failed=True, observed={k: [hex(x) for x in (bad[k][0] or [])]},
                    expected={k: [hex(x) for x in bad[k][1]]})
    return dict(failed=False, observed='ok', expected='ok')


def pass_preserves(design, simname='Simulation', pre=('optimize',), seed=0, nsteps=40):
    """the design before and after the passes, same stimuli, same (default) initial state: identical Output traces"""
    import pyrtl
    from fam import designs, passes
    block = designs.build(design)
    steps = stimuli(block, seed, nsteps)
    outs = sorted(w.name for w in block.wirevector_subset(pyrtl.Output))
    sim = getattr(pyrtl, simname)(tracer=pyrtl.SimulationTrace(block=block), block=block)
    for s_ in steps:
        sim.step(dict(s_))
    ref = {n: list(sim.tracer.trace[n]) for n in outs}
    block2 = designs.build(design)
    for p_ in pre:
        block2, _ = passes.get(p_)(block2)
    ins2 = set(w.name for w in block2.wirevector_subset(pyrtl.Input))
    sim2 = getattr(pyrtl, simname)(tracer=pyrtl.SimulationTrace(block=block2), block=block2)
    for s_ in steps:
        sim2.step({k: v for k, v in s_.items() if k in ins2})
    got = {n: list(sim2.tracer.trace[n]) for n in outs}
    for n in outs:
        if got[n] != ref[n]:
            t = [i for i, (x, y) in enumerate(zip(got[n], ref[n])) if x != y][0]
            return dict(failed=True, observed=dict(output=n, cycle=t, after_passes=got[n][t]), expected=ref[n][t])
    return dict(failed=False, observed='ok', expected='ok')
