"""C12 executable contracts: imported BLIF / ISCAS netlists compute the function the file defines.
Structure (covers, flop flavours, nesting) is enumerated; data (all input values, all flop
states) is exhaustive per instance.  Pure PyRTL + the reference semantics below
(spec: BLIF single-output covers with don't-cares; Yosys flip-flop naming grammar)."""
import io
import itertools
import contextlib
import re


def cover_eval(rows, vals):
    """rows: list of (input plane string over 0/1/-, output char).  ON-set cover if the output
    column is '1', OFF-set cover if '0' (BLIF: all rows share the same output value)."""
    if not rows:
        return 0
    outv = rows[0][1]
    hit = any(all(c == '-' or int(c) == v for c, v in zip(plane, vals)) for plane, _ in rows)
    return int(hit) if outv == '1' else int(not hit)


def yosys_next(name, d, e, s, r, q):
    """Next state from the cell NAME alone (Yosys internal cell library naming):
    $_DFF_P_, $_DFFE_P[NP]_, $_DFF_P[NP][01]_ (async reset, seen at clock edges),
    $_DFFE_P[NP][01][NP]_, $_DFFSR_PPP, $_DFFSRE_PPP[NP]_, $_SDFF_P[NP][01]_ (sync reset),
    $_SDFFE_P[NP][01][NP]_ (reset over enable), $_SDFFCE_P[NP][01][NP]_ (enable over reset)."""
    body = name.strip('$_')
    kind, pol = body.split('_', 1)
    pol = pol.strip('_')

    def act(v, p):
        return (v == 1) if p == 'P' else (v == 0)
    if kind == 'SDFFCE':
        c, rp, rv, ep = pol
        if not act(e, ep):
            return q
        return int(rv) if act(r, rp) else d
    if kind == 'SDFFE':
        c, rp, rv, ep = pol
        if act(r, rp):
            return int(rv)
        return d if act(e, ep) else q
    if kind == 'SDFF':
        c, rp, rv = pol
        return int(rv) if act(r, rp) else d
    if kind == 'DFFSRE':
        c, sp, rp, ep = pol
        if act(r, rp):
            return 0
        if act(s, sp):
            return 1
        return d if act(e, ep) else q
    if kind == 'DFFSR':
        c, sp, rp = pol
        if act(r, rp):
            return 0
        if act(s, sp):
            return 1
        return d
    if kind == 'DFFE':
        if len(pol) == 2:
            c, ep = pol
            return d if act(e, ep) else q
        c, rp, rv, ep = pol
        if act(r, rp):
            return int(rv)
        return d if act(e, ep) else q
    if kind == 'DFF':
        if len(pol) == 1:
            return d
        c, rp, rv = pol
        return int(rv) if act(r, rp) else d
    raise KeyError(name)


def flop_names():
    """The cell names the importer claims to support, read from the importer's grammar."""
    import os
    import pyrtl
    src = open(os.path.join(os.path.dirname(pyrtl.__file__), 'importexport.py')).read()
    names = re.findall(r"'(\$_[A-Z]+_[A-Z0-9]+_?)'", src.split('dff_names = [')[1].split(']')[0])
    return names


def _import_blif(text, merge=True):
    import pyrtl
    pyrtl.reset_working_block()
    with contextlib.redirect_stdout(io.StringIO()):
        pyrtl.input_from_blif(text, merge_io_vectors=merge)
    return pyrtl.working_block()


def check_cover(nin, rows):
    import pyrtl
    ins = ['i%d' % j for j in range(nin)]
    body = '\n'.join('%s %s' % (p, o) if nin else o for p, o in rows)
    blif = ".model top\n.inputs %s\n.outputs o\n.names %s o\n%s\n.end\n" % (' '.join(ins), ' '.join(ins), body)
    try:
        _import_blif(blif)
    except Exception as e:
        return dict(failed=True, observed='%s: %s' % (type(e).__name__, str(e)[:100]),
                    expected='imports', blif=blif)
    sim = pyrtl.Simulation()
    for vals in itertools.product([0, 1], repeat=nin):
        sim.step({'i%d' % j: v for j, v in enumerate(vals)})
        exp = cover_eval(rows, vals)
        if sim.inspect('o') != exp:
            return dict(failed=True, observed=dict(inputs=vals, o=sim.inspect('o')), expected=exp,
                        blif=blif)
    return dict(failed=False, observed='ok', expected='ok')


def check_offset_refused(nin, rows):
    """OFF-set covers are outside the supported subset: the importer must refuse them with
    PyrtlError rather than import something else."""
    import pyrtl
    ins = ['i%d' % j for j in range(nin)]
    body = '\n'.join('%s %s' % (p, o) for p, o in rows)
    blif = ".model top\n.inputs %s\n.outputs o\n.names %s o\n%s\n.end\n" % (' '.join(ins), ' '.join(ins), body)
    try:
        _import_blif(blif)
    except pyrtl.PyrtlError:
        return dict(failed=False, observed='refused', expected='refused')
    except Exception as e:
        return dict(failed=True, observed='%s: %s' % (type(e).__name__, str(e)[:100]), expected='PyrtlError')
    # accepted: then it has to mean the OFF-set cover
    sim = pyrtl.Simulation()
    for vals in itertools.product([0, 1], repeat=nin):
        sim.step({'i%d' % j: v for j, v in enumerate(vals)})
        if sim.inspect('o') != cover_eval(rows, vals):
            return dict(failed=True, observed=dict(inputs=vals, o=sim.inspect('o')),
                        expected=cover_eval(rows, vals))
    return dict(failed=False, observed='accepted and correct', expected='-')


def check_flop(name):
    """one cell instance; every (state, d, e, s, r) combination, one step each"""
    import pyrtl
    kind = name.strip('$_').split('_')[0]
    pol = name.strip('$_').split('_', 1)[1].strip('_')
    has_e = kind in ('DFFE', 'SDFFE', 'SDFFCE', 'DFFSRE')
    has_s = kind in ('DFFSR', 'DFFSRE')
    has_r = has_s or kind in ('SDFF', 'SDFFE', 'SDFFCE') or (kind == 'DFF' and len(pol) == 3) \
        or (kind == 'DFFE' and len(pol) == 4)
    formal = 'C=clk D=d ' + ('E=e ' if has_e else '') + 'Q=q ' + ('S=s ' if has_s else '') + \
        ('R=r' if has_r else '')
    ins = 'clk d' + (' e' if has_e else '') + (' s' if has_s else '') + (' r' if has_r else '')
    blif = ".model top\n.inputs %s\n.outputs q\n.subckt %s %s\n.end\n" % (ins, name, formal)
    try:
        block = _import_blif(blif)
    except Exception as e:
        return dict(failed=True, observed='%s: %s' % (type(e).__name__, str(e)[:100]),
                    expected='imports', blif=blif)
    regs = list(block.wirevector_subset(pyrtl.Register))
    if len(regs) != 1:
        return dict(failed=True, observed='%d registers' % len(regs), expected='1 register', blif=blif)
    # the file gives a .subckt flop no initial value: it starts at the simulator's default
    for dv in (0, 1):
        sim = pyrtl.Simulation(default_value=dv, block=block)
        inp = {'d': 1 - dv}
        if has_e:
            inp['e'] = 0 if pol[-1] == 'P' else 1      # enable inactive
        if has_s:
            inp['s'] = 0
        if has_r:
            inp['r'] = 0 if pol[1 if not has_s else 2] == 'P' else 1      # reset inactive
        sim.step(inp)
        if sim.inspect('q') != dv:
            return dict(failed=True, observed=dict(initial_q=sim.inspect('q'), default_value=dv),
                        expected=dict(initial_q=dv), blif=blif)
    for q0 in (0, 1):
        for (d, e, s, r) in itertools.product([0, 1], repeat=4):
            sim = pyrtl.Simulation(register_value_map={regs[0]: q0}, block=block)
            inp = {'d': d}
            if has_e:
                inp['e'] = e
            if has_s:
                inp['s'] = s
            if has_r:
                inp['r'] = r
            sim.step(inp)
            if sim.inspect('q') != q0:
                return dict(failed=True, observed=dict(q_now=sim.inspect('q')), expected=q0, blif=blif)
            sim.step(inp)
            exp = yosys_next(name, d, e, s, r, q0)
            if sim.inspect('q') != exp:
                return dict(failed=True, observed=dict(state=q0, d=d, e=e, s=s, r=r, q_next=sim.inspect('q')),
                            expected=exp, blif=blif)
    return dict(failed=False, observed='ok', expected='ok')


MISC_BLIF = """.model top
.inputs clk a[0] a[1] b
.outputs o[0] o[1] q0 q1 q2 q3 z one fb sub_o
.names z
.names one
1
.names a[0] b o[0]
11 1
.names a[1] o[0] o[1]
1- 1
-1 1
.latch a[0] q0 re clk 0
.latch a[0] q1 re clk 1
.latch a[0] q2 re clk 2
.latch a[0] q3 re clk 3
.names o[1] q0 fb
10 1
01 1
.subckt inner x=a[1] y=fb w=sub_o
.end

.model inner
.inputs x y
.outputs w
.subckt leaf p=x q=y r=t
.names t x w
0- 1
-0 1
.end

.model leaf
.inputs p q
.outputs r
.names p q r
11 1
.end
"""


def check_misc(merge=True, steps=24, seed=0):
    """constants, internal use of outputs, latch init codes, vector ports (merged or not), nested
    .subckt two levels - against a hand evaluation of the BLIF semantics"""
    import random
    import pyrtl
    rnd = random.Random(seed)
    try:
        _import_blif(MISC_BLIF, merge)
    except Exception as e:
        return dict(failed=True, observed='%s: %s' % (type(e).__name__, str(e)[:100]), expected='imports')
    sim = pyrtl.Simulation()
    prev = None
    for t in range(steps):
        a0, a1, b = rnd.randint(0, 1), rnd.randint(0, 1), rnd.randint(0, 1)
        inp = {'a': a0 | (a1 << 1), 'b': b} if merge else {'a[0]': a0, 'a[1]': a1, 'b': b}
        sim.step(inp)
        o0 = a0 & b
        o1 = a1 | o0
        qs = [0, 1, 0, 0] if prev is None else [prev] * 4
        fb = o1 ^ qs[0]
        leaf = a1 & fb
        sub = 1 - (leaf & a1)          # rows '0-' and '-0': NOT (t AND x)
        exp = dict(o0=o0, o1=o1, q=qs, z=0, one=1, fb=fb, sub_o=sub)
        if merge:
            o = sim.inspect('o')
            got_o0, got_o1 = o & 1, o >> 1
        else:
            got_o0, got_o1 = sim.inspect('o[0]'), sim.inspect('o[1]')
        got = dict(o0=got_o0, o1=got_o1, q=[sim.inspect('q%d' % i) for i in range(4)],
                   z=sim.inspect('z'), one=sim.inspect('one'), fb=sim.inspect('fb'),
                   sub_o=sim.inspect('sub_o'))
        if got != exp:
            return dict(failed=True, observed=dict(cycle=t, **got), expected=exp)
        prev = a0
    return dict(failed=False, observed='ok', expected='ok')


BENCH_GATES = {'AND': lambda xs: int(all(xs)), 'OR': lambda xs: int(any(xs)),
               'NAND': lambda xs: int(not all(xs)), 'NOR': lambda xs: int(not any(xs)),
               'XOR': lambda xs: sum(xs) % 2, 'NOT': lambda xs: 1 - xs[0], 'BUFF': lambda xs: xs[0]}


def check_bench(gate, nin, operands=None):
    """one ISCAS gate with nin inputs, all input values; plus a DFF on the output.  `operands` lists,
    per operand position, which input it names (a signal may appear in several positions)"""
    import pyrtl
    ins = ['G%d' % i for i in range(nin)]
    ops = list(range(nin)) if operands is None else list(operands)
    text = ''.join('INPUT(%s)\n' % i for i in ins) + 'OUTPUT(O)\nOUTPUT(Q)\n' + \
        'O = %s(%s)\nQ = DFF(O)\n' % (gate, ', '.join(ins[i] for i in ops))
    pyrtl.reset_working_block()
    try:
        with contextlib.redirect_stdout(io.StringIO()):
            pyrtl.input_from_iscas_bench(text)
    except Exception as e:
        return dict(failed=True, observed='%s: %s' % (type(e).__name__, str(e)[:100]),
                    expected='imports', bench=text)
    sim = pyrtl.Simulation()
    prev = 0
    for vals in itertools.product([0, 1], repeat=nin):
        sim.step(dict(zip(ins, vals)))
        exp = BENCH_GATES[gate]([vals[i] for i in ops])
        if sim.inspect('O') != exp or sim.inspect('Q') != prev:
            return dict(failed=True, observed=dict(inputs=vals, O=sim.inspect('O'), Q=sim.inspect('Q')),
                        expected=dict(O=exp, Q=prev), bench=text)
        prev = exp
    return dict(failed=False, observed='ok', expected='ok')


def check_bench_order(order=0):
    """a small sequential ISCAS circuit (two DFFs, one of them driving a primary OUTPUT, a gate reading a DFF
    output, a DFF reading a DFF) with its statements in different orders - .bench files are netlists, the
    order of the lines carries no meaning"""
    import pyrtl
    import random
    lines = ['Q1 = DFF(G0)', 'Q2 = DFF(N1)', 'N1 = AND(Q1, G1)', 'Y = OR(Q2, Q1)', 'Q3 = DFF(Q2)', 'Z = NOT(Q3)']
    if order == 1:
        lines = lines[::-1]
    elif order >= 2:
        random.Random(order).shuffle(lines)
    text = 'INPUT(G0)\nINPUT(G1)\nOUTPUT(Y)\nOUTPUT(Z)\nOUTPUT(Q2)\n' + '\n'.join(lines) + '\n'
    pyrtl.reset_working_block()
    try:
        with contextlib.redirect_stdout(io.StringIO()):
            pyrtl.input_from_iscas_bench(text)
    except Exception as e:
        return dict(failed=True, observed='%s: %s' % (type(e).__name__, str(e)[:100]),
                    expected='imports', bench=text)
    sim = pyrtl.Simulation()
    q1 = q2 = q3 = 0
    rnd = random.Random(7)
    for t in range(12):
        g0, g1 = rnd.getrandbits(1), rnd.getrandbits(1)
        sim.step({'G0': g0, 'G1': g1})
        exp = dict(Y=q2 | q1, Z=1 - q3, Q2=q2)
        got = {k: sim.inspect(k) for k in exp}
        if got != exp:
            return dict(failed=True, observed=dict(cycle=t, **got), expected=exp, bench=text)
        q1, q2, q3 = g0, q1 & g1, q2
    return dict(failed=False, observed='ok', expected='ok')


def check_blif_order(order=0, merge=True):
    """the same sequential circuit as check_bench_order in BLIF (latches with initial values 1 / 0 / 2 / none,
    a latch reading a latch, a latch driving a primary output), its commands in different orders"""
    import pyrtl
    import random
    blocks = ['.latch g0 q1 re clk 1', '.latch n1 q2 re clk 0', '.names q1 g1 n1\n11 1',
              '.names q2 q1 y\n1- 1\n-1 1', '.latch q2 q3 re clk 2', '.names q3 z\n0 1', '.latch q3 q4 re clk',
              '.names q4 v\n1 1']
    if order == 1:
        blocks = blocks[::-1]
    elif order >= 2:
        random.Random(order).shuffle(blocks)
    blif = '.model top\n.inputs clk g0 g1\n.outputs y z q2 v\n' + '\n'.join(blocks) + '\n.end\n'
    try:
        _import_blif(blif, merge)
    except Exception as e:
        return dict(failed=True, observed='%s: %s' % (type(e).__name__, str(e)[:100]), expected='imports', blif=blif)
    sim = pyrtl.Simulation()
    q1, q2, q3, q4 = 1, 0, 0, 0
    rnd = random.Random(11)
    for t in range(12):
        g0, g1 = rnd.getrandbits(1), rnd.getrandbits(1)
        sim.step({'g0': g0, 'g1': g1})
        exp = dict(y=q2 | q1, z=1 - q3, q2=q2, v=q4)
        got = {k: sim.inspect(k) for k in exp}
        if got != exp:
            return dict(failed=True, observed=dict(cycle=t, **got), expected=exp, blif=blif)
        q1, q2, q3, q4 = g0, q1 & g1, q2, q3
    return dict(failed=False, observed='ok', expected='ok')


def check_wide_vector(n=12, merge=True, order='asc'):
    """bit-indexed vector ports wider than 10 bits (index order is numeric, not lexicographic);
    the bits may be declared in any order on the .inputs / .outputs lines"""
    import pyrtl
    import random
    idx_i, idx_o = list(range(n)), list(range(n))
    if order == 'desc':
        idx_i.reverse()
        idx_o.reverse()
    elif order == 'shuffled':
        random.Random(n).shuffle(idx_i)
        random.Random(n + 1).shuffle(idx_o)
    ins = ' '.join('a[%d]' % i for i in idx_i)
    outs = ' '.join('o[%d]' % i for i in idx_o)
    body = ''.join('.names a[%d] o[%d]\n1 1\n' % (i, (i + 1) % n) for i in range(n))
    blif = ".model top\n.inputs %s\n.outputs %s\n%s.end\n" % (ins, outs, body)
    try:
        _import_blif(blif, merge)
    except Exception as e:
        return dict(failed=True, observed='%s: %s' % (type(e).__name__, str(e)[:100]), expected='imports')
    sim = pyrtl.Simulation()
    for v in [1 << i for i in range(n)] + [0, (1 << n) - 1, 0x2, 0xabc % (1 << n)]:
        if merge:
            sim.step({'a': v})
            got = sim.inspect('o')
        else:
            sim.step({'a[%d]' % i: (v >> i) & 1 for i in range(n)})
            got = sum(sim.inspect('o[%d]' % i) << i for i in range(n))
        exp = ((v << 1) | (v >> (n - 1))) & ((1 << n) - 1)
        if got != exp:
            return dict(failed=True, observed=dict(a=hex(v), o=hex(got)), expected=hex(exp))
    return dict(failed=False, observed='ok', expected='ok')


HIER_BLIF = """.model top
.inputs a b c d
.outputs y0 y1 y2 y3
.subckt cell x=a y=b o=y0
.subckt cell x=c y=d o=y1
.subckt cell2 x=b y=c o=y2
.subckt cell x=d y=a o=y3
.end

.model cell
.inputs x y
.outputs o
.names x y t
10 1
.names t y x o
1-0 1
-01 1
.end

.model cell2
.inputs x y
.outputs o
.names x y t
01 1
.names t x o
10 1
00 1
.end
"""


def check_hier(merge=True):
    """one model instantiated several times on different nets and two models sharing local net
    names, with covers containing complemented literals: every input vector"""
    import pyrtl
    try:
        _import_blif(HIER_BLIF, merge)
    except Exception as e:
        return dict(failed=True, observed='%s: %s' % (type(e).__name__, str(e)[:100]), expected='imports')

    def cell(x, y):
        t = int(x == 1 and y == 0)
        return int((t == 1 and x == 0) or (y == 0 and x == 1))

    def cell2(x, y):
        t = int(x == 0 and y == 1)
        return int((t == 1 and x == 0) or (t == 0 and x == 0))
    sim = pyrtl.Simulation()
    for a, b, c, d in itertools.product([0, 1], repeat=4):
        sim.step(dict(a=a, b=b, c=c, d=d))
        exp = dict(y0=cell(a, b), y1=cell(c, d), y2=cell2(b, c), y3=cell(d, a))
        got = {k: sim.inspect(k) for k in exp}
        if got != exp:
            return dict(failed=True, observed=dict(inputs=(a, b, c, d), **got), expected=exp)
    return dict(failed=False, observed='ok', expected='ok')


SEQ_HIER_BLIF = """.model wrap
.inputs clk a b
.outputs q r m
.subckt dual rclk=clk wclk=clk d=a e=b q=q r=r
.subckt maj x=a y=b z=q o=m
.end

.model dual
.inputs rclk wclk d e
.outputs q r
.latch d q re wclk 1
.latch e r re rclk 0
.end

.model maj
.inputs x y z
.outputs o
.names x y z o
11- 1
1-1 1
-11 1
.end
"""


def check_seq_hier(merge=True, variant='dual_clock'):
    """hierarchies with sequential sub-models: a sub-model with TWO clock ports tied to one parent clock;
    a file whose first model (the top, by BLIF's rule and PyRTL's documentation) is also used as a
    sub-circuit by a model listed later (import without top_model must still take the first model)"""
    import pyrtl
    if variant == 'dual_clock':
        blif = SEQ_HIER_BLIF
    elif variant.startswith('local_clock_name'):
        # names are local to a model: the sub-model calls its clock port `c`; the top model has an unrelated DATA
        # input `c` that is buffered to an output (instantiation before / after the buffer; latch or Yosys cell)
        _, order, style = variant.split(':')
        sub = (".model dreg\n.inputs c d\n.outputs q\n" +
               (".latch d q re c 0\n" if style == 'latch' else ".subckt $_DFF_P_ C=c D=d Q=q\n") + ".end\n")
        buf, inst = ".names c cout\n1 1\n", ".subckt dreg c=clk d=n q=q\n"
        blif = (".model top\n.inputs clk a c\n.outputs q cout\n.names a c n\n10 1\n01 1\n" +
                (buf + inst if order == 'buffer_first' else inst + buf) + ".end\n\n" + sub)
    else:
        # first model: a majority cell; later model: a registered wrapper instantiating it
        blif = (".model maj\n.inputs x y z\n.outputs o\n.names x y z o\n11- 1\n1-1 1\n-11 1\n.end\n\n"
                ".model wrapper\n.inputs clk x y z\n.outputs o\n.subckt maj x=x y=y z=z o=t\n"
                ".latch t o re clk 1\n.end\n")
    try:
        _import_blif(blif, merge)
    except Exception as e:
        return dict(failed=True, observed='%s: %s' % (type(e).__name__, str(e)[:100]), expected='imports', blif=blif)
    sim = pyrtl.Simulation()
    import random
    rnd = random.Random(5)
    if variant == 'dual_clock':
        q, r = 1, 0
        for t in range(10):
            a, b = rnd.getrandbits(1), rnd.getrandbits(1)
            sim.step(dict(a=a, b=b))
            exp = dict(q=q, r=r, m=int(a + b + q >= 2))
            got = {k: sim.inspect(k) for k in exp}
            if got != exp:
                return dict(failed=True, observed=dict(cycle=t, **got), expected=exp, blif=blif)
            q, r = a, b
    elif variant.startswith('local_clock_name'):
        q = 0
        for t in range(12):
            a, c = rnd.getrandbits(1), rnd.getrandbits(1)
            try:
                sim.step(dict(a=a, c=c))
            except Exception as e:
                return dict(failed=True, observed='%s: %s' % (type(e).__name__, str(e)[:100]), expected='steps', blif=blif)
            exp = dict(q=q, cout=c)
            got = {k: sim.inspect(k) for k in exp}
            if got != exp:
                return dict(failed=True, observed=dict(cycle=t, **got), expected=exp, blif=blif)
            q = a ^ c
    else:
        for x, y, z in itertools.product([0, 1], repeat=3):
            try:
                sim.step(dict(x=x, y=y, z=z))
            except Exception as e:
                return dict(failed=True, observed='%s: %s' % (type(e).__name__, str(e)[:100]),
                            expected='the first model (combinational majority) is the design', blif=blif)
            exp = int(x + y + z >= 2)
            if sim.inspect('o') != exp:
                return dict(failed=True, observed=dict(inputs=(x, y, z), o=sim.inspect('o')), expected=exp, blif=blif)
    return dict(failed=False, observed='ok', expected='ok')


def check_import_history(merge=True):
    """several imports in one process: a netlist imported with another clock name / with a buffered clock, then an
    unrelated netlist whose ordinary data inputs carry those names - nothing may be remembered from an earlier import"""
    import pyrtl
    first = (".model a\n.inputs strobe d\n.outputs q t\n.names strobe tick\n1 1\n.latch d q re strobe 0\n"
             ".names d t\n0 1\n.end\n")
    pyrtl.reset_working_block()
    try:
        with contextlib.redirect_stdout(io.StringIO()):
            pyrtl.input_from_blif(first, merge_io_vectors=merge, clock_name='strobe')
    except Exception as e:
        return dict(failed=True, observed='first import: %s: %s' % (type(e).__name__, str(e)[:100]), expected='imports')
    second = (".model b\n.inputs clk strobe tick x\n.outputs y z\n.latch x r re clk 1\n"
              ".names strobe tick r y\n1-1 1\n-11 1\n.names strobe x z\n10 1\n01 1\n.end\n")
    try:
        _import_blif(second, merge)
        sim = pyrtl.Simulation()
    except Exception as e:
        return dict(failed=True, observed='second import: %s: %s' % (type(e).__name__, str(e)[:120]),
                    expected='imports: strobe and tick are ordinary inputs of this netlist')
    r = 1
    for strobe, tick, x in itertools.product([0, 1], repeat=3):
        try:
            sim.step(dict(strobe=strobe, tick=tick, x=x))
        except Exception as e:
            return dict(failed=True, observed='%s: %s' % (type(e).__name__, str(e)[:120]), expected='simulates')
        exp = dict(y=int((strobe or tick) and r), z=strobe ^ x)
        got = {k: sim.inspect(k) for k in exp}
        if got != exp:
            return dict(failed=True, observed=dict(inputs=(strobe, tick, x), **got), expected=exp)
        r = x
    return dict(failed=False, observed='ok', expected='ok')
