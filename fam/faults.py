"""C10: single structural faults injected into API-built designs (fault enumeration), and
exhaustive tie-break schedules of Block.__iter__.  Pure PyRTL."""
import itertools


def has(seq, w):
    return any(x is w for x in seq)


def sorted_nets(block):
    return sorted(block.logic, key=lambda n: (n.op, [a.name for a in n.args], [d.name for d in n.dests]))


def fault_sites(block):
    """-> list of (kind, index) applicable to this block"""
    import pyrtl
    nets = sorted_nets(block)
    out = []
    wires = sorted(block.wirevector_set, key=lambda w: w.name)
    for i, n in enumerate(nets):
        if n.dests and not isinstance(n.dests[0], (pyrtl.Register,)) and n.op not in 'r@':
            out.append(('two_drivers', i))
        if n.dests and any(has(m.args, n.dests[0]) for m in nets):
            out.append(('undriven', i))
        if n.op in '&|^n+-*<>=' and len(n.args) == 2:
            out.append(('arity_drop', i))
            out.append(('arg_width', i))
        if n.op in 'w~' and n.dests[0].bitwidth >= 1:
            out.append(('dest_too_wide', i))
        if n.op in '<>=':
            out.append(('cmp_dest_width', i))
        if n.op == 'x':
            out.append(('mux_sel_width', i))
            out.append(('mux_arg_mismatch', i))
        if n.op == 's':
            out.append(('sel_param_oob', i))
            out.append(('sel_param_type', i))
            out.append(('sel_param_none', i))
        if n.op == 'c':
            out.append(('concat_dest_wide', i))
        if n.op in 'w~&|^n+-*<>=xc':
            out.append(('param_not_none', i))
            for j in range(4):
                out.append(('param_falsy%d' % j, i))
        if n.op in 'm@':
            out.append(('mem_param_none', i))
            out.append(('mem_param_short', i))
            out.append(('mem_param_types', i))
            out.append(('mem_addr_width', i))
            out.append(('memid_mismatch', i))
        if n.op == 'm':
            out.append(('mem_dest_width', i))
        if n.op == '@':
            out.append(('mem_write_dest', i))
            out.append(('mem_enable_width', i))
        if n.op == 'r':
            out.append(('reg_dest_not_register', i))
            out.append(('reg_two_drivers', i))         # a second 'r' net into the same register
            out.append(('reg_two_drivers_mixed', i))   # a 'w' net into a register that has its 'r' net
        if n.op not in 'r@' and n.args:
            out.append(('input_as_dest', i))
            out.append(('const_as_dest', i))
            out.append(('foreign_wire', i))
            out.append(('foreign_dest', i))
            out.append(('bad_op', i))
        if n.op not in '@' and any(isinstance(w, pyrtl.Output) for w in wires):
            out.append(('output_as_arg', i))
        if n.op in 'w~&|^n+-*cs' and n.args and not isinstance(n.args[0], (pyrtl.Input, pyrtl.Const,
                                                                          pyrtl.Register)):
            out.append(('comb_loop', i))
    out.append(('unconnected_wire', 0))
    if len(wires) >= 2:
        out.append(('duplicate_name', 0))
        # duplicates created through the public name setter (by-name map stays self-consistent),
        # for every pair of name classes: user / auto-generated tmp / auto-generated const
        for k in range(6):
            out.append(('duplicate_name_setter', k))
    out.append(('no_bitwidth_wire', 0))
    out.append(('byname_inconsistent', 0))
    # faults that change only ATTRIBUTES of existing wires (the sets of nets and wires stay the same)
    for k in range(3):
        out.append(('attr_bitwidth', k))
    return out


def apply_fault(block, kind, idx):
    """Mutates the block in place (bypassing the construction API).  Returns False when the
    fault cannot be formed at this site after all."""
    import pyrtl
    from pyrtl import LogicNet
    nets = sorted_nets(block)
    n = nets[idx] if nets and idx < len(nets) else (nets[0] if nets else None)

    def fresh(bw, cls=pyrtl.WireVector, name=None):
        return cls(bw, name or '', block=block) if cls is not pyrtl.Const else None

    def replace(new):
        block.logic.remove(n)
        block.logic.add(new)
    if kind in ('reg_two_drivers', 'reg_two_drivers_mixed'):
        src = fresh(n.dests[0].bitwidth, pyrtl.Input, 'flt_in')
        block.logic.add(LogicNet('r' if kind == 'reg_two_drivers' else 'w', None, (src,), n.dests))
    elif kind == 'attr_bitwidth':
        # widen one operand wire of a width-constrained net in place
        cands = [m for m in nets if m.op in '&|^+-<>=' and len(m.args) == 2 and m.args[0] is not m.args[1]]
        if len(cands) <= idx:
            return False
        w = cands[idx].args[idx % 2]
        w.bitwidth = w.bitwidth + 1
        if '_bitmask' in w.__dict__:
            del w.__dict__['_bitmask']
    elif kind == 'two_drivers':
        src = fresh(n.dests[0].bitwidth, pyrtl.Input, 'flt_in')
        block.logic.add(LogicNet('w', None, (src,), n.dests))
    elif kind == 'undriven':
        block.logic.remove(n)
    elif kind == 'arity_drop':
        replace(LogicNet(n.op, n.op_param, n.args[:1], n.dests))
    elif kind == 'arg_width':
        a = fresh(n.args[1].bitwidth + 1, pyrtl.Input, 'flt_in')
        replace(LogicNet(n.op, n.op_param, (n.args[0], a), n.dests))
    elif kind == 'dest_too_wide':
        d = fresh(n.args[0].bitwidth + 1, pyrtl.Output, 'flt_out')
        block.logic.add(LogicNet(n.op, None, n.args, (d,)))
    elif kind == 'cmp_dest_width':
        d = fresh(2, pyrtl.Output, 'flt_out')
        block.logic.add(LogicNet(n.op, None, n.args, (d,)))
    elif kind == 'mux_sel_width':
        s = fresh(2, pyrtl.Input, 'flt_in')
        replace(LogicNet('x', None, (s,) + n.args[1:], n.dests))
    elif kind == 'mux_arg_mismatch':
        a = fresh(n.args[2].bitwidth + 1, pyrtl.Input, 'flt_in')
        replace(LogicNet('x', None, (n.args[0], n.args[1], a), n.dests))
    elif kind == 'sel_param_oob':
        replace(LogicNet('s', n.op_param[:-1] + (n.args[0].bitwidth,), n.args, n.dests))
    elif kind == 'sel_param_type':
        replace(LogicNet('s', n.op_param[:-1] + ('0',), n.args, n.dests))
    elif kind == 'sel_param_none':
        replace(LogicNet('s', None, n.args, n.dests))
    elif kind == 'concat_dest_wide':
        tot = sum(a.bitwidth for a in n.args)
        d = fresh(tot + 1, pyrtl.Output, 'flt_out')
        block.logic.add(LogicNet('c', None, n.args, (d,)))
    elif kind == 'param_not_none':
        replace(LogicNet(n.op, (0,), n.args, n.dests))
    elif kind.startswith('param_falsy'):
        # a stray parameter that is falsy but not None
        replace(LogicNet(n.op, [(), 0, '', False][int(kind[-1])], n.args, n.dests))
    elif kind == 'mem_param_none':
        replace(LogicNet(n.op, None, n.args, n.dests))
    elif kind == 'mem_param_short':
        replace(LogicNet(n.op, (n.op_param[0],), n.args, n.dests))
    elif kind == 'mem_param_types':
        replace(LogicNet(n.op, (n.op_param[1], n.op_param[0]), n.args, n.dests))
    elif kind == 'mem_addr_width':
        a = fresh(n.args[0].bitwidth + 1, pyrtl.Input, 'flt_in')
        replace(LogicNet(n.op, n.op_param, (a,) + n.args[1:], n.dests))
    elif kind == 'memid_mismatch':
        other = pyrtl.MemBlock(bitwidth=n.op_param[1].bitwidth, addrwidth=n.op_param[1].addrwidth,
                               name='flt_mem', block=block)
        replace(LogicNet(n.op, (other.id, n.op_param[1]), n.args, n.dests))
    elif kind == 'mem_dest_width':
        d = fresh(n.dests[0].bitwidth + 1, pyrtl.Output, 'flt_out')
        block.logic.add(LogicNet('m', n.op_param, n.args, (d,)))
    elif kind == 'mem_write_dest':
        d = fresh(1, pyrtl.Output, 'flt_out')
        replace(LogicNet('@', n.op_param, n.args, (d,)))
    elif kind == 'mem_enable_width':
        e = fresh(2, pyrtl.Input, 'flt_in')
        replace(LogicNet('@', n.op_param, (n.args[0], n.args[1], e), n.dests))
    elif kind == 'reg_dest_not_register':
        d = fresh(n.dests[0].bitwidth, pyrtl.Output, 'flt_out')
        block.logic.add(LogicNet('r', None, n.args, (d,)))
    elif kind == 'input_as_dest':
        d = fresh(n.dests[0].bitwidth, pyrtl.Input, 'flt_in')
        block.logic.add(LogicNet(n.op, n.op_param, n.args, (d,)))
    elif kind == 'const_as_dest':
        c = pyrtl.Const(0, bitwidth=n.dests[0].bitwidth, block=block)
        block.logic.add(LogicNet(n.op, n.op_param, n.args, (c,)))
    elif kind == 'output_as_arg':
        outs = sorted(block.wirevector_subset(pyrtl.Output), key=lambda w: w.name)
        o = None
        for cand in outs:
            if n.args and cand.bitwidth == n.args[0].bitwidth and not has(n.dests, cand):
                o = cand
                break
        if o is None:
            return False
        d = fresh(n.dests[0].bitwidth if n.dests else 1, pyrtl.Output, 'flt_out')
        block.logic.add(LogicNet(n.op, n.op_param, (o,) + n.args[1:], (d,) if n.dests else ()))
    elif kind == 'foreign_wire':
        other = pyrtl.Block()
        f = pyrtl.Input(n.args[0].bitwidth, 'flt_foreign', block=other)
        d = fresh(n.dests[0].bitwidth, pyrtl.Output, 'flt_out')
        block.logic.add(LogicNet(n.op, n.op_param, (f,) + n.args[1:], (d,)))
    elif kind == 'foreign_dest':
        # a destination wire owned by another block, even when it was added to this block's wire set
        other = pyrtl.Block()
        f = pyrtl.Output(n.dests[0].bitwidth, 'flt_foreign_out', block=other)
        block.add_wirevector(f)
        block.logic.add(LogicNet(n.op, n.op_param, n.args, (f,)))
    elif kind == 'bad_op':
        d = fresh(n.dests[0].bitwidth, pyrtl.Output, 'flt_out')
        block.logic.add(LogicNet('?', n.op_param, n.args, (d,)))
    elif kind == 'args_not_tuple':
        d = fresh(n.dests[0].bitwidth, pyrtl.Output, 'flt_out')
        block.logic.add(LogicNet(n.op, n.op_param, list(n.args), (d,)))
    elif kind == 'comb_loop':
        # feed the destination back into the first argument through a wire net
        a0 = n.args[0]
        d = n.dests[0]
        if isinstance(d, pyrtl.Output) or d.bitwidth < a0.bitwidth:
            return False
        src = [m for m in nets if has(m.dests, a0)]
        if not src or src[0].op in 'r@m':
            return False
        block.logic.remove(src[0])
        if d.bitwidth == a0.bitwidth:
            block.logic.add(LogicNet('w', None, (d,), (a0,)))
        else:
            block.logic.add(LogicNet('s', tuple(range(a0.bitwidth)), (d,), (a0,)))
    elif kind == 'unconnected_wire':
        pyrtl.WireVector(2, 'flt_unconnected', block=block)
    elif kind == 'duplicate_name':
        ws = sorted(block.wirevector_set, key=lambda w: w.name)
        ws[0]._name = ws[1].name
    elif kind == 'duplicate_name_setter':
        ws = sorted(block.wirevector_set, key=lambda w: w.name)
        tmp = [w for w in ws if w.name.startswith('tmp')]
        con = [w for w in ws if w.name.startswith('const_')]
        usr = [w for w in ws if not w.name.startswith('tmp') and not w.name.startswith('const_')
               and not isinstance(w, pyrtl.Const)]
        pairs = [(usr, tmp), (usr, con), (tmp, tmp), (usr, usr), (tmp, con), (con, con)][idx]
        a, b = pairs
        cand = [(x, y) for x in a for y in b if x is not y and not isinstance(x, pyrtl.Const)]
        if not cand:
            return False
        x, y = cand[0]
        with pyrtl.set_working_block(block, no_sanity_check=True):
            x.name = y.name
    elif kind == 'no_bitwidth_wire':
        w = pyrtl.WireVector(None, 'flt_nobw', block=block)
        o = fresh(1, pyrtl.Output, 'flt_out')
        block.logic.add(LogicNet('w', None, (w,), (o,)))
        i = fresh(1, pyrtl.Input, 'flt_in')
        block.logic.add(LogicNet('w', None, (i,), (w,)))
    elif kind == 'byname_inconsistent':
        ws = sorted(block.wirevector_set, key=lambda w: w.name)
        block.wirevector_by_name['flt_ghost'] = ws[0]
    else:
        raise KeyError(kind)
    return True


def check_fault(design, kind, idx):
    """Executable contract: the faulted block is rejected with PyrtlError/PyrtlInternalError by
    sanity_check() and by the constructor of each of the three simulators."""
    import pyrtl
    from fam import designs
    accepted = (pyrtl.PyrtlError, pyrtl.PyrtlInternalError)
    results = {}
    for who in ('sanity_check', 'Simulation', 'FastSimulation', 'CompiledSimulation',
                'Simulation|foreign', 'FastSimulation|foreign', 'CompiledSimulation|foreign',
                'sanity_check|prechecked', 'Simulation|prechecked', 'FastSimulation|prechecked',
                'Simulation|postsynth', 'FastSimulation|postsynth'):
        block = designs.build(design)
        if who.endswith('|postsynth'):
            # the fault is injected into the block synthesize() returned (a PostSynthBlock is checked like any other)
            if kind not in ('unconnected_wire', 'duplicate_name', 'two_drivers', 'undriven', 'no_bitwidth_wire'):
                continue
            try:
                block = pyrtl.synthesize(block=block)
            except accepted:
                continue
        if who.endswith('|prechecked'):
            # a history: the healthy block is checked and simulated first, the fault comes afterwards
            try:
                block.sanity_check()
                pyrtl.Simulation(block=block)
            except accepted:
                pass
        try:
            if not apply_fault(block, kind, idx):
                return dict(failed=False, observed='fault not applicable', expected='-', skipped=True)
        except accepted:
            # the injection itself went through a checked API call: rejected at once
            results[who] = 'rejected-at-injection'
            continue
        key = who
        who = who.split('|')[0]
        if key.endswith('|foreign'):
            # the faulted block is handed over through block= while a healthy, unrelated block is
            # the working block
            pyrtl.reset_working_block()
            hi = pyrtl.Input(1, 'healthy_in')
            ho = pyrtl.Output(1, 'healthy_out')
            ho <<= hi
        try:
            if who == 'sanity_check':
                block.sanity_check()
            else:
                sim = getattr(pyrtl, who)(block=block, tracer=None if who != 'CompiledSimulation' else
                                          pyrtl.SimulationTrace(wires_to_track=list(
                                              block.wirevector_subset(pyrtl.Output)), block=block))
                ins = {w.name: 0 for w in block.wirevector_subset(pyrtl.Input)}
                sim.step(ins)
            results[key] = 'ACCEPTED'
        except accepted as e:
            results[key] = 'rejected'
        except Exception as e:
            results[key] = 'raised %s' % type(e).__name__
    # the property: rejected by sanity_check OR by simulator construction, never simulated.
    # every simulator must therefore refuse the block; sanity_check alone may accept (e.g. a
    # combinational loop is found by the block iterator) but must not raise a foreign exception
    bad = {k: v for k, v in results.items()
           if not v.startswith('rejected') and not (k.split('|')[0] == 'sanity_check' and v == 'ACCEPTED')}
    return dict(failed=bool(bad), observed=results,
                expected='PyrtlError/PyrtlInternalError from every simulator (and no foreign '
                         'exception from sanity_check)')


def check_accepts(design):
    """Every unfaulted API-built design passes sanity_check and is accepted by all simulators."""
    import pyrtl
    from fam import designs
    res = {}
    for who in ('sanity_check', 'Simulation', 'FastSimulation', 'CompiledSimulation'):
        block = designs.build(design)
        try:
            if who == 'sanity_check':
                block.sanity_check()
            else:
                sim = getattr(pyrtl, who)(block=block)
                sim.step({w.name: 0 for w in block.wirevector_subset(pyrtl.Input)})
            res[who] = 'ok'
        except Exception as e:
            res[who] = '%s: %s' % (type(e).__name__, str(e)[:100])
    bad = {k: v for k, v in res.items() if v != 'ok'}
    return dict(failed=bool(bad), observed=res, expected='accepted everywhere')


# ----------------------------------------------------------------------------- iteration schedules
class ChoiceSet(set):
    """set whose pop() is driven by a scheduler: substituted for the `to_clear` set of
    Block.__iter__ in the check process (no repository hook)."""
    scheduler = None

    def pop(self):
        items = sorted(self, key=lambda w: w.name)
        i = ChoiceSet.scheduler(len(items))
        x = items[i]
        self.remove(x)
        return x


def schedules(design, limit=20000):
    """Every tie-break schedule of Block.__iter__ on this design: each net yielded exactly once,
    after the producers of all its non-register arguments."""
    import pyrtl
    from fam import designs
    block = designs.build(design)
    orig_subset = pyrtl.Block.wirevector_subset

    def patched(self, cls=None, exclude=tuple()):
        r = orig_subset(self, cls, exclude)
        if cls == (pyrtl.Input, pyrtl.Const, pyrtl.Register):
            return ChoiceSet(r)
        return r
    producers = {}
    for n in block.logic:
        if n.op not in 'r':
            for d in n.dests:
                producers[d] = n
    count = 0
    stack = [[]]
    try:
        pyrtl.Block.wirevector_subset = patched
        while stack:
            prefix = stack.pop()
            pos = [0]
            trace = []

            def sched(k, prefix=prefix, pos=pos, trace=trace):
                i = pos[0]
                pos[0] += 1
                if i < len(prefix):
                    c = prefix[i]
                else:
                    c = 0
                    for alt in range(1, k):
                        stack.append(list(trace) + [alt])
                trace.append(c)
                return c
            ChoiceSet.scheduler = sched
            order = list(block)
            count += 1
            if sorted(map(id, order)) != sorted(map(id, block.logic)):
                return dict(failed=True, observed=dict(schedule=trace, yielded=len(order)),
                            expected=dict(nets=len(block.logic), each='exactly once'))
            seen = set()
            for n in order:
                for a in n.args:
                    p = producers.get(a)
                    if p is not None and id(p) not in seen:
                        return dict(failed=True, observed=dict(schedule=trace, net=str(n).strip(),
                                                               before_producer_of=a.name),
                                    expected='producers first')
                seen.add(id(n))
            if count >= limit:
                break
    finally:
        pyrtl.Block.wirevector_subset = orig_subset
    return dict(failed=False, observed='ok', expected='ok', schedules=count, exhaustive=not stack)
