"""C20: determinism across processes / hash seeds / allocation orders, and read-only exports.
`python -m fam.detcheck <variant> <k>` builds a design with k small objects of the wire-object
size class allocated between wire constructions (this permutes identity-hashed sets without
changing the construction order) and prints a JSON digest of every exported text."""
import hashlib
import io
import json
import sys


class _Junk(object):
    def __init__(self):
        self.a = 1
        self.b = 2


_keep = []
_k = 0


def _install_gap(k):
    """allocate junk instances before every WireVector / memory construction: k before each
    wire, a k-seeded pseudo-random number (0..k) more before each wire and each memory, so that
    relative addresses (identity hashes) of wires and of memories change non-uniformly"""
    import random
    import pyrtl
    global _k
    _k = k
    rng = random.Random(k)
    orig = pyrtl.WireVector.__init__

    def init(self, *a, **kw):
        for _ in range(_k + (rng.randrange(_k + 1) if _k else 0)):
            _keep.append(_Junk())
        return orig(self, *a, **kw)
    pyrtl.WireVector.__init__ = init
    for cls in (pyrtl.MemBlock, pyrtl.RomBlock):
        def wrap(cls):
            o = cls.__init__

            def minit(self, *a, **kw):
                for _ in range(rng.randrange(_k + 1) if _k else 0):
                    _keep.append(_Junk())
                return o(self, *a, **kw)
            cls.__init__ = minit
        wrap(cls)


def build(variant):
    import pyrtl
    from fam import designs
    pyrtl.reset_working_block()
    if variant == 'tie':
        names = ['a1', 'a01', 'a001', 'b2', 'b02', 'b002', 'c3', 'c03']
    elif variant == 'case_tie':
        # names equal up to letter case / leading zeros / underscores
        names = ['sel', 'Sel', 'SEL', 'sEl', 'data_1', 'Data_1', 'DATA_1', 'data_01']
    elif variant == 'sani':
        names = ['x[0]', 'x[1]', 'y.z', 'p-q', 'r s', 't#', 'u@v', 'w%']
    elif variant == 'memen':
        # six write ports sharing one enable; constant, distinct addresses (well-defined)
        ra = pyrtl.Input(3, 'ra')
        we = pyrtl.Input(1, 'we')
        d = pyrtl.Input(3, 'd')
        o = pyrtl.Output(3, 'o')
        m = pyrtl.MemBlock(3, 3, 'm', max_write_ports=8, asynchronous=True)
        for i in range(6):
            m[pyrtl.Const(i, 3)] <<= pyrtl.MemBlock.EnabledWrite(d ^ i, we)
        o <<= m[ra]
        r = pyrtl.Register(3, 'r')
        r.next <<= r + d
        o2 = pyrtl.Output(3, 'o2')
        o2 <<= r
        return pyrtl.working_block()
    elif variant == 'pad_tie':
        # equal-length names that differ only by where their leading zeros sit (registers, outputs, wires)
        i0 = pyrtl.Input(2, 'i0')
        acc = i0
        for k, nm in enumerate(['s01_2', 's1_02', 't001_1', 't01_01', 't1_001', 'u0_10', 'u00_1']):
            r = pyrtl.Register(2, nm, reset_value=k % 4)
            r.next <<= acc
            acc = acc ^ r
        for k, nm in enumerate(['q01_2', 'q1_02', 'q001_1', 'q01_01']):
            o = pyrtl.Output(2, nm)
            o <<= acc + k
        return pyrtl.working_block()
    elif variant == 'blif_import':
        # the same BLIF text imported in every process (several multi-bit vectors, flops, a sub-model)
        import io
        import contextlib
        blif = (".model top\n.inputs clk a[0] a[1] a[2] b[0] b[1] c[0] c[1] c[2] c[3] s\n"
                ".outputs y[0] y[1] z[0] z[1] z[2] q\n"
                ".names a[0] b[0] y[0]\n11 1\n.names a[1] b[1] y[1]\n10 1\n01 1\n"
                ".names c[0] a[2] z[0]\n1- 1\n-1 1\n.names c[1] c[2] z[1]\n11 1\n.names c[3] s z[2]\n10 1\n"
                ".latch s q re clk 0\n.end\n")
        with contextlib.redirect_stdout(io.StringIO()):
            pyrtl.input_from_blif(blif)
        return pyrtl.working_block()
    elif variant == 'memen_joined':
        # pairs of write ports whose (enable, address, data) descriptions coincide once joined with blanks:
        # 'p/1I' + 'q/1I r/3I'  vs  'p/1I q/1I' + 'r/3I'  (names may hold any character); same data everywhere
        ra = pyrtl.Input(3, 'ra')
        d = pyrtl.Input(3, 'D')
        o = pyrtl.Output(3, 'o')
        m = pyrtl.MemBlock(3, 3, 'm', max_write_ports=8, asynchronous=True)
        for i in range(3):
            e1, a1 = pyrtl.Input(1, 'p%d' % i), pyrtl.Input(3, 'q%d/1I r%d' % (i, i))
            e2, a2 = pyrtl.Input(1, 'p%d/1I q%d' % (i, i)), pyrtl.Input(3, 'r%d' % i)
            m[a1] <<= pyrtl.MemBlock.EnabledWrite(d, e1)
            m[a2] <<= pyrtl.MemBlock.EnabledWrite(d, e2)
        o <<= m[ra]
        return pyrtl.working_block()
    elif variant == 'memen_samedata':
        # write ports that share BOTH the enable wire and the data wire (a broadcast write)
        ra = pyrtl.Input(3, 'ra')
        we = pyrtl.Input(1, 'we')
        d = pyrtl.Input(3, 'd')
        o = pyrtl.Output(3, 'o')
        m = pyrtl.MemBlock(3, 3, 'm', max_write_ports=8, asynchronous=True)
        for i in range(6):
            m[pyrtl.Const(i, 3)] <<= pyrtl.MemBlock.EnabledWrite(d, we)
        o <<= m[ra]
        return pyrtl.working_block()
    elif variant == 'mems_same_name':
        # memory names, unlike memory ids, need not be unique
        a = pyrtl.Input(2, 'a')
        d = pyrtl.Input(4, 'd')
        we = pyrtl.Input(1, 'we')
        outs = []
        for i in range(4):
            m = pyrtl.MemBlock(4, 2, 'm', asynchronous=True)
            m[a] <<= pyrtl.MemBlock.EnabledWrite((d + i)[:4], we)
            outs.append(m[a])
        for i in range(4):
            r = pyrtl.RomBlock(4, 2, [(3 * i + j) % 16 for j in range(4)], name='rom', asynchronous=True)
            outs.append(r[a])
        for i, w in enumerate(outs):
            o = pyrtl.Output(4, 'o%d' % i)
            o <<= w
        return pyrtl.working_block()
    elif variant == 'rom_clones':
        # a ROM read through more ports than max_read_ports is cloned under the same name
        a = pyrtl.Input(2, 'a')
        r = pyrtl.RomBlock(4, 2, [5, 9, 2, 14], name='rom', max_read_ports=1, build_new_roms=True,
                           asynchronous=True)
        for i in range(5):
            o = pyrtl.Output(4, 'o%d' % i)
            o <<= r[(a + i)[:2]]
        return pyrtl.working_block()
    elif variant == 'regs_tie':
        regs = [pyrtl.Register(2, n, reset_value=i % 4) for i, n in enumerate(['r1', 'r01', 'r001', 'r0001', 's1', 's01'])]
        i0 = pyrtl.Input(2, 'i0')
        acc = i0
        for r in regs:
            r.next <<= acc
            acc = acc ^ r
        o = pyrtl.Output(2, 'o')
        o <<= acc
        return pyrtl.working_block()
    elif variant == 'mems_init':
        # several writable memories, each given non-default initial contents by the simulation
        a = pyrtl.Input(2, 'a')
        d = pyrtl.Input(4, 'd')
        we = pyrtl.Input(1, 'we')
        for i, nm in enumerate(['ma', 'mb', 'mc', 'md', 'me', 'mf']):
            m = pyrtl.MemBlock(4, 2, nm, asynchronous=True)
            m[a] <<= pyrtl.MemBlock.EnabledWrite((d + i)[:4], we)
            o = pyrtl.Output(4, 'o%d' % i)
            o <<= m[a]
        return pyrtl.working_block()
    elif variant == 'regs_same_next':
        # registers fed by ONE next-state wire but reset to different values (no pass may merge them)
        i0 = pyrtl.Input(4, 'i0')
        nxt = i0 + 1
        for i, nm in enumerate(['ra', 'rb', 'rc', 'rd', 're']):
            r = pyrtl.Register(4, nm, reset_value=(3 * i + 1) % 16)
            r.next <<= nxt[:4]
            o = pyrtl.Output(4, 'o_' + nm)
            o <<= r
        return pyrtl.working_block()
    elif variant == 'cond_fsm':
        # conditional_assignment with multi-term predicates: sibling branches, otherwise, nesting (every
        # temporary net and name it creates must come out in the same order in every process)
        a, b, c = pyrtl.Input(1, 'a'), pyrtl.Input(1, 'b'), pyrtl.Input(1, 'c')
        d = pyrtl.Input(3, 'd')
        st_ = pyrtl.Register(2, 'state')
        acc = pyrtl.Register(3, 'acc')
        o = pyrtl.Output(3, 'o')
        m = pyrtl.MemBlock(3, 1, 'm', asynchronous=True)
        with pyrtl.conditional_assignment:
            with a:
                with b:
                    st_.next |= 1
                    acc.next |= d
                with c:
                    st_.next |= 2
                    o |= d + 1
                with pyrtl.otherwise:
                    acc.next |= acc + 1
                    m[a] |= d
            with b & c:
                st_.next |= 3
                o |= acc
            with c:
                with b:
                    o |= 5
                with pyrtl.otherwise:
                    o |= d ^ acc
                    m[c] |= acc
            with pyrtl.otherwise:
                st_.next |= 0
        o2 = pyrtl.Output(3, 'o2')
        o2 <<= m[b]
        o3 = pyrtl.Output(2, 'o3')
        o3 <<= st_
        return pyrtl.working_block()
    elif variant == 'outs_tie':
        i0 = pyrtl.Input(2, 'i0')
        for n_, nm in enumerate(['o1', 'o01', 'o001', 'o0001', 'p1', 'p01']):
            o = pyrtl.Output(2, nm)
            o <<= i0 + n_
        return pyrtl.working_block()
    else:
        spec = json.loads(variant)
        designs.DESIGNS[spec['name']](**spec.get('params', {}))
        return pyrtl.working_block()
    ws = [pyrtl.Input(2, n) for n in names]
    acc = ws[0]
    for w in ws[1:]:
        acc = acc ^ w
    o = pyrtl.Output(2, 'o')
    o <<= acc
    return pyrtl.working_block()


def digest(variant, k):
    import random
    import pyrtl
    allsims = variant.endswith('+allsims')
    if allsims:
        variant = variant[:-len('+allsims')]
    _install_gap(k)
    block = build(variant)
    out = {}
    rnd = random.Random(5)
    ins = sorted(block.wirevector_subset(pyrtl.Input), key=lambda w: w.name)
    steps = [{w.name: rnd.getrandbits(w.bitwidth) for w in ins} for _ in range(4)]
    def mvm(b):
        # non-default initial contents for every writable memory (by name, in name order)
        mems = sorted((m for m in set(n.op_param[1] for n in b.logic_subset('m@'))
                       if not isinstance(m, pyrtl.RomBlock)), key=lambda m: (m.name, m.id))
        return {m: {0: (3 * i + 1) % (1 << m.bitwidth), (1 << m.addrwidth) - 1: (5 * i + 2) % (1 << m.bitwidth)}
                for i, m in enumerate(mems)}
    sim = pyrtl.Simulation(tracer=pyrtl.SimulationTrace(block=block), block=block, memory_value_map=mvm(block))
    for s in steps:
        sim.step(s)
    tr = sim.tracer
    outs = sorted(w.name for w in block.wirevector_subset(pyrtl.Output))
    out['outputs'] = json.dumps({n: list(tr.trace[n]) for n in outs})
    if allsims:
        # the other two simulators on a fresh build: same Output traces in every process, equal to Simulation's
        for sname in ('FastSimulation', 'CompiledSimulation'):
            b3 = build(variant)
            s3 = getattr(pyrtl, sname)(tracer=pyrtl.SimulationTrace(block=b3), block=b3)
            for st_ in steps:
                s3.step(st_)
            got3 = json.dumps({n: list(s3.tracer.trace[n]) for n in outs})
            out['outputs_%s' % sname] = got3
            out['%s_preserves_outputs' % sname] = str(got3 == json.dumps(
                {n: list(_plain_outputs(variant, steps)[n]) for n in outs}))
    out['trace'] = json.dumps({k_: list(v) for k_, v in sorted(tr.trace.items())})
    for add_reset in (True, False, 'asynchronous'):
        f = io.StringIO()
        pyrtl.output_to_verilog(f, add_reset=add_reset, block=block)
        out['verilog_%s' % add_reset] = f.getvalue()
    f = io.StringIO()
    pyrtl.output_verilog_testbench(f, simulation_trace=tr, block=block)
    out['testbench'] = f.getvalue()
    f = io.StringIO()
    tr.print_vcd(f)
    out['vcd'] = f.getvalue()
    f = io.StringIO()
    tr.print_trace(f)
    out['print_trace'] = f.getvalue()
    f = io.StringIO()
    tr.print_trace(f, base=16, compact=True)
    out['print_trace_compact'] = f.getvalue()
    # transformation passes: internal names may differ between runs, behaviour may not (nor from the source)
    if not variant.startswith('{') or json.loads(variant).get('name') != 'rand_design':
        for pname, fn in (('optimize', lambda b: pyrtl.optimize(block=b)),
                          ('synthesize', lambda b: pyrtl.synthesize(block=b))):
            b2 = build(variant)
            try:
                fn(b2)
                s2 = pyrtl.Simulation(tracer=pyrtl.SimulationTrace(block=b2), block=b2)
                for st_ in steps:
                    s2.step(st_)
                got = json.dumps({n: list(s2.tracer.trace[n]) for n in outs})
            except pyrtl.PyrtlError as e:
                got = 'PyrtlError'
            b0 = build(variant)
            s0 = pyrtl.Simulation(tracer=pyrtl.SimulationTrace(block=b0), block=b0)
            for st_ in steps:
                s0.step(st_)
            ref = json.dumps({n: list(s0.tracer.trace[n]) for n in outs})
            out['outputs_after_%s' % pname] = got
            out['%s_preserves_outputs' % pname] = str(got == ref or got == 'PyrtlError')
    return {k_: (v if k_.endswith('_preserves_outputs') else hashlib.sha256(v.encode()).hexdigest()[:16])
            for k_, v in out.items()}, out


def _plain_outputs(variant, steps):
    import pyrtl
    b0 = build(variant)
    s0 = pyrtl.Simulation(tracer=pyrtl.SimulationTrace(block=b0), block=b0)
    for st_ in steps:
        s0.step(st_)
    return s0.tracer.trace


def readonly(design):
    """Executable contract: export / visualisation / analysis calls do not change the block they
    read (fingerprint), and output_to_firrtl's in-place rewrites preserve behaviour."""
    import contextlib
    import pyrtl
    from fam import designs
    from props.C11 import fingerprint, sim_trace
    probs = []

    def fresh():
        return designs.build(design)
    calls = {
        'output_to_verilog': lambda b: pyrtl.output_to_verilog(io.StringIO(), block=b),
        'output_to_graphviz': lambda b: pyrtl.output_to_graphviz(io.StringIO(), block=b),
        'block_to_graphviz_string': lambda b: pyrtl.block_to_graphviz_string(b),
        'output_to_trivialgraph': lambda b: pyrtl.output_to_trivialgraph(io.StringIO(), block=b),
        'net_graph': lambda b: pyrtl.net_graph(b),
        'TimingAnalysis': lambda b: pyrtl.TimingAnalysis(block=b).critical_path(print_cp=False),
        'area_estimation': lambda b: pyrtl.area_estimation(block=b),
        'paths': lambda b: pyrtl.paths(block=b),
        'str(block)': lambda b: str(b),
        'net_connections': lambda b: b.net_connections(include_virtual_nodes=True),
        'sanity_check': lambda b: b.sanity_check(),
        'iter': lambda b: list(b),
    }
    def roms(b):
        return sorted((m for m in {n.op_param[1] for n in b.logic if n.op in 'm@'}
                       if isinstance(m, pyrtl.RomBlock)), key=lambda m: m.id)

    def rom_contents(b):
        """every address of every ROM (a ROM's contents are part of the design's behaviour)"""
        out = {}
        for m in roms(b):
            vals = []
            for a in range(1 << m.addrwidth):
                try:
                    vals.append(m._get_read_data(a))
                except pyrtl.PyrtlError:
                    vals.append('invalid')
            out[m.id] = vals
        return out
    for nm, fn in calls.items():
        b = fresh()
        with pyrtl.set_working_block(b, no_sanity_check=True):
            fp0 = fingerprint(b)
            tr0 = sim_trace(b)
            rc0 = rom_contents(b)
            try:
                with contextlib.redirect_stdout(io.StringIO()):
                    fn(b)
            except (pyrtl.PyrtlError, pyrtl.PyrtlInternalError):
                pass    # the export may refuse a design (e.g. nand in Verilog); it must still not edit it
            except Exception as e:
                probs.append('%s raised %s: %s' % (nm, type(e).__name__, str(e)[:80]))
                continue
            if fingerprint(b) != fp0:
                probs.append('%s modified the block' % nm)
            elif sim_trace(b) != tr0:
                probs.append('%s changed the simulated behaviour' % nm)
            elif rom_contents(b) != rc0:
                probs.append('%s changed ROM contents' % nm)
    # simulation + trace printing + testbench
    b = fresh()
    with pyrtl.set_working_block(b, no_sanity_check=True):
        fp0 = fingerprint(b)
        tr = pyrtl.SimulationTrace(block=b)
        sim = pyrtl.Simulation(tracer=tr, block=b)
        ins = sorted(b.wirevector_subset(pyrtl.Input), key=lambda w: w.name)
        for t in range(3):
            sim.step({w.name: (t * 5 + 1) % (1 << w.bitwidth) for w in ins})
        tr.print_vcd(io.StringIO())
        tr.print_trace(io.StringIO())
        try:
            pyrtl.output_verilog_testbench(io.StringIO(), simulation_trace=tr, block=b)
        except (pyrtl.PyrtlError, pyrtl.PyrtlInternalError):
            pass
        if fingerprint(b) != fp0:
            probs.append('simulation / trace printing / testbench export modified the block')
    # firrtl rewrites the block in place but must preserve behaviour
    b = fresh()
    with pyrtl.set_working_block(b, no_sanity_check=True):
        tr0 = sim_trace(b)
        outs0 = {k_: v for k_, v in tr0.items() if k_ in [w.name for w in b.wirevector_subset(pyrtl.Output)]}
        try:
            pyrtl.output_to_firrtl(io.StringIO(), block=b)
            b.sanity_check()
            tr1 = sim_trace(b)
            outs1 = {k_: v for k_, v in tr1.items() if k_ in outs0}
            if outs1 != outs0:
                probs.append('output_to_firrtl changed the behaviour of the block')
            names = [w.name for w in b.wirevector_set]
            if len(names) != len(set(names)):
                probs.append('output_to_firrtl left duplicate wire names')
        except pyrtl.PyrtlError as e:
            if 'nand' not in str(e).lower() and 'not supported' not in str(e).lower():
                probs.append('output_to_firrtl raised %s' % str(e)[:80])
    # ... also when ROMs are passed for initialisation (function ROMs are materialised in place)
    b = fresh()
    if roms(b):
        with pyrtl.set_working_block(b, no_sanity_check=True):
            tr0 = sim_trace(b)
            rc0 = rom_contents(b)
            try:
                try:
                    pyrtl.output_to_firrtl(io.StringIO(), rom_blocks=roms(b), block=b)
                except pyrtl.PyrtlError:
                    raise
                except Exception:
                    pass   # a refused / crashed export is not this property's concern; its effects are
                if rom_contents(b) != rc0:
                    probs.append('output_to_firrtl(rom_blocks=...) changed ROM contents')
                tr1 = sim_trace(b)
                if {k_: v for k_, v in tr1.items() if k_ in tr0} != tr0 and \
                        {k_: v for k_, v in tr1.items() if k_ in outs0} != \
                        {k_: v for k_, v in tr0.items() if k_ in outs0}:
                    probs.append('output_to_firrtl(rom_blocks=...) changed the behaviour of the block')
            except pyrtl.PyrtlError as e:
                if 'nand' not in str(e).lower() and 'not supported' not in str(e).lower():
                    probs.append('output_to_firrtl(rom_blocks=...) raised %s' % str(e)[:80])
    return dict(failed=bool(probs), observed=probs, expected=[])


if __name__ == '__main__':
    d, _ = digest(sys.argv[1], int(sys.argv[2]))
    print('DIGEST ' + json.dumps(d, sort_keys=True))
