"""C15 executable contracts (level B): observation channels agree; illegal inputs refused.
Pure PyRTL."""
import io
import random


def _mk(simname, block, tracer=None, **kw):
    import pyrtl
    tracer = tracer or pyrtl.SimulationTrace(block=block)
    return getattr(pyrtl, simname)(tracer=tracer, block=block, **kw)


def _stim(block, seed, n):
    import pyrtl
    rnd = random.Random(seed)
    ins = sorted(block.wirevector_subset(pyrtl.Input), key=lambda w: w.name)
    return [{w.name: rnd.getrandbits(w.bitwidth) for w in ins} for _ in range(n)]


def channels(design, simname='Simulation', seed=0, nsteps=5):
    """inspect == last trace entry; trace length == steps; step_multiple == stepping one at a
    time; the mismatch report lists exactly the mismatching (step, wire, expected, actual)."""
    import pyrtl
    from fam import designs
    block = designs.build(design)
    steps = _stim(block, seed, nsteps)
    sim1 = _mk(simname, block)
    tr1 = sim1.tracer
    for t, s in enumerate(steps):
        sim1.step(dict(s))
        if len(tr1) != t + 1:
            return dict(failed=True, observed=dict(trace_len=len(tr1)), expected=dict(trace_len=t + 1))
        for name in tr1.trace:
            if len(tr1.trace[name]) != t + 1:
                return dict(failed=True, observed=dict(wire=name, entries=len(tr1.trace[name])),
                            expected=dict(entries=t + 1))
            try:
                v = sim1.inspect(name)
            except Exception as e:      # CompiledSimulation can inspect only traced wires
                return dict(failed=True, observed='inspect(%s) raised %s' % (name, type(e).__name__),
                            expected='value')
            if v != tr1.trace[name][-1]:
                return dict(failed=True, observed=dict(step=t, wire=name, inspect=v),
                            expected=dict(trace=tr1.trace[name][-1]))
    ref = {n: list(v) for n, v in tr1.trace.items()}
    # step_multiple with the same stimuli on a fresh instance
    block = designs.build(design)
    outs = sorted(w.name for w in block.wirevector_subset(pyrtl.Output))
    ins = sorted(w.name for w in block.wirevector_subset(pyrtl.Input))
    provided = {n: [s[n] for s in steps] for n in ins}
    rnd = random.Random(seed + 1)
    expected = {}
    wrong = set()
    for o in outs:
        col = []
        for t in range(nsteps):
            c = rnd.random()
            if c < 0.2:
                col.append('?')
            elif c < 0.4:
                col.append(ref[o][t] + 1)
                wrong.add((t, o, ref[o][t] + 1, ref[o][t]))
            elif c < 0.6:
                # an expected value of 0 is an expectation like any other (met or not), not a don't-care
                col.append(0)
                if ref[o][t] != 0:
                    wrong.add((t, o, 0, ref[o][t]))
            else:
                col.append(ref[o][t])
        expected[o] = col
    for stop in (False, True):
        block = designs.build(design)
        sim2 = _mk(simname, block)
        buf = io.StringIO()
        kwargs = dict(provided_inputs=dict(provided), expected_outputs=dict(expected), file=buf,
                      stop_after_first_error=stop)
        if not ins:
            kwargs['nsteps'] = nsteps
        sim2.step_multiple(**kwargs)
        got2 = {n: list(v) for n, v in sim2.tracer.trace.items()}
        if stop and wrong:
            first = min(t for (t, _, _, _) in wrong)
            exp_rep = sorted(x for x in wrong if x[0] == first)
            exp_trace = {n: v[:first + 1] for n, v in ref.items()}
        else:
            exp_rep = sorted(wrong)
            exp_trace = ref
        if got2 != exp_trace:
            return dict(failed=True, observed=dict(step_multiple_trace=got2, stop=stop),
                        expected=dict(trace=exp_trace))
        rep = []
        lines = buf.getvalue().splitlines()
        for ln in lines[2:]:
            f = ln.split()
            rep.append((int(f[0]), f[1], int(f[2]), int(f[3])))
        if sorted(rep) != exp_rep or (bool(lines) != bool(exp_rep)):
            return dict(failed=True, observed=dict(report=sorted(rep), stop=stop),
                        expected=dict(report=exp_rep))
        if rep != sorted(rep, key=lambda x: (x[0],)):
            return dict(failed=True, observed=dict(report_order=rep), expected='sorted by step')
    return dict(failed=False, observed='ok', expected='ok', wires=len(ref))


def printers(design, seed=0, nsteps=4):
    """print_trace (bases 2/8/10/16, compact or not) and print_vcd encode exactly the traced values."""
    import pyrtl
    from fam import designs
    block = designs.build(design)
    sim = _mk('Simulation', block)
    for s in _stim(block, seed, nsteps):
        sim.step(s)
    tr = sim.tracer
    ref = {n: list(v) for n, v in tr.trace.items()}
    for base, key in ((2, 'b'), (8, 'o'), (10, 'd'), (16, 'x')):
        buf = io.StringIO()
        tr.print_trace(file=buf, base=base)
        lines = buf.getvalue().splitlines()
        if 'base %d' % base not in lines[0]:
            return dict(failed=True, observed=lines[0], expected='header naming base %d' % base)
        got = {}
        for ln in lines[1:]:
            f = ln.split()
            got[f[0]] = [int(x, base) for x in f[1:]]
        if got != ref:
            return dict(failed=True, observed=dict(base=base, parsed=got), expected=ref)
        buf = io.StringIO()
        tr.print_trace(file=buf, base=base, compact=True)
        exp = {n: ''.join(format(x, key) for x in v) for n, v in ref.items()}
        got = {}
        for ln in buf.getvalue().splitlines():
            f = ln.split()
            got[f[0]] = f[1] if len(f) > 1 else ''
        if got != exp:
            return dict(failed=True, observed=dict(base=base, compact=got), expected=exp)
    for clock in (False, True):
        buf = io.StringIO()
        tr.print_vcd(file=buf, include_clock=clock)
        ids, widths = {}, {}
        t = None
        vals = {}
        dumpvars = False
        for ln in buf.getvalue().splitlines():
            f = ln.split()
            if not f:
                continue
            if f[0] == '$var':
                if f[3] != 'clk':
                    ids[f[3]] = f[4]
                    widths[f[3]] = int(f[2])
            elif f[0] == '$dumpvars':
                dumpvars = True
            elif f[0] == '$end':
                dumpvars = False
            elif f[0].startswith('#'):
                t = int(f[0][1:])
            elif f[0].startswith('b') and len(f) == 2 and not dumpvars and t is not None \
                    and f[1] != 'clk' and t % 10 == 0:
                vals.setdefault(f[1], {})[t // 10] = int(f[0][1:], 2)
        if len(set(ids)) != len(ref):
            return dict(failed=True, observed=dict(vcd_vars=sorted(ids)), expected=sorted(ref))
        # identifiers are sanitised names; map back by order of the sorted trace keys
        names_sorted = sorted(ref, key=pyrtl.simulation._trace_sort_key)
        vars_in_order = list(ids)
        # a name that is already a legal identifier keeps its own name in the dump: those are matched by NAME
        # (a positional match could not tell two swapped labels apart); sanitised names by position
        import re
        legal = [nm for nm in names_sorted if re.match(r'^[A-Za-z_][A-Za-z0-9_]*$', nm)]
        missing = [nm for nm in legal if nm not in ids]
        if missing:
            return dict(failed=True, observed=dict(vcd_vars=vars_in_order, missing=missing),
                        expected='every traced wire with a legal name dumped under that name')
        pairs = []
        for nm, vid in zip(names_sorted, vars_in_order):
            pairs.append((nm, nm if nm in legal else vid))
        for nm, vid in pairs:
            w = tr._wires[nm].bitwidth
            if widths[vid] != w:
                return dict(failed=True, observed=dict(var=vid, width=widths[vid]), expected=w)
            got = [vals.get(vid, {}).get(i) for i in range(nsteps)]
            if got != ref[nm]:
                return dict(failed=True, observed=dict(var=vid, wire=nm, values=got, clock=clock),
                            expected=ref[nm])
    return dict(failed=False, observed='ok', expected='ok')


def assertions(simname='Simulation', fail_at=3, width=3, exc='custom'):
    """an rtl_assert raises its exception - whatever its class - on the first cycle its wire is 0
    and not before"""
    import pyrtl
    pyrtl.reset_working_block()
    en = pyrtl.Input(1, 'en')
    cnt = pyrtl.Register(width, 'cnt')
    cnt.next <<= cnt + 1

    class Custom(Exception):
        pass
    class KeySub(KeyError):
        pass
    MyErr = {'custom': Custom, 'PyrtlError': pyrtl.PyrtlError, 'PyrtlInternalError': pyrtl.PyrtlInternalError,
             'ValueError': ValueError, 'LookupError': LookupError, 'AttributeError': AttributeError,
             'KeyError': KeyError, 'KeyErrorSubclass': KeySub}[exc]
    ok = pyrtl.WireVector(1, 'ok_w')
    ok <<= (cnt != fail_at) | ~en
    try:
        pyrtl.rtl_assert(ok, MyErr('boom'))
    except pyrtl.PyrtlError:
        # an exception class the assertion machinery cannot deliver may be refused at registration
        # (KeyError and its subclasses are); it must never be accepted and then swallowed
        if issubclass(MyErr, KeyError):
            return dict(failed=False, observed='refused at registration', expected='refused or delivered')
        return dict(failed=True, observed='rtl_assert refused %s' % exc, expected='accepted')
    o = pyrtl.Output(width, 'o')
    o <<= cnt
    sim = _mk(simname, pyrtl.working_block())
    raised_at = None
    for t in range(fail_at + 3):
        try:
            sim.step({'en': 1})
        except MyErr:
            raised_at = t
            break
        except Exception as e:
            return dict(failed=True, observed='%s at cycle %d' % (type(e).__name__, t),
                        expected='MyErr at cycle %d' % fail_at)
    if raised_at != fail_at:
        return dict(failed=True, observed=dict(raised_at=raised_at), expected=dict(raised_at=fail_at))
    # the step on which the assertion fired was still a step: traced, and inspect agrees with it
    steps_taken = fail_at + 1
    tr = sim.tracer
    if len(tr) != steps_taken:
        return dict(failed=True, observed=dict(trace_len=len(tr)), expected=dict(trace_len=steps_taken))
    for name in tr.trace:
        if sim.inspect(name) != tr.trace[name][-1]:
            return dict(failed=True, observed=dict(wire=name, inspect=sim.inspect(name),
                                                   last_trace=tr.trace[name][-1]), expected='equal')
    if tr.trace['o'] != [t % (1 << width) for t in range(steps_taken)]:
        return dict(failed=True, observed=dict(o=list(tr.trace['o'])), expected='0..%d' % fail_at)
    # a testbench that catches the exception and keeps going: the failing cycle was a complete cycle
    # (registers latched), so the counter continues; with en = 0 the assertion stays quiet
    more = 4
    for t in range(more):
        try:
            sim.step({'en': 0})
        except Exception as e:
            return dict(failed=True, observed='%s at cycle %d after the assertion' % (type(e).__name__, steps_taken + t),
                        expected='no exception (assertion wire is 1)')
    exp_o = [t % (1 << width) for t in range(steps_taken + more)]
    if list(tr.trace['o']) != exp_o:
        return dict(failed=True, observed=dict(o_after_continuing=list(tr.trace['o'])), expected=exp_o)
    return dict(failed=False, observed=dict(raised_at=raised_at), expected=dict(raised_at=fail_at))


def illegal_inputs(simname='Simulation', bw=4):
    """an input value outside [0, 2**bw) is rejected with PyrtlError by every simulator;
    boundary legal values are accepted and simulated"""
    import pyrtl
    probs = []
    for val, legal in [(0, True), ((1 << bw) - 1, True), (1 << bw, False), ((1 << bw) + 5, False),
                       (-1, False), (-(1 << bw), False), (1 << (bw + 64), False), (1 << (bw - 1), True)]:
        pyrtl.reset_working_block()
        a = pyrtl.Input(bw, 'a')
        b = pyrtl.Input(2, 'b')
        o = pyrtl.Output(bw, 'o')
        o <<= a
        o2 = pyrtl.Output(2, 'o2')
        o2 <<= b
        sim = _mk(simname, pyrtl.working_block())
        try:
            sim.step({'a': val, 'b': 1})
            accepted = True
            got = sim.inspect('o')
        except pyrtl.PyrtlError:
            accepted = False
            got = None
        except Exception as e:
            probs.append('value %d: %s instead of PyrtlError' % (val, type(e).__name__))
            continue
        if accepted != legal:
            probs.append('value %d for a %d-bit Input: %s' % (val, bw, 'accepted (o=%r)' % got
                                                              if accepted else 'rejected'))
        elif legal and got != val:
            probs.append('value %d simulated as %r' % (val, got))
    # an illegal value is refused whatever the simulator already holds for that input: equal to the
    # construction default_value, or equal to the value of the previous step
    for dv in ((1 << bw) + 1, 1 << bw):
        if simname == 'CompiledSimulation' and dv >= (1 << 64):
            continue          # CompiledSimulation stores default_value in a 64-bit C constant
        pyrtl.reset_working_block()
        a = pyrtl.Input(bw, 'a')
        o = pyrtl.Output(bw, 'o')
        o <<= a
        try:
            sim = _mk(simname, pyrtl.working_block(), default_value=dv)
        except pyrtl.PyrtlError:
            continue          # refusing the over-wide default at construction is also a refusal
        try:
            sim.step({'a': dv})
            probs.append('value %d accepted for a %d-bit Input when default_value=%d' % (dv, bw, dv))
        except pyrtl.PyrtlError:
            pass
        except Exception as e:
            probs.append('default_value=%d: %s instead of PyrtlError' % (dv, type(e).__name__))
    return dict(failed=bool(probs), observed=probs, expected=[])


def illegal_mid_sequence(simname='Simulation', k=2, with_expected=False):
    """step_multiple with an illegal value at step k >= 1: the error is raised after exactly the k
    legal steps were executed and traced (as single stepping does); the simulation can go on."""
    import io
    import contextlib
    import pyrtl

    def build():
        pyrtl.reset_working_block()
        a = pyrtl.Input(4, 'a')
        r = pyrtl.Register(6, 'r')
        r.next <<= (r + a)[:6]
        o = pyrtl.Output(6, 'o')
        o <<= r + a
        return pyrtl.working_block()
    vals = [1, 2, 3, 4, 5, 6]
    vals[k] = 99
    # reference: single stepping
    b = build()
    sim = _mk(simname, b)
    done = 0
    try:
        for v in vals:
            sim.step({'a': v})
            done += 1
    except pyrtl.PyrtlError:
        pass
    sim.step({'a': 7})
    ref = (done, list(sim.tracer.trace['o']), sim.inspect('o'))
    b = build()
    sim2 = _mk(simname, b)
    raised = False
    kw = dict(provided_inputs={'a': vals})
    if with_expected:
        kw['expected_outputs'] = {'o': ['?'] * len(vals)}
    try:
        with contextlib.redirect_stdout(io.StringIO()):
            sim2.step_multiple(**kw)
    except pyrtl.PyrtlError:
        raised = True
    except Exception as e:
        return dict(failed=True, observed='%s instead of PyrtlError' % type(e).__name__, expected='PyrtlError')
    if not raised:
        return dict(failed=True, observed='illegal value accepted by step_multiple', expected='PyrtlError')
    sim2.step({'a': 7})
    got = (len(sim2.tracer.trace['o']) - 1, list(sim2.tracer.trace['o']), sim2.inspect('o'))
    if got != ref or done != k:
        return dict(failed=True, observed=dict(steps_before_error=got[0], trace=got[1], inspect=got[2]),
                    expected=dict(steps_before_error=ref[0], trace=ref[1], inspect=ref[2]))
    return dict(failed=False, observed='ok', expected='ok')


@__import__('fam.designs', fromlist=['design']).design
def long_names(w=3):
    """outputs and inputs whose names are longer than any column of a report (and share long prefixes)"""
    import pyrtl
    a = pyrtl.Input(w, 'operand_register_a')
    b = pyrtl.Input(w, 'operand_register_b')
    lo = pyrtl.Output(w, 'alu_result_lo')
    hi = pyrtl.Output(w, 'alu_result_hi')
    lo <<= (a + b)[:w]
    hi <<= (a * b)[w:2 * w] if w > 1 else (a & b)
    x = pyrtl.Output(w, 'an_output_wire_with_a_name_of_forty_chars')
    x <<= a ^ b
    y = pyrtl.Output(w, 'an_output_wire_with_a_name_of_forty_char5')
    y <<= a | b


@__import__('fam.designs', fromlist=['design']).design
def vcd_names(w=3):
    """traced wires whose names need sanitising for VCD, next to wires named like their
    punctuation-replaced forms, and names that differ only by where leading zeros sit"""
    import pyrtl
    names = ['alu.sum', 'alu_sum', 'a.b', 'a[b', 'a_b', 'x.y', 'x_y', 's01_2', 's1_02', 's1_2',
             # natural order (d2 < d9 < d10) differs from string order ('d10' < 'd2' < 'd9'); widths differ too
             'd2', 'd10', 'd9', 'q100', 'q20', 'q3']
    ins = [pyrtl.Input(w, 'in%d' % i) for i in range(2)]
    acc = ins[0]
    for i, nm in enumerate(names):
        wv = pyrtl.WireVector(w + (i % 3 if nm[0] in 'dq' else 0), nm)
        wv <<= (acc + i + ins[1])[:w].zero_extended(len(wv)) if len(wv) > w else (acc + i + ins[1])[:w]
        acc = wv[:w]
    o = pyrtl.Output(w, 'out0')
    o <<= acc


def step_multiple_after_warmup(simname='Simulation', warm=3):
    """step_multiple(expected_outputs=...) on a simulation that already ran: correct expectations
    produce no report; one wrong expectation produces exactly that row with the true value"""
    import io
    import contextlib
    import pyrtl

    def build():
        pyrtl.reset_working_block()
        a = pyrtl.Input(3, 'a')
        r = pyrtl.Register(5, 'r')
        r.next <<= (r + a + 1)[:5]
        o = pyrtl.Output(5, 'o')
        o <<= r ^ a
        o2 = pyrtl.Output(3, 'o2')
        o2 <<= a
        return pyrtl.working_block()
    vals = [1, 5, 2, 7, 3, 6, 4]
    b = build()
    ref = _mk(simname, b)
    outs = []
    for v in vals:
        ref.step({'a': v})
        outs.append((ref.inspect('o'), ref.inspect('o2')))
    b = build()
    sim = _mk(simname, b)
    for v in vals[:warm]:
        sim.step({'a': v})
    rest = vals[warm:]
    good = {'o': [x[0] for x in outs[warm:]], 'o2': [x[1] for x in outs[warm:]]}
    buf = io.StringIO()
    try:
        sim.step_multiple({'a': rest}, dict(good), file=buf)
    except Exception as e:
        return dict(failed=True, observed='%s: %s' % (type(e).__name__, str(e)[:100]), expected='no exception')
    if 'Unexpected' in buf.getvalue() or 'unexpected' in buf.getvalue():
        return dict(failed=True, observed=buf.getvalue()[:300], expected='no mismatch report (all expectations correct)')
    b = build()
    sim = _mk(simname, b)
    for v in vals[:warm]:
        sim.step({'a': v})
    bad = {'o': list(good['o']), 'o2': list(good['o2'])}
    k = len(rest) - 1
    bad['o'][k] = (bad['o'][k] + 1) % 32
    buf = io.StringIO()
    sim.step_multiple({'a': rest}, bad, file=buf)
    text = buf.getvalue()
    rows = [ln.split() for ln in text.splitlines() if ln.strip() and ln.split()[0].isdigit()]
    want = [str(k), 'o', str(bad['o'][k]), str(good['o'][k])]
    if rows != [want]:
        return dict(failed=True, observed=dict(rows=rows, text=text[:200]), expected=dict(rows=[want]))
    return dict(failed=False, observed='ok', expected='ok')


def compiled_after_direct_connect(seed=0, nsteps=8):
    """CompiledSimulation on a block whose Outputs are driven directly by logic nets (direct_connect_outputs): every
    wire it traces carries that wire's own values (the Simulation trace of the same block), and a wire it does not
    trace is refused by inspect rather than answered with another wire's value"""
    import pyrtl
    import random
    pyrtl.reset_working_block()
    d, en = pyrtl.Input(4, 'd'), pyrtl.Input(4, 'en')
    acc = pyrtl.Register(4, 'acc', reset_value=0)
    acc.next <<= (acc + d)[:4]
    t = pyrtl.WireVector(4, 'sum_w')
    t <<= acc ^ d
    o = pyrtl.Output(4, 'o')
    o <<= acc & en
    o2 = pyrtl.Output(4, 'o2')
    o2 <<= t | en
    pyrtl.direct_connect_outputs()
    block = pyrtl.working_block()
    rnd = random.Random(seed)
    steps = [dict(d=rnd.getrandbits(4), en=rnd.getrandbits(4)) for _ in range(nsteps)]
    ref = pyrtl.Simulation(tracer=pyrtl.SimulationTrace(wires_to_track='all', block=block), block=block)
    cs = pyrtl.CompiledSimulation(tracer=pyrtl.SimulationTrace(wires_to_track='all', block=block), block=block)
    for s_ in steps:
        ref.step(dict(s_))
        cs.step(dict(s_))
    for name, vals in cs.tracer.trace.items():
        if name in ref.tracer.trace and list(vals) != list(ref.tracer.trace[name]):
            return dict(failed=True, observed=dict(wire=name, compiled=list(vals)), expected=list(ref.tracer.trace[name]))
    for name in ('acc', 'sum_w', 'o', 'o2'):
        try:
            v = cs.inspect(name)
        except pyrtl.PyrtlError:
            continue
        if v != ref.inspect(name):
            return dict(failed=True, observed=dict(inspect=name, compiled=v), expected=ref.inspect(name))
    return dict(failed=False, observed='ok', expected='ok')
