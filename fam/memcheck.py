"""C08 executable contracts (level B): array semantics of MemBlock/RomBlock under every history.
Pure PyRTL."""
import random


def build_mem(aw=1, dw=2, pre=(), style='plain'):
    """style: 'plain' one enabled write port; 'regports' the write port's address / data / enable are
    Registers directly; 'cond' one port built by conditional_assignment from two branches with
    different kinds of write (plain / EnabledWrite)"""
    import pyrtl
    from fam import passes
    pyrtl.reset_working_block()
    ra = pyrtl.Input(aw, 'ra')
    rb = pyrtl.Input(aw, 'rb')
    wa = pyrtl.Input(aw, 'wa')
    wd = pyrtl.Input(dw, 'wd')
    we = pyrtl.Input(1, 'we')
    m = pyrtl.MemBlock(bitwidth=dw, addrwidth=aw, name='m', asynchronous=True, max_read_ports=None,
                       max_write_ports=None)
    o1 = pyrtl.Output(dw, 'o1')
    o2 = pyrtl.Output(dw, 'o2')
    o1 <<= m[ra]
    o2 <<= m[rb]
    if style == 'plain':
        m[wa] <<= pyrtl.MemBlock.EnabledWrite(wd, we)
    elif style == 'regports':
        r_a, r_d, r_e = pyrtl.Register(aw, 'r_a'), pyrtl.Register(dw, 'r_d'), pyrtl.Register(1, 'r_e')
        r_a.next <<= wa
        r_d.next <<= wd
        r_e.next <<= we
        m[r_a] <<= pyrtl.MemBlock.EnabledWrite(r_d, r_e)
    elif style == 'cond':
        c1 = pyrtl.Input(1, 'c1')
        c2 = pyrtl.Input(1, 'c2')
        with pyrtl.conditional_assignment:
            with c1:
                m[wa] |= wd                                       # plain write in branch 1
            with c2:
                m[rb] |= pyrtl.MemBlock.EnabledWrite(~wd, we)      # enabled write in branch 2
    elif style == 'constenable':
        # a port whose enable is the constant 0 (never writes), one whose enable is the constant 1,
        # next to an ordinary enabled port
        m[wa] <<= pyrtl.MemBlock.EnabledWrite(wd, we)
        m[ra] <<= pyrtl.MemBlock.EnabledWrite(~wd, pyrtl.Const(0, bitwidth=1))
    else:
        raise ValueError(style)
    block = pyrtl.working_block()
    mem = m
    for p in pre:
        block, corr = passes.get(p)(block)
    return block, mem


def array_walk(simname='Simulation', aw=1, dw=2, pre=(), seed=0, max_steps=6000, init=None,
               addr_pool=None, style='plain'):
    """One long run; an independent array model (a Python list of 2**aw words) predicts each read
    and the content; the walk continues until every (content, operation) pair of the complete
    space was exercised (small memories) or max_steps. -> replay-style dict"""
    import pyrtl
    rnd = random.Random(seed)
    block, mem = build_mem(aw, dw, pre, style)
    nwords = 2 ** aw
    big = aw > 16
    small = (not big) and nwords * dw <= 4 and style == 'plain'
    pend = (0, 0, 0)          # regports: the registered (address, data, enable), reset to 0
    mask = (1 << dw) - 1
    init = {int(k): v for k, v in (init or {}).items()}
    big = aw > 16
    if big:
        class _Arr(dict):
            def __missing__(self, k):
                return 0
        arr = _Arr(init)
    else:
        arr = [init.get(a, 0) for a in range(nwords)]
    kw = dict(block=block, memory_value_map={mem: dict(init)} if init else {})
    tracer = pyrtl.SimulationTrace(block=block)
    sim = getattr(pyrtl, simname)(tracer=tracer, **kw)
    space = (2 ** dw) ** nwords * (nwords * nwords * nwords * (2 ** dw) * 2) if small else None
    seen = set()
    hist = []
    steps = 0
    while steps < max_steps:
        pick = (lambda: rnd.choice(addr_pool)) if addr_pool else (lambda: rnd.randrange(nwords))
        op = dict(ra=pick(), rb=pick(), wa=pick(), wd=rnd.getrandbits(dw), we=rnd.getrandbits(1))
        if small:
            # steer towards uncovered pairs
            for _ in range(6):
                if (tuple(arr), tuple(sorted(op.items()))) not in seen:
                    break
                op = dict(ra=rnd.randrange(nwords), rb=rnd.randrange(nwords),
                          wa=rnd.randrange(nwords), wd=rnd.getrandbits(dw), we=rnd.getrandbits(1))
            seen.add((tuple(arr), tuple(sorted(op.items()))))
        if style == 'cond':
            op['c1'], op['c2'] = rnd.getrandbits(1), rnd.getrandbits(1)
        hist.append(op)
        sim.step(dict(op))
        exp1, exp2 = arr[op['ra']], arr[op['rb']]      # reads see strictly earlier writes
        got1, got2 = sim.inspect('o1'), sim.inspect('o2')
        if style in ('plain', 'constenable'):
            if op['we']:
                arr[op['wa']] = op['wd']
        elif style == 'regports':
            if pend[2]:
                arr[pend[0]] = pend[1]
            pend = (op['wa'], op['wd'], op['we'])
        else:
            if op['c1']:
                arr[op['wa']] = op['wd']
            elif op['c2'] and op['we']:
                arr[op['rb']] = (~op['wd']) & mask
        steps += 1
        if (got1, got2) != (exp1, exp2):
            return dict(failed=True, observed=dict(step=steps - 1, o1=got1, o2=got2, op=op),
                        expected=dict(o1=exp1, o2=exp2), history_len=len(hist))
        cont = None
        if big:
            # never enumerate a 2**33-word memory: look the touched addresses up one by one
            im = sim.inspect_mem(mem)

            def word(a):
                try:
                    return im[a]
                except KeyError:
                    return 0
            keys = set(arr) | set(addr_pool or ())
            bad = sorted(a for a in keys if word(a) != arr[a])
            if bad:
                return dict(failed=True, observed=dict(step=steps - 1, address=hex(bad[0]), word=word(bad[0]), op=op),
                            expected=dict(word=arr[bad[0]]))
        elif not pre or 'synth' not in pre[0]:
            cont = dict(sim.inspect_mem(mem))
        if cont is not None:
            got = [cont.get(a, 0) for a in range(nwords)]
            if got != arr:
                return dict(failed=True, observed=dict(step=steps - 1, content=got, op=op),
                            expected=dict(content=list(arr)))
        if small and len(seen) == space:
            break
    return dict(failed=False, observed='ok', expected='ok', steps=steps, pairs=len(seen),
                space=space, exhaustive=bool(small and len(seen) == space))


def rom_check(simname='Simulation', kind='list', aw=3, dw=5, pre=(), rounds=2):
    """the ROM is rebuilt `rounds` times in this process under the same name with different contents
    (a history across designs: nothing may be remembered from an earlier design)"""
    for rnd in range(rounds):
        r = _rom_round(simname, kind, aw, dw, pre, rnd)
        if r['failed']:
            r['observed']['round'] = rnd
            return r
    return r


def _rom_round(simname, kind, aw, dw, pre, rnd):
    import pyrtl
    from fam import passes
    pyrtl.reset_working_block()
    mul = (7 + 4 * rnd) if dw <= 8 else (0x9E3779B97F4A7C15D + 2 * rnd)
    table = {a: ((a * mul + 3) | ((1 << (dw - 1)) if a % 3 == 1 else 0)) % (2 ** dw) for a in range(2 ** aw)}
    if kind == 'list':
        data = [table[a] for a in range(2 ** aw)]
    elif kind == 'dict':
        data = dict(table)
    elif kind == 'func':
        data = lambda a: table[a]    # noqa: E731
    elif kind == 'short_list_pad':
        data = [table[a] for a in range(3)]
        table = {a: (table[a] if a < 3 else 0) for a in range(2 ** aw)}
    a = pyrtl.Input(aw, 'a')
    b = pyrtl.Input(aw, 'b')
    rom = pyrtl.RomBlock(bitwidth=dw, addrwidth=aw, romdata=data, name='rom', asynchronous=True,
                         max_read_ports=None, pad_with_zeros=(kind == 'short_list_pad'))
    o = pyrtl.Output(dw, 'o')
    o2 = pyrtl.Output(dw, 'o2')
    o <<= rom[a]
    o2 <<= rom[b]
    # a second ROM with the SAME name and shape but other contents, read through the same address wire
    # (memory names need not be unique; a pass must not confuse the two)
    table2 = {x: (v ^ ((1 << dw) - 1)) if x % 2 else (v + 1) % (2 ** dw) for x, v in table.items()}
    rom2 = pyrtl.RomBlock(bitwidth=dw, addrwidth=aw, romdata=[table2[x] for x in range(2 ** aw)], name='rom',
                          asynchronous=True, max_read_ports=None)
    o3 = pyrtl.Output(dw, 'o3')
    o3 <<= rom2[a]
    block = pyrtl.working_block()
    for p in pre:
        block, _ = passes.get(p)(block)
    sim = getattr(pyrtl, simname)(block=block, tracer=pyrtl.SimulationTrace(block=block))
    for x in range(2 ** aw):
        y = (2 ** aw - 1) - x
        sim.step({'a': x, 'b': y})
        g = (sim.inspect('o'), sim.inspect('o2'), sim.inspect('o3'))
        if g != (table[x], table[y], table2[x]):
            return dict(failed=True, observed=dict(addr=(x, y), value=g),
                        expected=dict(value=(table[x], table[y], table2[x])))
    return dict(failed=False, observed='ok', expected='ok')
