"""C13 cases: rtllib adders and multipliers (combinational).  Spec = exact integer result;
the check compares the zero-extended Output with it, so a result wire too narrow for the exact
value is a failure ("at full precision")."""
import pyrtl
from fam import case
from fam.cases_ops import sgn, _outs

REDUCERS = {'wallace': 'wallace_reducer', 'dada': 'dada_reducer'}
ADDERS = {'kogge': 'kogge_stone', 'ripple': 'ripple_add', 'cla': 'cla_adder'}


def _fn(table, key):
    from pyrtl.rtllib import adders
    return getattr(adders, table[key])


def _adders_build(p):
    from pyrtl.rtllib import adders
    a = pyrtl.Input(p['wa'], 'a')
    b = pyrtl.Input(p['wb'], 'b')
    c = pyrtl.Input(1, 'c')
    pairs = [('kogge', adders.kogge_stone(a, b)), ('kogge_c', adders.kogge_stone(a, b, c)),
             ('ripple', adders.ripple_add(a, b)), ('ripple_c', adders.ripple_add(a, b, c)),
             ('ripple_1', adders.ripple_add(a, b, 1)),
             # the carry in given as a Python value / Const (documented: "WireVector or value")
             ('kogge_1', adders.kogge_stone(a, b, 1)), ('kogge_T', adders.kogge_stone(a, b, True)),
             ('kogge_0', adders.kogge_stone(a, b, 0)), ('kogge_k1', adders.kogge_stone(a, b, pyrtl.Const(1, bitwidth=1))),
             ('cla_1', adders.cla_adder(a, b, 1)), ('ripple_k1', adders.ripple_add(a, b, pyrtl.Const(1, bitwidth=1)))]
    for u in (1, 2, 3, 4):
        pairs.append(('cla%d' % u, adders.cla_adder(a, b, c, la_unit_len=u)))
    pairs.append(('cla_nc', adders.cla_adder(a, b)))
    return _outs(pairs)


def _adders_spec(o, p, ins):
    a, b, c = ins['a'], ins['b'], ins['c']
    d = dict(kogge=a + b, kogge_c=a + b + c, ripple=a + b, ripple_c=a + b + c, ripple_1=a + b + 1,
             cla_nc=a + b, kogge_1=a + b + 1, kogge_T=a + b + 1, kogge_0=a + b, kogge_k1=a + b + 1,
             cla_1=a + b + 1, ripple_k1=a + b + 1)
    for u in (1, 2, 3, 4):
        d['cla%d' % u] = a + b + c
    return d


case('arith.adders', _adders_spec, W=lambda p: max(p['wa'], p['wb']) + 6)(_adders_build)


def _csa_build(p):
    from pyrtl.rtllib import adders
    a = pyrtl.Input(p['wa'], 'a')
    b = pyrtl.Input(p['wb'], 'b')
    c = pyrtl.Input(p['wc'], 'c')
    return _outs([('csa', adders.carrysave_adder(a, b, c)),
                  ('csa_k', adders.carrysave_adder(a, b, c, final_adder=adders.kogge_stone))])


case('arith.carrysave', lambda o, p, ins: dict(csa=ins['a'] + ins['b'] + ins['c'],
                                               csa_k=ins['a'] + ins['b'] + ins['c']),
     W=lambda p: max(p['wa'], p['wb'], p['wc']) + 6)(_csa_build)


def _group_build(p):
    from pyrtl.rtllib import adders
    ws = p['ws']
    ins = [pyrtl.Input(w, 'x%d' % i) for i, w in enumerate(ws)]
    if p.get('dup'):
        ins = ins + [ins[0]]
    r = adders.fast_group_adder(ins, reducer=_fn(REDUCERS, p['reducer']),
                                final_adder=_fn(ADDERS, p['adder']))
    return _outs([('sum', r)])


def _group_spec(o, p, ins):
    s = 0
    for i in range(len(p['ws'])):
        s = s + ins['x%d' % i]
    if p.get('dup'):
        s = s + ins['x0']
    return dict(sum=s)


case('arith.group_adder', _group_spec, W=lambda p: max(p['ws']) + 8)(_group_build)


def _mult_build(p):
    from pyrtl.rtllib import multipliers
    a = pyrtl.Input(p['wa'], 'a')
    b = pyrtl.Input(p['wb'], 'b')
    kw = dict(reducer=_fn(REDUCERS, p['reducer']), adder_func=_fn(ADDERS, p['adder']))
    pairs = [('tree', multipliers.tree_multiplier(a, b, **kw))]
    if p['wa'] > 1 and p['wb'] > 1:
        pairs.append(('stree', multipliers.signed_tree_multiplier(a, b, **kw)))
    return _outs(pairs)


def _mult_spec(o, p, ins):
    a, b = ins['a'], ins['b']
    wa, wb = p['wa'], p['wb']
    d = dict(tree=a * b)
    if wa > 1 and wb > 1:
        d['stree'] = (sgn(o, a, wa) * sgn(o, b, wb)) % (1 << (wa + wb))
    return d


case('arith.tree_mult', _mult_spec, W=lambda p: 2 * (p['wa'] + p['wb']) + 6)(_mult_build)


def _fma_build(p):
    from pyrtl.rtllib import multipliers
    a = pyrtl.Input(p['wa'], 'a')
    b = pyrtl.Input(p['wb'], 'b')
    c = pyrtl.Input(p['wc'], 'c')
    kw = dict(reducer=_fn(REDUCERS, p['reducer']), adder_func=_fn(ADDERS, p['adder']))
    pairs = [('fma', multipliers.fused_multiply_adder(a, b, c, False, **kw))]
    if p.get('general'):
        d = pyrtl.Input(p['wa'], 'd')
        pairs.append(('gfma', multipliers.generalized_fma(((a, b), (d, b)), (c, a), False, **kw)))
        pairs.append(('gfma_mul_only', multipliers.generalized_fma(((a, b), (d, c)), (), False, **kw)))
    return _outs(pairs)


def _fma_spec(o, p, ins):
    a, b, c = ins['a'], ins['b'], ins['c']
    d = dict(fma=a * b + c)
    if p.get('general'):
        d['gfma'] = a * b + ins['d'] * b + c + a
        d['gfma_mul_only'] = a * b + ins['d'] * c
    return d


case('arith.fma', _fma_spec, W=lambda p: 2 * (p['wa'] + p['wb'] + p['wc']) + 8)(_fma_build)


# ----------------------------------------------------------------------------- sequential multipliers
def seq_mult_build(p):
    """Inputs A, B, start; Outputs prod, done."""
    from pyrtl.rtllib import multipliers
    A = pyrtl.Input(p['wa'], 'A')
    B = pyrtl.Input(p['wb'], 'B')
    start = pyrtl.Input(1, 'start')
    if p['kind'] == 'simple':
        acc, done = multipliers.simple_mult(A, B, start)
    else:
        acc, done = multipliers.complex_mult(A, B, p['shifts'], start)
    _outs([('prod', acc), ('done', done)])
