"""C07: conditional_assignment trees.  Enumeration, elaboration with the REAL conditional.py, and
a reference tree interpreter (carrier-generic).  Pure PyRTL.

tree  = list of nodes (one sibling chain);  node = [pred, assigns, children]
pred  = 'p' | 'q' | 'r' | 'O' (otherwise);  assigns = list of target names;  children = tree
targets: 'w' wire (no default -> 0), 'wd' wire with defaults= entry, 'reg' register (keeps its
value), 'regd' register with defaults= entry, 'mem' memory word write (not written when
inactive).  Every assignment gets its own data Input v<k> so the SMT check distinguishes them."""
import itertools

PREDS = ['p', 'q', 'r']                 # predicates of the enumerated trees
ALL_PREDS = PREDS + ['s', 't'] + ['u%d' % i for i in range(13)]   # handmade trees may use more (long sibling chains)
W = 3


def used_preds(nodes):
    """the predicate names a tree mentions (in ALL_PREDS order)"""
    seen = set()

    def walk(ns):
        for pred, _, children in ns:
            if pred != 'O':
                seen.add(pred)
            walk(children)
    walk(nodes)
    return [p for p in ALL_PREDS if p in seen]


def count(nodes):
    return sum(1 + count(c) for _, _, c in nodes)


def assignments(nodes, path=()):
    for i, (pred, asg, children) in enumerate(nodes):
        for tg in asg:
            yield (path + (i,), tg)
        for x in assignments(children, path + (i,)):
            yield x


def gen_chain(depth, budget, targets, asg_sets):
    """all sibling chains with exactly `budget` nodes (including descendants)"""
    if budget == 0:
        yield []
        return
    for pred in PREDS + ['O']:
        for asg in asg_sets:
            for nchild in range(0, budget if depth > 1 else 1):
                for children in (gen_chain(depth - 1, nchild, targets, asg_sets) if depth > 1 else [[]]):
                    if count(children) != nchild:
                        continue
                    for rest in gen_chain(depth, budget - 1 - nchild, targets, asg_sets):
                        yield [[pred, list(asg), children]] + rest


def enumerate_trees(max_nodes=3, depth=2, targets=('w', 'reg')):
    asg_sets = [()]
    for r in range(1, len(targets) + 1):
        asg_sets += list(itertools.combinations(targets, r))
    out = []
    for b in range(1, max_nodes + 1):
        for t in gen_chain(depth, b, targets, asg_sets):
            if any(True for _ in assignments(t)):
                out.append(t)
    return out


def elaborate(tree):
    """Build with the real conditional_assignment. Returns tags {(path, target): input name}.
    Raises PyrtlError when PyRTL rejects the program."""
    import pyrtl
    pyrtl.reset_working_block()
    P = {n: pyrtl.Input(1, n) for n in ALL_PREDS}
    used = sorted(set({'regh': 'regd'}.get(tg.rstrip('!'), tg.rstrip('!')) for _, tg in assignments(tree)))
    w = pyrtl.WireVector(W, 'w')
    wd = pyrtl.WireVector(W, 'wd')
    reg = pyrtl.Register(W, 'reg')
    regd = pyrtl.Register(W, 'regd')
    mem = pyrtl.MemBlock(bitwidth=W, addrwidth=1, name='mem', asynchronous=True)
    dflt_w = pyrtl.Input(W, 'dflt_w')
    dflt_r = pyrtl.Input(W, 'dflt_r')
    maddr = pyrtl.Input(1, 'maddr')
    tags = {}
    vals = {}
    ens = {}
    for k, (path, tg) in enumerate(assignments(tree)):
        nm = 'v%d' % k
        tags[(path, tg)] = nm
        vals[nm] = pyrtl.Input(W, nm)
        if tg.rstrip('!') == 'mem' and k % 2 == 1:
            ens[nm] = pyrtl.Input(1, 'e%d' % k)      # this write carries its own enable

    def walk(nodes, path):
        for i, (pred, asg, children) in enumerate(nodes):
            ctx = pyrtl.otherwise if pred == 'O' else P[pred]
            def assign(tgs):
                for tg_ in tgs:
                    v = vals[tags[(path + (i,), tg_)]]
                    tg = tg_.rstrip('!')
                    if tg == 'w':
                        w.__ior__(v)
                    elif tg == 'wd':
                        wd.__ior__(v)
                    elif tg == 'reg':
                        reg.next |= v
                    elif tg == 'regd':
                        regd.next |= v
                    elif tg == 'regh':
                        regd.next |= regd          # explicit hold of a register that has a default
                    elif tg == 'mem':
                        nm_ = tags[(path + (i,), tg_)]
                        # every write goes through its OWN address wire object (all carry maddr's value): the
                        # target of the exclusion check is the memory, not the address expression
                        ma = pyrtl.WireVector(1, 'ma_' + nm_)
                        ma <<= maddr
                        if nm_ in ens:
                            mem[ma] |= pyrtl.MemBlock.EnabledWrite(v, ens[nm_])
                        else:
                            mem[ma] |= v
            with ctx:
                # a target written 't!' is assigned AFTER the nested blocks of this branch
                assign([t for t in asg if not t.endswith('!')])
                walk(children, path + (i,))
                assign([t for t in asg if t.endswith('!')])
    defaults = {}
    if 'wd' in used:
        defaults[wd] = dflt_w if INT_DEFAULTS is None else INT_DEFAULTS[0] % (1 << W)
    if 'regd' in used:
        defaults[regd] = dflt_r if INT_DEFAULTS is None else INT_DEFAULTS[1] % (1 << W)
    with pyrtl.conditional_assignment(defaults=defaults):
        walk(tree, ())
    # observation: unused targets get a plain driver so the block stays well-formed
    if 'w' not in used:
        w <<= 0
    if 'wd' not in used:
        wd <<= 0
    if 'reg' not in used:
        reg.next <<= reg
    if 'regd' not in used:
        regd.next <<= regd
    for nm, x in (('ow', w), ('owd', wd), ('oreg', reg), ('oregd', regd)):
        o = pyrtl.Output(W, nm)
        o <<= x
    om = pyrtl.Output(W, 'omem')
    om <<= mem[maddr]
    return tags, used


def interp(o, tree, val, tags):
    """Reference semantics.  val: name -> carrier value (predicates p,q,r are 0/1 values).
    Returns {target: [(active condition, value), ...]} in program order."""
    acts = {}

    def walk(nodes, path, enclosing):
        taken = False           # a sibling since the last otherwise was taken
        for i, (pred, asg, children) in enumerate(nodes):
            if pred == 'O':
                active = o.and_(enclosing, o.not_(taken))
                nxt = False
            else:
                pv = val[pred] != 0
                active = o.and_(enclosing, o.not_(taken), pv)
                nxt = o.or_(taken, pv)
            for tg_ in asg:
                nm_ = tags[(path + (i,), tg_)]
                tg = tg_.rstrip('!')
                if tg == 'regh':
                    acts.setdefault('regd', []).append((active, val['__regd']))
                    continue
                acts.setdefault(tg, []).append((active, val[nm_]))
                if tg == 'mem':
                    en_name = 'e' + nm_[1:]
                    en = (val[en_name] != 0) if en_name in val else True
                    acts.setdefault('mem_write', []).append((o.and_(active, en), val[nm_]))
            walk(children, path + (i,), active)
            taken = nxt
    walk(tree, (), True)
    return acts


def expected(o, acts, target, default):
    """value of a target: the (unique) active assignment's value, else default"""
    r = default
    for cond, v in reversed(acts.get(target, [])):
        r = o.ite(cond, v, r)
    return r


def any_active(o, acts, target):
    cs = [c for c, _ in acts.get(target, [])]
    return o.or_(*cs) if cs else False


INT_DEFAULTS = None      # None: the defaults= entries are wires; (wire default, register default): Python ints


def unwrap(t):
    """a task is a tree, or {'W': data width, 'tree': tree[, 'dflt': [int for the wire, int for the register]]};
    sets the module-level data width and the kind of defaults= entries"""
    global W, INT_DEFAULTS
    INT_DEFAULTS = None
    if isinstance(t, dict):
        W = t.get('W', 3)
        if t.get('dflt') is not None:
            INT_DEFAULTS = tuple(t['dflt'])
        return t['tree']
    W = 3
    return t


def default_of(which, val):
    """the declared default of 'wd' / 'regd': the dflt_w / dflt_r input, or the literal int"""
    if INT_DEFAULTS is None:
        return val['dflt_w' if which == 'wd' else 'dflt_r']
    return INT_DEFAULTS[0 if which == 'wd' else 1] % (1 << W)


def replay(tree, inputs, reg0=0, regd0=0, mem0=None):
    """Replayer on the real Simulation: one cycle from the given state, then a second cycle to
    observe registers / memory."""
    import pyrtl
    from spec.ops import IntOps
    tree = _totuple(unwrap(tree))
    try:
        tags, used = elaborate(tree)
    except pyrtl.PyrtlError as e:
        return dict(failed=False, observed='rejected: %s' % str(e)[:80], expected='-')
    except Exception as e:
        return dict(failed=True, observed='%s: %s' % (type(e).__name__, str(e)[:120]),
                    expected='elaborates, or PyrtlError')
    block = pyrtl.working_block()
    mem = [n.op_param[1] for n in block.logic if n.op in 'm@'][0]
    bn = block.wirevector_by_name
    sim = pyrtl.Simulation(register_value_map={bn['reg']: reg0, bn['regd']: regd0},
                           memory_value_map={mem: {int(k): v for k, v in (mem0 or {}).items()}})
    names = [w.name for w in block.wirevector_subset(pyrtl.Input)]
    step = {n: inputs.get(n, 0) for n in names}
    sim.step(step)
    acts = interp(IntOps, tree, dict(step, __regd=regd0), tags)
    exp = dict(ow=expected(IntOps, acts, 'w', 0), owd=expected(IntOps, acts, 'wd', default_of('wd', step)))
    obs = dict(ow=sim.inspect('ow'), owd=sim.inspect('owd'))
    mem_before = {int(k): v for k, v in (mem0 or {}).items()}
    sim.step(step)
    obs['reg_next'] = sim.inspect('oreg')
    obs['regd_next'] = sim.inspect('oregd')
    exp['reg_next'] = expected(IntOps, acts, 'reg', reg0)
    exp['regd_next'] = expected(IntOps, acts, 'regd', default_of('regd', step))
    a = step['maddr']
    old = mem_before.get(a, 0)
    exp['mem_word'] = expected(IntOps, acts, 'mem_write', old)
    obs['mem_word'] = dict(sim.inspect_mem(mem)).get(a, 0)
    for k in list(exp):
        tg = {'ow': 'w', 'owd': 'wd', 'reg_next': 'reg', 'regd_next': 'regd', 'mem_word': 'mem'}[k]
        if tg not in used:
            exp.pop(k)
            obs.pop(k)
    return dict(failed=(obs != exp), observed=obs, expected=exp)


def nonexclusive_accepted(tree):
    """Replayer: a program with two assignments to one target active together must be rejected."""
    import pyrtl
    from spec.ops import IntOps
    tree = _totuple(unwrap(tree))
    try:
        tags, used = elaborate(tree)
    except pyrtl.PyrtlError:
        return dict(failed=False, observed='rejected', expected='rejected')
    up = used_preds(tree)
    for bits in itertools.product([0, 1], repeat=len(up)):
        val = dict.fromkeys(ALL_PREDS, 0)
        val.update(zip(up, bits))
        val.update({v: 0 for v in tags.values()})
        val['__regd'] = 0
        acts = interp(IntOps, tree, val, tags)
        for tg, lst in acts.items():
            if sum(1 for c, _ in lst if c) > 1:
                return dict(failed=True, observed='accepted; %s assigned twice under %r' % (tg, val),
                            expected='PyrtlError')
    return dict(failed=False, observed='accepted and exclusive', expected='-')


def _totuple(t):
    return [[n[0], list(n[1]), _totuple(n[2])] for n in t]


def handmade_trees():
    """Shapes beyond the enumeration budget: several nested chains at the same depth under
    successive parents, with and without `otherwise`, up to depth 3 (state kept per nesting level
    must not leak from one nested chain into the next)."""
    def leaf(pred, *targets):
        return [pred, list(targets), []]
    out = []
    for t1, t2 in (('w', 'reg'), ('w', 'w'), ('reg', 'w'), ('mem', 'mem'), ('wd', 'regd')):
        # p{r / otherwise}  q{s / t}          (all five predicates distinct)
        out.append([['p', [], [leaf('r', t1), leaf('O', t1)]], ['q', [], [leaf('s', t1), leaf('t', t2)]]])
        out.append([['p', [], [leaf('r', t1), leaf('O', t2)]], ['q', [], [leaf('s', t2), leaf('t', t2)]]])
        # p{r / otherwise}  otherwise{s / t / otherwise}
        out.append([['p', [], [leaf('r', t1), leaf('O', t2)]],
                    ['O', [], [leaf('s', t1), leaf('t', t2), leaf('O', t1)]]])
        # three nested chains at the same depth
        out.append([['p', [], [leaf('s', t1), leaf('t', t2)]], ['q', [], [leaf('t', t1), leaf('s', t2)]],
                    ['r', [], [leaf('s', t1), leaf('t', t2), leaf('O', t2)]]])
        # depth 3
        out.append([['p', [], [['q', [], [leaf('r', t1), leaf('O', t2)]],
                               ['s', [], [leaf('t', t1), leaf('r', t2)]]]],
                    ['O', [t2], [leaf('q', t1), leaf('r', t1)]]])
        # an assignment placed after a nested block of the same branch (and nothing else in between)
        out.append([['p', [t2 + '!'], [leaf('q', t1)]], ['r', [t1], []]])
        out.append([['p', [t2 + '!'], [leaf('q', t1), leaf('O', t1)]], ['O', [t2 + '!'], [leaf('s', t1)]]])
        out.append([['p', [], [['q', [t2 + '!'], [leaf('r', t1)]], leaf('s', t1)]]])
        # explicit holds of a register that has a `defaults` entry
        out.append([['p', ['regh'], []], ['q', ['regd'], []]])
        out.append([['p', [t1], [leaf('q', 'regh'), leaf('O', 'regd')]], ['O', ['regh'], []]])
        # an otherwise inside the first member, then later top-level members
        out.append([['p', [t1], [leaf('q', t2), leaf('O', t2)]], ['r', [t1], []],
                    ['O', [], [leaf('s', t1), leaf('t', t2)]]])
    # long sibling chains (6, 7, 9, 10, 13 members): each member must be disabled by EVERY earlier sibling; at top level,
    # nested under a branch, with and without a closing otherwise
    many = ['q', 'r', 's', 't'] + ['u%d' % i for i in range(13)]
    for n in (6, 7, 9, 10, 13):
        t1 = ('w', 'reg', 'mem', 'wd')[n % 4]
        chain = [leaf(many[i], t1) for i in range(n)]
        out.append(chain)
        out.append(chain[:-1] + [leaf('O', t1)])
        out.append([['p', [], chain], leaf('O', t1)])
    return out


def block_sequences(variant='defaults_reuse'):
    """several conditional_assignment blocks in a row (executable contract, all input valuations):
    'defaults_reuse': ONE defaults dict object handed to two blocks - each block applies the declared defaults, and
                      the caller's dict is unchanged afterwards;
    'mem_two_blocks': one memory (two write ports) conditionally written in two separate blocks under independent
                      predicates - accepted, and each port writes under its own predicate."""
    import pyrtl
    pyrtl.reset_working_block()
    a, b = pyrtl.Input(1, 'a'), pyrtl.Input(1, 'b')
    d = pyrtl.Input(3, 'd')
    if variant == 'defaults_reuse':
        x, y = pyrtl.WireVector(3, 'x'), pyrtl.WireVector(3, 'y')
        r = pyrtl.Register(3, 'r', reset_value=2)
        dflt = {x: 5, y: 6, r: 0}
        snapshot = dict(dflt)
        with pyrtl.conditional_assignment(defaults=dflt):
            with a:
                x |= d
        with pyrtl.conditional_assignment(defaults=dflt):
            with b:
                y |= d
                r.next |= d
        if dflt != snapshot or len(dflt) != 3:
            return dict(failed=True, observed="the caller's defaults dict was modified (%d entries left)" % len(dflt),
                        expected='unchanged')
        for nm, w in (('ox', x), ('oy', y), ('or_', r)):
            o = pyrtl.Output(3, nm)
            o <<= w
        sim = pyrtl.Simulation()
        rv = 2
        for va, vb, vd in itertools.product([0, 1], [0, 1], [0, 3, 7]):
            sim.step(dict(a=va, b=vb, d=vd))
            exp = dict(ox=vd if va else 5, oy=vd if vb else 6, or_=rv)
            got = {k: sim.inspect(k) for k in exp}
            if got != exp:
                return dict(failed=True, observed=dict(inputs=(va, vb, vd), **got), expected=exp)
            rv = vd if vb else 0
        return dict(failed=False, observed='ok', expected='ok')
    m = pyrtl.MemBlock(3, 1, 'm', max_write_ports=2, asynchronous=True)
    try:
        with pyrtl.conditional_assignment:
            with a:
                m[0] |= d
        with pyrtl.conditional_assignment:
            with b:
                m[1] |= ~d
    except pyrtl.PyrtlError as e:
        return dict(failed=True, observed='rejected: %s' % str(e)[:80], expected='accepted (separate blocks, separate ports)')
    ra = pyrtl.Input(1, 'ra')
    o = pyrtl.Output(3, 'o')
    o <<= m[ra]
    sim = pyrtl.Simulation()
    model = {0: 0, 1: 0}
    import random
    rnd = random.Random(3)
    for t in range(24):
        va, vb, vd, vr = rnd.getrandbits(1), rnd.getrandbits(1), rnd.getrandbits(3), rnd.getrandbits(1)
        sim.step(dict(a=va, b=vb, d=vd, ra=vr))
        if sim.inspect('o') != model[vr]:
            return dict(failed=True, observed=dict(cycle=t, o=sim.inspect('o')), expected=model[vr])
        if va:
            model[0] = vd
        if vb:
            model[1] = (~vd) & 7
    return dict(failed=False, observed='ok', expected='ok')
