"""Case registry for combinational builder contracts (pure PyRTL, no solver)."""
CASES = {}


class Case(object):
    def __init__(self, kind, build, spec, W=None, pre=None):
        self.kind, self.build, self.spec, self.W, self.pre = kind, build, spec, W, pre


def case(kind, spec, W=None, pre=None):
    def deco(build):
        CASES[kind] = Case(kind, build, spec, W, pre)
        return build
    return deco
