"""Case registry for combinational builder contracts (pure PyRTL, no solver)."""
CASES = {}


class Case(object):
    def __init__(self, kind, build, spec, W=None, pre=None, lens=None):
        self.kind, self.build, self.spec, self.W, self.pre, self.lens = kind, build, spec, W, pre, lens


def case(kind, spec, W=None, pre=None, lens=None):
    def deco(build):
        CASES[kind] = Case(kind, build, spec, W, pre, lens)
        return build
    return deco
