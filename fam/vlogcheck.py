"""C05 helpers (pure PyRTL + spec/vsem with the Python-int back end)."""
import io


def name_map(block):
    """original wire name -> emitted Verilog identifier.  Assumption (stated in evidence): the
    mapping is the exporter's own sanitiser applied in name order."""
    from pyrtl.importexport import _VerilogSanitizer
    s = _VerilogSanitizer('_ver_out_tmp_')
    out = {}
    for w in sorted(block.wirevector_set, key=lambda w: w.name):
        out[w.name] = s.make_valid_string(w.name)
    return out


class ForeignExportDiffers(Exception):
    pass


def export(block, add_reset):
    """the module text of `block`; exported once with `block` as it is (working block or not) and once while an
    unrelated empty block is the working block - the text must not depend on which block is the working one"""
    import pyrtl
    f = io.StringIO()
    pyrtl.output_to_verilog(f, add_reset=add_reset, block=block)
    native = f.getvalue()
    f2 = io.StringIO()
    with pyrtl.set_working_block(pyrtl.Block(), no_sanity_check=True):
        pyrtl.output_to_verilog(f2, add_reset=add_reset, block=block)
    if f2.getvalue() != native:
        import difflib
        d = [l for l in difflib.unified_diff(native.splitlines(), f2.getvalue().splitlines(), lineterm='', n=0)][2:8]
        raise ForeignExportDiffers('output_to_verilog(block=b) differs when b is not the working block: %s' % d)
    return native


@__import__('fam.designs', fromlist=['design']).design
def odd_names(w=3):
    """wires whose names need sanitising, a reserved word, a clk-like name"""
    import pyrtl
    a = pyrtl.Input(w, 'a[0]')
    b = pyrtl.Input(w, 'x.y')
    c = pyrtl.Input(w, 'always')
    r = pyrtl.Register(w, 'reg', reset_value=3)
    r.next <<= a ^ b
    t = pyrtl.WireVector(w, 'clock_1')
    t <<= r + c
    o = pyrtl.Output(w, 'out put')
    o <<= t
    o2 = pyrtl.Output(w + 1, 'o2')
    o2 <<= a - c
    # names whose natural order differs from their string order (acc[2] < acc[10] vs 'acc[10]' < 'acc[2]')
    d2, d10 = pyrtl.Input(w, 'acc[2]'), pyrtl.Input(w, 'acc[10]')
    o3 = pyrtl.Output(w, 'res[10]')
    o3 <<= d2 & ~d10
    o4 = pyrtl.Output(w, 'res[9]')
    o4 <<= d10 | d2
    # an odd name next to a wire literally named like its underscore-substituted form, a leading digit next to
    # its underscore-prefixed form, `clk` look-alikes
    e1, e2, e3, e4 = pyrtl.Input(w, 'a.b'), pyrtl.Input(w, 'a_b'), pyrtl.Input(w, '1st'), pyrtl.Input(w, '_1st')
    e5, e6 = pyrtl.Input(w, 'bus[0]'), pyrtl.Input(w, 'bus_0_')
    o6 = pyrtl.Output(w, 'clk_0')
    o6 <<= (e1 ^ e3) & e5
    o7 = pyrtl.Output(w, 'r-s')
    o7 <<= (e2 + e4 + e6)[:w]
    o8 = pyrtl.Output(w, 'r_s')
    o8 <<= e2 | e4
    # names with non-ASCII letters / digits (word characters for Python's \\w, not for Verilog)
    u1, u2 = pyrtl.Input(w, 'entr\u00e9e'), pyrtl.Input(w, 'x\u00b2')
    o5 = pyrtl.Output(w, 'r\u00e9sultat')
    o5 <<= u1 ^ u2


@__import__('fam.designs', fromlist=['design']).design
def extended_after_export(base='counter', params=None):
    """a design that was already exported once (module, testbench, FIRRTL-free) and then extended in the same
    block: an export must describe the block as it is NOW (no state kept from an earlier export)"""
    import pyrtl
    from fam import designs
    designs.DESIGNS[base](**(params or {}))
    block = pyrtl.working_block()
    for ar in (True, False):
        pyrtl.output_to_verilog(io.StringIO(), add_reset=ar, block=block)
    ins = sorted(block.wirevector_subset(pyrtl.Input), key=lambda w: w.name)
    sim = pyrtl.Simulation(tracer=pyrtl.SimulationTrace(block=block), block=block)
    sim.step({w.name: 0 for w in ins})
    pyrtl.output_verilog_testbench(io.StringIO(), simulation_trace=sim.tracer, block=block)
    # the extension: a new input, register, memory and two outputs
    hx = pyrtl.Input(2, 'hx')
    hr = pyrtl.Register(2, 'hr', reset_value=1)
    hr.next <<= hx ^ hr
    hm = pyrtl.MemBlock(2, 1, 'hm', asynchronous=True)
    hm[hx[0]] <<= pyrtl.MemBlock.EnabledWrite(hr, hx[1])
    hy = pyrtl.Output(2, 'hy')
    hy <<= hr + hx if not ins else (hr ^ hx ^ ins[0][:1].zero_extended(2))
    hz = pyrtl.Output(2, 'hz')
    hz <<= hm[hx[1]]


def module_replay(design, add_reset, inputs, regs, mems):
    """Replayer: the exported module, interpreted with spec/vsem (Python ints), against the real
    Simulation for one cycle + next state."""
    import pyrtl
    from fam import designs
    from spec import vsem
    mems = {k: {int(a): v for a, v in d.items()} for k, d in (mems or {}).items()}
    block = designs.build(design)
    nm = name_map(block)
    text = export(block, add_reset)
    m = vsem.parse_module(text)
    be = vsem.IntBE()
    regobjs = {r.name: r for r in block.wirevector_subset(pyrtl.Register)}
    memobjs = {}
    for n in block.logic:
        if n.op in 'm@':
            memobjs['mem_%d' % n.op_param[1].id] = n.op_param[1]
    vregs = {nm[rn]: (regs.get(rn, 0), regobjs[rn].bitwidth) for rn in regobjs}
    vmem = {}
    for mn, mo in memobjs.items():
        if isinstance(mo, pyrtl.RomBlock):
            vmem[mn] = {a: v for a, (v, _) in m.rom_init.get(mn, {}).items()}
        else:
            vmem[mn] = dict(mems.get(mo.name, {}))
    vin = {nm[w.name]: (inputs.get(w.name, 0), w.bitwidth) for w in block.wirevector_subset(pyrtl.Input)}
    env, nregs, writes = vsem.step(m, vregs, vmem, vin, be)
    sim = pyrtl.Simulation(block=block, register_value_map={regobjs[k]: v for k, v in regs.items() if k in regobjs},
                           memory_value_map={mo: dict(mems.get(mo.name, {})) for mo in memobjs.values()
                                             if not isinstance(mo, pyrtl.RomBlock)})
    step = {w.name: inputs.get(w.name, 0) for w in block.wirevector_subset(pyrtl.Input)}
    sim.step(step)
    obs, exp = {}, {}
    for o in block.wirevector_subset(pyrtl.Output):
        obs[o.name] = env[nm[o.name]][0]
        exp[o.name] = sim.inspect(o.name)
    sim.step(step)
    for rn, r in regobjs.items():
        obs['next(%s)' % rn] = nregs[nm[rn]][0]
        exp['next(%s)' % rn] = sim.inspect(rn)
    return dict(failed=(obs != exp), observed=obs, expected=exp)


def static_replay(design, add_reset):
    """Replayer for the static clauses: declared widths, reset values, ROM contents, ports."""
    import pyrtl
    from fam import designs
    from spec import vsem
    block = designs.build(design)
    try:
        text = export(block, add_reset)
    except ForeignExportDiffers as e:
        return dict(failed=True, observed=str(e)[:400], expected='the same text whichever block is the working block')
    try:
        m = vsem.parse_module(text)
    except vsem.VError as e:
        # the emitted text is outside the Verilog-2001 subset the exporter is specified to produce
        return dict(failed=True, observed='emitted module is not legal Verilog-2001 (%s)' % str(e)[:120],
                    expected='a module in the emitted subset')
    probs = static_problems(block, m, add_reset)
    return dict(failed=bool(probs), observed=probs, expected=[])


V2001_KEYWORDS = set('''always and assign automatic begin buf bufif0 bufif1 case casex casez cell cmos config
deassign default defparam design disable edge else end endcase endconfig endfunction endgenerate endmodule
endprimitive endspecify endtable endtask event for force forever fork function generate genvar highz0 highz1 if
ifnone incdir include initial inout input instance integer join large liblist library localparam macromodule medium
module nand negedge nmos nor noshowcancelled not notif0 notif1 or output parameter pmos posedge primitive pull0
pull1 pulldown pullup pulsestyle_onevent pulsestyle_ondetect rcmos real realtime reg release repeat rnmos rpmos
rtran rtranif0 rtranif1 scalared showcancelled signed small specify specparam strong0 strong1 supply0 supply1
table task time tran tranif0 tranif1 tri tri0 tri1 triand trior trireg unsigned use vectored wait wand weak0 weak1
while wire wor xnor xor'''.split())


@__import__('fam.designs', fromlist=['design']).design
def keyword_names(part=0, parts=4):
    """one wire per Verilog-2001 keyword (Inputs, a Register, an Output and internal wires named like keywords)"""
    import pyrtl
    kws = sorted(V2001_KEYWORDS)[part::parts]
    acc = None
    for i, k in enumerate(kws):
        if i % 7 == 3:
            w = pyrtl.WireVector(2, k)
            w <<= acc
            acc = w
        elif i % 7 == 5:
            r = pyrtl.Register(2, k)
            r.next <<= acc
            acc = r ^ acc
        else:
            a = pyrtl.Input(2, k)
            acc = a if acc is None else (acc + a)[:2]
    o = pyrtl.Output(2, 'o_' + kws[0])
    o <<= acc


def illegal_identifiers(names):
    """names that are not Verilog-2001 simple identifiers (ASCII letters, digits, _ and $, not
    starting with a digit or $, not a keyword) - judged independently of the exporter's sanitiser"""
    import re
    bad = []
    for n in names:
        if not re.fullmatch(r'[A-Za-z_][A-Za-z0-9_$]*', n, flags=re.ASCII) or n in V2001_KEYWORDS:
            bad.append(n)
    return sorted(set(bad))


def static_problems(block, m, add_reset):
    import pyrtl
    nm = name_map(block)
    probs = []
    bad = illegal_identifiers(list(m.ports) + list(m.inputs) + list(m.outputs) + list(m.regs) + list(m.wires) +
                              list(m.mems))
    if bad:
        probs.append('identifiers that are not legal Verilog-2001: %s' % bad[:5])
    for cls, table in ((pyrtl.Input, m.inputs), (pyrtl.Output, m.outputs), (pyrtl.Register, m.regs)):
        for w in block.wirevector_subset(cls):
            if table.get(nm[w.name]) != w.bitwidth:
                probs.append('%s %s declared %r bits, is %d' % (cls.__name__, w.name, table.get(nm[w.name]), w.bitwidth))
    for w in block.wirevector_subset(exclude=(pyrtl.Input, pyrtl.Output, pyrtl.Register)):
        if m.wires.get(nm[w.name]) != w.bitwidth:
            probs.append('wire %s declared %r bits, is %d' % (w.name, m.wires.get(nm[w.name]), w.bitwidth))
    expect_ports = ['clk'] + (['rst'] if add_reset else [])
    if m.ports[:len(expect_ports)] != expect_ports:
        probs.append('ports start with %r' % m.ports[:2])
    if sorted(m.ports[len(expect_ports):]) != sorted(nm[w.name] for w in block.wirevector_subset((pyrtl.Input, pyrtl.Output))):
        probs.append('module ports are not exactly the Inputs and Outputs')
    if add_reset:
        want = 'async' if add_reset == 'asynchronous' else 'sync'
        if block.logic_subset('r') and m.reset_mode != want:
            probs.append('reset mode %r, expected %r' % (m.reset_mode, want))
        for r in block.wirevector_subset(pyrtl.Register):
            exp = r.reset_value if r.reset_value is not None else 0
            if m.reg_resets.get(nm[r.name]) != exp:
                probs.append('register %s resets to %r, reset_value is %r' % (r.name, m.reg_resets.get(nm[r.name]), exp))
    elif m.reset_mode is not None:
        probs.append('reset logic emitted although add_reset=False')
    for r in block.wirevector_subset(pyrtl.Register):
        if nm[r.name] not in m.reg_updates:
            probs.append('register %s has no update' % r.name)
    mems = {}
    for n in block.logic:
        if n.op in 'm@':
            mems['mem_%d' % n.op_param[1].id] = n.op_param[1]
    for mn, mo in mems.items():
        if mn not in m.mems:
            probs.append('memory %s not declared' % mn)
            continue
        if m.mems[mn][0] != mo.bitwidth or m.mems[mn][1] != 2 ** mo.addrwidth:
            probs.append('memory %s declared %r, is %dx%d' % (mn, m.mems[mn][:2], mo.bitwidth, 2 ** mo.addrwidth))
        if isinstance(mo, pyrtl.RomBlock):
            from spec.cycle import rom_value
            for a in range(2 ** mo.addrwidth):
                try:
                    exp = rom_value(mo, a)
                except Exception:
                    continue
                got = m.rom_init.get(mn, {}).get(a)
                if got is None or got[0] != exp or got[1] != mo.bitwidth:
                    probs.append('ROM %s[%d] initialised to %r, romdata gives %d' % (mo.name, a, got, exp))
                    break
    return probs
