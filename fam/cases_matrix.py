"""C19 cases: rtllib Matrix operations against integer-matrix arithmetic.
Matrices are driven from Inputs m0, m1 (one wire of rows*cols*bits each); results are read through
to_wirevector().  Spec: decode -> reference op on Python lists -> (reduce mod 2**result_bits unless
the op promises exactness) -> encode.  Element [r][c] of an R x C matrix with b-bit elements sits
at bit offset ((R-1-r)*C + (C-1-c))*b  (row-major, first element most significant)."""
import json
import pyrtl
from fam import case

_SHAPE = {}      # params key -> (rows, cols, bits) of the result matrix, or ('wire', len)


def _key(p):
    return json.dumps(p, sort_keys=True)


def decode(o, v, r, c, b):
    return [[(v >> (((r - 1 - i) * c + (c - 1 - j)) * b)) % (1 << b) for j in range(c)]
            for i in range(r)]


def encode(m, b, exact):
    r, c = len(m), len(m[0])
    tot = 0
    for i in range(r):
        for j in range(c):
            e = m[i][j]
            if not exact:
                e = e % (1 << b)
            tot = tot + (e << (((r - 1 - i) * c + (c - 1 - j)) * b))
    return tot


def T(m):
    return [list(x) for x in zip(*m)]


def matmul(a, b):
    return [[sum(a[i][k] * b[k][j] for k in range(len(b))) for j in range(len(b[0]))]
            for i in range(len(a))]


def omax(o, xs):
    r = xs[0]
    for x in xs[1:]:
        r = o.ite(x > r, x, r)
    return r


def omin(o, xs):
    r = xs[0]
    for x in xs[1:]:
        r = o.ite(x < r, x, r)
    return r


def oargmax(o, xs):
    best, idx = xs[0], 0
    for i, x in enumerate(xs[1:], 1):
        idx = o.ite(x > best, i, idx)
        best = o.ite(x > best, x, best)
    return idx


def reduce_axis(o, m, axis, f):
    if axis is None:
        return f([x for row in m for x in row])
    if axis == 0:
        return [[f([m[i][j] for i in range(len(m))]) for j in range(len(m[0]))]]
    return [[f(row) for row in m]]


def flat(m, order):
    if order == 'C':
        return [x for row in m for x in row]
    return [m[i][j] for j in range(len(m[0])) for i in range(len(m))]


def unflat(f, r, c, order):
    if order == 'C':
        return [f[i * c:(i + 1) * c] for i in range(r)]
    out = [[0] * c for _ in range(r)]
    ix = 0
    for j in range(c):
        for i in range(r):
            out[i][j] = f[ix]
            ix += 1
    return out


def ref(o, p, ms):
    """reference result (list of lists, or a scalar) on decoded matrices"""
    op = p['op']
    a = ms[0]
    b = ms[1] if len(ms) > 1 else None
    if op == 'identity':
        return a
    if op == 'transpose':
        return T(a)
    if op == 'reversed':
        return [row[::-1] for row in a[::-1]]
    if op == 'add':
        return [[x + y for x, y in zip(r1, r2)] for r1, r2 in zip(a, b)]
    if op == 'sub':
        return [[o.ite(x > y, x - y, 0) for x, y in zip(r1, r2)] for r1, r2 in zip(a, b)]
    if op == 'mul':
        return [[x * y for x, y in zip(r1, r2)] for r1, r2 in zip(a, b)]
    if op == 'mul_scalar':
        s = ms[1][0][0]
        return [[x * s for x in row] for row in a]
    if op == 'mul_const':
        return [[x * p['k'] for x in row] for row in a]
    if op == 'matmul':
        return matmul(a, b)
    if op == 'dot':
        # documented: 1x1 operand -> elementwise multiply; two vectors (row or column) -> inner
        # product; otherwise matrix multiply
        one_a = len(a) == 1 and len(a[0]) == 1
        one_b = len(b) == 1 and len(b[0]) == 1
        if one_a and one_b:
            return a[0][0] * b[0][0]                       # two 1x1 operands: a scalar
        if one_a:
            return [[a[0][0] * y for y in row] for row in b]
        if one_b:
            return [[x * b[0][0] for x in row] for row in a]
        va = len(a) == 1 or len(a[0]) == 1
        vb = len(b) == 1 or len(b[0]) == 1
        if va and vb:
            fa = [x for row in a for x in row]
            fb = [x for row in b for x in row]
            return sum(x * y for x, y in zip(fa, fb))
        return matmul(a, b)
    if op == 'pow':
        k = p['k']
        n = len(a)
        if k == 0:
            return [[1 if i == j else 0 for j in range(n)] for i in range(n)]
        r = a
        for _ in range(k - 1):
            r = matmul(r, a)
        return r
    if op in ('sum', 'min', 'max', 'argmax'):
        f = {'sum': lambda xs: sum(xs[1:], xs[0]), 'min': lambda xs: omin(o, xs),
             'max': lambda xs: omax(o, xs), 'argmax': lambda xs: oargmax(o, xs)}[op]
        return reduce_axis(o, a, p.get('axis'), f)
    if op == 'setitem_widen':
        ob = p['shapes'][0][2]
        return [[x % (1 << ob) for x in b[0]]] + [list(row) for row in a[1:]]
    if op == 'flatten':
        return [flat(a, p.get('order', 'C'))]
    if op == 'reshape':
        nr, nc = p['newshape']
        tot = len(a) * len(a[0])
        if nr == -1:
            nr = tot // nc
        if nc == -1:
            nc = tot // nr
        return unflat(flat(a, p.get('order', 'C')), nr, nc, p.get('order', 'C'))
    if op == 'hstack':
        return [r1 + r2 for r1, r2 in zip(a, b)]
    if op == 'vstack':
        return a + b
    if op == 'getitem':
        k = p['key']
        rows = list(range(len(a)))
        cols = list(range(len(a[0])))

        def sel(idx, kk):
            if isinstance(kk, list):
                return idx[slice(*kk)], True
            return [idx[kk]], False
        if isinstance(k, dict):      # {'r':..., 'c':...}
            rs, rslice = sel(rows, k['r'])
            cs, cslice = sel(cols, k['c'])
            if not rslice and not cslice:
                return a[rs[0]][cs[0]]
            return [[a[i][j] for j in cs] for i in rs]
        rs, rslice = sel(rows, k)
        return [a[i] for i in rs]
    if op == 'setitem':
        k = p['key']
        out = [list(row) for row in a]
        out[k[0]][k[1]] = ms[1][0][0]
        return out
    if op == 'put':
        out = [list(row) for row in a]
        cnt = len(a) * len(a[0])
        cols = len(a[0])
        for vi, ix in enumerate(p['ind']):
            if ix < 0:
                ix = cnt + ix
            if ix < 0 or ix >= cnt:
                ix = ix % cnt if p['mode'] == 'wrap' else (0 if ix < 0 else cnt - 1)
            out[ix // cols][ix % cols] = b[0][vi]
        return out
    raise KeyError(op)


EXACT = {'add', 'mul', 'mul_scalar', 'mul_const', 'matmul'}


def _build(p):
    from pyrtl.rtllib import matrix as M
    mats = []
    for k, (r, c, b) in enumerate(p['shapes']):
        w = pyrtl.Input(r * c * b, 'm%d' % k)
        mats.append(M.Matrix(r, c, b, value=w, max_bits=p.get('max_bits', 64)))
    op = p['op']
    a = mats[0]
    b = mats[1] if len(mats) > 1 else None
    if p.get('self2'):
        b = a          # the SAME Matrix object in both operand positions
    if p.get('inplace'):
        # history on one object: observe it (to_wirevector / copy / element read), then update in place
        a.to_wirevector()
        a.copy()
        a[0, 0]
        if op == 'add':
            a += b
        elif op == 'sub':
            a -= b
        elif op == 'mul':
            a *= b
        elif op == 'matmul':
            a @= b
        elif op == 'pow':
            a **= p['k']
        else:
            raise KeyError(op)
        res = a
    elif op == 'identity':
        res = a
    elif op == 'transpose':
        res = a.transpose()
    elif op == 'reversed':
        res = reversed(a)
    elif op == 'add':
        res = a + b
    elif op == 'sub':
        res = a - b
    elif op == 'mul':
        res = a * b
    elif op == 'mul_scalar':
        res = a * b[0, 0]
    elif op == 'mul_const':
        # scalar factor given as a Const object (minimal or explicit bitwidth) or as a plain wire of a Const
        k = p['k']
        kc = pyrtl.Const(k) if not p.get('kbw') else pyrtl.Const(k, bitwidth=p['kbw'])
        res = a * kc
    elif op == 'matmul':
        res = a @ b
    elif op == 'dot':
        res = M.dot(a, b)
    elif op == 'pow':
        res = a ** p['k']
    elif op in ('sum', 'min', 'max', 'argmax'):
        kw = {'bits': p['rbits']} if p.get('rbits') else {}
        res = getattr(M, op)(a, axis=p.get('axis'), **kw)
    elif op == 'setitem_widen':
        # a history on one object: a row is assigned from a wider matrix (truncated to the element width
        # at that moment), later the element width is raised
        a[0, :] = b
        a.bits = p['newbits']
        res = a
    elif op == 'flatten':
        res = a.flatten(order=p.get('order', 'C'))
    elif op == 'reshape':
        res = a.reshape(*p['newshape'], order=p.get('order', 'C'))
    elif op == 'hstack':
        res = M.hstack(a, b)
    elif op == 'vstack':
        res = M.vstack(a, b)
    elif op == 'getitem':
        k = p['key']

        def mk(kk):
            return slice(*kk) if isinstance(kk, list) else kk
        res = a[mk(k['r']), mk(k['c'])] if isinstance(k, dict) else a[mk(k)]
    elif op == 'setitem':
        a[p['key'][0], p['key'][1]] = b[0, 0]
        res = a
    elif op == 'put':
        a.put(p['ind'], b, mode=p['mode'])
        res = a
    else:
        raise KeyError(op)
    o = None
    if isinstance(res, M.Matrix):
        _SHAPE[_key(p)] = (res.rows, res.columns, res.bits)
        wv = res.to_wirevector()
        o = pyrtl.Output(len(wv), 'o')
        o <<= wv
        return {'o': len(o), 'rows': res.rows, 'cols': res.columns}
    else:
        res = pyrtl.as_wires(res)
        _SHAPE[_key(p)] = ('wire', len(res))
        o = pyrtl.Output(len(res), 'o')
        o <<= res
    return {'o': len(o), 'rows': 1, 'cols': 1}      # a scalar counts as 1 x 1


def _spec(o, p, ins):
    ms = [decode(o, ins['m%d' % k], r, c, b) for k, (r, c, b) in enumerate(p['shapes'])]
    if p.get('self2'):
        ms = [ms[0], ms[0]]
    shp = _SHAPE[_key(p)]
    r = ref(o, p, ms)
    exact = p['op'] in EXACT and not p.get('saturates_max_bits')
    if shp[0] == 'wire':
        while isinstance(r, list):
            if len(r) != 1:
                raise ValueError('scalar result expected, reference gives %r' % (r,))
            r = r[0]
        return dict(o=r if exact else r % (1 << shp[1]))
    rr, rc, rb = shp
    if not isinstance(r, list):
        r = [[r]]
    if len(r) != rr or len(r[0]) != rc:
        raise ValueError('result shape %dx%d, reference %dx%d' % (rr, rc, len(r), len(r[0])))
    return dict(o=encode(r, rb, exact))


def _W(p):
    tot = max(r * c * b for (r, c, b) in p['shapes'])
    shp = _SHAPE.get(_key(p))
    out = shp[1] if shp and shp[0] == 'wire' else (shp[0] * shp[1] * shp[2] if shp else 64)
    mb = max(b for (_, _, b) in p['shapes'])
    return max(tot, out) + 2 * mb * max(p.get('k', 1), 1) + 10


def _shape_lens(p):
    """expected result shape, from the reference operation on zero matrices (0 x 0 = scalar)"""
    from spec.ops import IntOps
    ms = [[[0] * c for _ in range(r)] for (r, c, b) in p['shapes']]
    if p.get('self2'):
        ms = [ms[0], ms[0]]
    r = ref(IntOps, p, ms)
    if not isinstance(r, list):
        return {'rows': 1, 'cols': 1}
    return {'rows': len(r), 'cols': len(r[0])}


case('matrix.op', _spec, W=_W, lens=_shape_lens)(_build)
