"""Import every module that registers cases."""
import importlib
import pkgutil
import fam

for m in pkgutil.iter_modules(fam.__path__):
    if m.name.startswith('cases_'):
        importlib.import_module('fam.' + m.name)
