"""C14 cases: multiplexing and bit-manipulation helpers."""
import enum
import pyrtl
from fam import case
from fam.cases_ops import _outs, _bits


# ----------------------------------------------------------------------------- mux
def _mux_build(p):
    iw, n, w = p['iw'], p['n'], p['w']
    idx = pyrtl.Input(iw, 'idx')
    ins = [pyrtl.Input(w if i % 2 == 0 else max(1, w - 1), 'd%d' % i) for i in range(n)]
    kw = {}
    if p.get('default'):
        kw['default'] = pyrtl.Input(w, 'dflt')
    if p.get('shared') is not None:
        # the very same object is listed explicitly at these slots AND is the default
        for k in p['shared']:
            ins[k] = kw['default']
    if p.get('lut') is not None:
        ins = list(p['lut'])                      # integer look-up table, default also an int
        kw = {'default': p['lut_default']} if p.get('lut_default') is not None else {}
        # give the result a wire context (all-int inputs are converted by mux itself)
    if p.get('kwform'):
        # the (deprecated) predicate form with keywords, in either keyword order
        pred = pyrtl.Input(1, 'pred')
        t, f = pyrtl.Input(w, 'tc'), pyrtl.Input(w, 'fc')
        r = pyrtl.mux(pred, truecase=t, falsecase=f) if p['kwform'] == 1 else pyrtl.mux(pred, falsecase=f, truecase=t)
        return _outs([('mux', r)])
    return _outs([('mux', pyrtl.mux(idx, *ins, **kw))])


def _mux_spec(o, p, ins):
    n = p['n']
    if p.get('kwform'):
        return dict(mux=o.ite(ins['pred'] != 0, ins['tc'], ins['fc']))
    if p.get('lut') is not None:
        r = p['lut_default'] if p.get('lut_default') is not None else 0
        for i in reversed(range(len(p['lut']))):
            r = o.ite(ins['idx'] == i, p['lut'][i], r)
        return dict(mux=r)
    r = ins['dflt'] if p.get('default') else 0
    shared = set(p.get('shared') or ())
    for i in reversed(range(n)):
        r = o.ite(ins['idx'] == i, ins['dflt'] if i in shared else ins['d%d' % i], r)
    return dict(mux=r)


case('mux.mux', _mux_spec, W=lambda p: p['w'] + p['iw'] + 4,
     lens=lambda p: dict(mux=p['w']) if p.get('lut') is None else {})(_mux_build)


# ----------------------------------------------------------------------------- sparse / enum mux
def _sparse_build(p):
    from pyrtl.rtllib import muxes
    iw, w = p['iw'], p['w']
    idx = pyrtl.Input(iw, 'idx')
    vals = {}
    for k in p['keys']:
        vals[k] = pyrtl.Input(w, 'd%d' % k)
    if p.get('const_dup'):
        # two equal constants on different keys exercise _is_equivalent
        vals[p['keys'][0]] = pyrtl.Const(1, bitwidth=w)
        vals[p['keys'][-1]] = pyrtl.Const(1, bitwidth=w)
    if p.get('default'):
        vals[muxes.SparseDefault] = pyrtl.Input(w, 'dflt')
    return _outs([('smux', muxes.sparse_mux(idx, vals))])


def _sparse_val(o, p, ins, k):
    if p.get('const_dup') and k in (p['keys'][0], p['keys'][-1]):
        return 1
    return ins['d%d' % k]


def _sparse_spec(o, p, ins):
    r = ins['dflt'] if p.get('default') else 0
    for k in reversed(sorted(p['keys'])):
        r = o.ite(ins['idx'] == k, _sparse_val(o, p, ins, k), r)
    return dict(smux=r)


def _sparse_pre(o, p, ins):
    if p.get('default'):
        return o.and_(True)
    # unlisted indices are don't-cares
    return o.or_(*[ins['idx'] == k for k in p['keys']])


case('mux.sparse', _sparse_spec, W=lambda p: p['w'] + p['iw'] + 4, pre=_sparse_pre)(_sparse_build)


class _E(enum.IntEnum):
    A = 0
    B = 1
    C = 3
    D = 2


class _S(enum.IntEnum):      # sparse: values 1 and 2 only
    A = 1
    B = 2


def _enum_cls(p):
    return _S if p.get('sparse') else _E


def _enum_build(p):
    w = p['w']
    idx = pyrtl.Input(p.get('cw', 2), 'idx')
    names = p['names']
    E = _enum_cls(p)
    table = {getattr(E, nm): pyrtl.Input(w, 'd' + nm) for nm in names}
    kw = {}
    if p.get('default') == 'kw':
        kw['default'] = pyrtl.Input(w, 'dflt')
    elif p.get('default') == 'otherwise':
        table[pyrtl.otherwise] = pyrtl.Input(w, 'dflt')
    if len(names) < len(E) and not p.get('default'):
        kw['strict'] = False
    return _outs([('emux', pyrtl.enum_mux(idx, table, **kw))])


def _enum_spec(o, p, ins):
    r = ins['dflt'] if p.get('default') else 0
    for nm in p['names']:
        r = o.ite(ins['idx'] == int(getattr(_enum_cls(p), nm)), ins['d' + nm], r)
    return dict(emux=r)


def _enum_pre(o, p, ins):
    if p.get('default'):
        return o.and_(True)
    return o.or_(*[ins['idx'] == int(getattr(_enum_cls(p), nm)) for nm in p['names']])


case('mux.enum', _enum_spec, W=lambda p: p['w'] + p.get('cw', 2) + 6, pre=_enum_pre)(_enum_build)


# ----------------------------------------------------------------------------- prioritized mux / demux / MultiSelector
def _prio_build(p):
    from pyrtl.rtllib import muxes
    n, w = p['n'], p['w']
    csel = p.get('const_sel') or {}           # {position: 0 / 1}: selects tied to a constant
    sels = [pyrtl.Const(csel[str(i)], bitwidth=1) if str(i) in csel else pyrtl.Input(1, 's%d' % i) for i in range(n)]
    vals = [pyrtl.Input(w, 'v%d' % i) for i in range(n)]
    return _outs([('pmux', muxes.prioritized_mux(sels, vals))])


def _prio_spec(o, p, ins):
    n = p['n']
    csel = p.get('const_sel') or {}
    r = ins['v%d' % (n - 1)]                  # documented: if no select is high the LAST value is returned
    for i in reversed(range(n - 1)):
        s = csel[str(i)] if str(i) in csel else ins['s%d' % i]
        r = o.ite(s != 0, ins['v%d' % i], r) if not isinstance(s, int) else (ins['v%d' % i] if s else r)
    return dict(pmux=r)


case('mux.prioritized', _prio_spec, W=lambda p: p['w'] + 4)(_prio_build)


def _demux_build(p):
    from pyrtl.rtllib import muxes
    s = pyrtl.Input(p['iw'], 'sel')
    outs = muxes.demux(s)
    return _outs([('o%d' % i, w) for i, w in enumerate(outs)])


def _demux_spec(o, p, ins):
    return {'o%d' % i: o.ite(ins['sel'] == i, 1, 0) for i in range(2 ** p['iw'])}


case('mux.demux', _demux_spec, W=lambda p: p['iw'] + 4,
     lens=lambda p: {'o%d' % i: 1 for i in range(2 ** p['iw'])})(_demux_build)


def _msel_build(p):
    from pyrtl.rtllib import muxes
    iw, w = p['iw'], p['w']
    sel = pyrtl.Input(iw, 'sel')
    r0 = pyrtl.WireVector(w, 'r0')
    r1 = pyrtl.WireVector(w + 1, 'r1')
    with muxes.MultiSelector(sel, r0, r1) as ms:
        for k in p['keys']:
            ms.option(k, pyrtl.Input(w, 'a%d' % k), pyrtl.Input(w + 1, 'b%d' % k))
        if p.get('default'):
            ms.default(pyrtl.Input(w, 'adef'), pyrtl.Input(w + 1, 'bdef'))
    return _outs([('r0o', r0), ('r1o', r1)])


def _msel_spec(o, p, ins):
    r0 = ins['adef'] if p.get('default') else 0
    r1 = ins['bdef'] if p.get('default') else 0
    for k in reversed(sorted(p['keys'])):
        r0 = o.ite(ins['sel'] == k, ins['a%d' % k], r0)
        r1 = o.ite(ins['sel'] == k, ins['b%d' % k], r1)
    return dict(r0o=r0, r1o=r1)


def _msel_pre(o, p, ins):
    if p.get('default'):
        return o.and_(True)
    return o.or_(*[ins['sel'] == k for k in p['keys']])


case('mux.multiselector', _msel_spec, W=lambda p: p['w'] + p['iw'] + 5, pre=_msel_pre)(_msel_build)


# ----------------------------------------------------------------------------- bitfield_update
def _bfu_build(p):
    w = p['w']
    a = pyrtl.Input(w, 'a')
    lo, hi = p['lo'], p['hi']
    n = len(list(range(w))[lo:hi])
    v = pyrtl.Input(n, 'v')
    pairs = [('bfu', pyrtl.bitfield_update(a, lo, hi, v))]
    big = pyrtl.Input(n + 2, 'big')
    pairs.append(('bfu_trunc', pyrtl.bitfield_update(a, lo, hi, big, truncating=True)))
    return _outs(pairs)


def _bfu_spec(o, p, ins):
    w, lo, hi = p['w'], p['lo'], p['hi']
    idx = list(range(w))[lo:hi]
    a = ins['a']
    keep = 0
    for i in range(w):
        if i not in idx:
            keep = keep + (((a >> i) & 1) << i)
    n = len(idx)
    return dict(bfu=keep + (ins['v'] << idx[0]),
                bfu_trunc=keep + ((ins['big'] % (1 << n)) << idx[0]))


case('mux.bitfield_update', _bfu_spec, W=lambda p: 2 * p['w'] + 6,
     lens=lambda p: dict(bfu=p['w'], bfu_trunc=p['w']))(_bfu_build)


def _bfus_build(p):
    w = p['w']
    a = pyrtl.Input(w, 'a')
    us = {}
    for i, (lo, hi) in enumerate(p['ranges']):
        n = len(list(range(w))[lo:hi])
        us[(lo, hi)] = pyrtl.Input(n, 'v%d' % i)
    return _outs([('bfus', pyrtl.bitfield_update_set(a, us))])


def _bfus_spec(o, p, ins):
    w = p['w']
    a = ins['a']
    covered = {}
    for i, (lo, hi) in enumerate(p['ranges']):
        idx = list(range(w))[lo:hi]
        for j, b in enumerate(idx):
            covered[b] = (i, j)
    r = 0
    for b in range(w):
        if b in covered:
            i, j = covered[b]
            r = r + (((ins['v%d' % i] >> j) & 1) << b)
        else:
            r = r + (((a >> b) & 1) << b)
    return dict(bfus=r)


case('mux.bitfield_update_set', _bfus_spec, W=lambda p: 2 * p['w'] + 6)(_bfus_build)


# ----------------------------------------------------------------------------- match_bitpattern / chop / partition
def _pat_chars(pattern):
    return ''.join(pattern.replace('_', '').split())


def _mbp_build(p):
    pat = p['pattern']
    ns = _pat_chars(pat)
    a = pyrtl.Input(len(ns), 'a')
    fm = p.get('field_map')
    m, fields = pyrtl.match_bitpattern(a, pat, fm) if fm else pyrtl.match_bitpattern(a, pat)
    pairs = [('match', m)]
    for i, f in enumerate(fields):
        pairs.append(('f%d' % i, f))
    return _outs(pairs)


def _mbp_fields(ns):
    order = []
    for c in ns:
        if c not in '01?' and c not in order:
            order.append(c)
    w = len(ns)
    out = []
    for c in order:
        # bits named c, most significant (leftmost) first -> value with leftmost as msb
        idx_msb_first = [w - 1 - i for i, ch in enumerate(ns) if ch == c]
        out.append(idx_msb_first[::-1])    # lsb first
    return out


def _mbp_spec(o, p, ins):
    ns = _pat_chars(p['pattern'])
    w = len(ns)
    a = ins['a']
    conds = []
    for i, ch in enumerate(ns):
        b = w - 1 - i
        if ch == '0':
            conds.append(((a >> b) & 1) == 0)
        elif ch == '1':
            conds.append(((a >> b) & 1) == 1)
    d = dict(match=o.ite(o.and_(*conds) if conds else True, 1, 0))
    for i, idx in enumerate(_mbp_fields(ns)):
        d['f%d' % i] = _bits(o, a, idx)
    return d


def _mbp_lens(p):
    ns = _pat_chars(p['pattern'])
    d = dict(match=1)
    for i, idx in enumerate(_mbp_fields(ns)):
        d['f%d' % i] = len(idx)
    return d


case('mux.match_bitpattern', _mbp_spec, W=lambda p: len(_pat_chars(p['pattern'])) + 4,
     lens=_mbp_lens)(_mbp_build)


def _chop_build(p):
    from pyrtl.rtllib import libutils
    segs = p['segs']
    w = sum(segs)
    if p.get('const') is not None:
        # a constant operand (Const object, or a Verilog-style string): the helpers accept any wire-like
        a = pyrtl.Const(p['const'], bitwidth=w) if p.get('kind') != 'str' else "%d'd%d" % (w, p['const'])
        en = pyrtl.Input(1, 'en')        # keeps the design parametric in one input
    else:
        a = pyrtl.Input(w, 'a')
    parts = pyrtl.chop(a, *segs)
    pairs = [('c%d' % i, x) for i, x in enumerate(parts)]
    pairs.append(('rejoin', pyrtl.concat(*parts)))
    if p.get('part'):
        ps = libutils.partition_wire(pyrtl.as_wires(a), p['part'])
        pairs += [('p%d' % i, x) for i, x in enumerate(ps)]
        pairs.append(('prejoin', pyrtl.concat_list(ps)))
    return _outs(pairs)


def _chop_spec(o, p, ins):
    segs = p['segs']
    w = sum(segs)
    a = ins['a'] if p.get('const') is None else p['const']
    d = {}
    hi = w
    for i, s in enumerate(segs):
        lo = hi - s
        d['c%d' % i] = (a >> lo) % (1 << s)
        hi = lo
    d['rejoin'] = a
    if p.get('part'):
        k = p['part']
        for i in range(w // k):
            d['p%d' % i] = (a >> (i * k)) % (1 << k)
        d['prejoin'] = a
    return d


def _chop_lens(p):
    d = {'c%d' % i: s for i, s in enumerate(p['segs'])}
    d['rejoin'] = sum(p['segs'])
    if p.get('part'):
        for i in range(sum(p['segs']) // p['part']):
            d['p%d' % i] = p['part']
        d['prejoin'] = sum(p['segs'])
    return d


case('mux.chop', _chop_spec, W=lambda p: sum(p['segs']) + 4, lens=_chop_lens)(_chop_build)


# ----------------------------------------------------------------------------- wire_struct / wire_matrix
def _ws_classes():
    @pyrtl.wire_struct
    class Byte:
        high: 4
        low: 4

    @pyrtl.wire_struct
    class Pixel:
        r: 3
        g: 2
        b: 1

    Word = pyrtl.wire_matrix(component_schema=4, size=3)
    Nested = pyrtl.wire_matrix(component_schema=Pixel, size=2)

    @pyrtl.wire_struct
    class Packet:
        tag: 2
        body: Byte
    return Byte, Pixel, Word, Nested, Packet


def _ws_build(p):
    Byte, Pixel, Word, Nested, Packet = _ws_classes()
    a = pyrtl.Input(8, 'a')
    h = pyrtl.Input(4, 'h')
    lo = pyrtl.Input(4, 'l')
    x = pyrtl.Input(12, 'x')
    b1 = Byte(Byte=a)                      # slicing constructor
    b2 = Byte(high=h, low=lo)              # concatenating constructor
    px = Pixel(Pixel=a[0:6])
    wd = Word(values=[x])
    wd2 = Word(values=[h, lo, h])
    ne = Nested(values=[x])
    pk = Packet(tag=a[0:2], body=a)
    pk2 = Packet(Packet=pyrtl.concat(a, a[0:2]))
    # per-component drivers that are plain WireVectors (operator results) narrower / wider than
    # the field: '<<=' semantics, i.e. zero-extended or truncated to the declared field width
    n2 = h[0:2] ^ lo[0:2]            # 2-bit plain WireVector
    w6 = pyrtl.concat(h, lo[0:2])    # 6-bit plain WireVector
    b3 = Byte(high=n2, low=n2 & lo[0:2])
    b4 = Byte(high=w6, low=w6)
    b5 = Byte(name='nm', high=n2, low=w6)
    wd3 = Word(values=[n2, w6, h ^ lo])
    # slicing constructors driven by Python ints (constant folding path), mixed component widths
    cpx = Pixel(Pixel=0b101101)
    cpk = Packet(Packet=0x2A7)
    cwd = Word(values=[0xB5A])
    cne = Nested(values=[0b110100101011])
    # a matrix of matrices whose inner and outer sizes differ (3 elements of 2 bits per row, 2 rows), and a
    # struct holding such a matrix
    Row = pyrtl.wire_matrix(component_schema=2, size=3)
    Grid = pyrtl.wire_matrix(component_schema=Row, size=2)
    gr = Grid(values=[x])
    gr2 = Grid(values=[pyrtl.concat(h, lo[0:2]), pyrtl.concat(lo, h[0:2])])
    return _outs([
        ('gr_len', pyrtl.as_wires(gr)), ('gr0', pyrtl.as_wires(gr[0])), ('gr1', pyrtl.as_wires(gr[1])),
        ('gr01', gr[0][1]), ('gr12', gr[1][2]), ('gr10', gr[1][0]), ('gr2_all', pyrtl.as_wires(gr2)), ('gr2_02', gr2[0][2]),
        ('cpx_r', cpx.r ^ h[0:3]), ('cpx_g', cpx.g ^ h[0:2]), ('cpx_b', cpx.b ^ h[0:1]),
        ('cpk_tag', cpk.tag ^ h[0:2]), ('cpk_high', cpk.body.high ^ h), ('cpk_low', cpk.body.low ^ h),
        ('cwd0', cwd[0] ^ h), ('cwd1', cwd[1] ^ h), ('cwd2', cwd[2] ^ h),
        ('cne0_r', cne[0].r ^ h[0:3]), ('cne0_g', cne[0].g ^ h[0:2]), ('cne1_b', cne[1].b ^ h[0:1]),
        ('b3_all', pyrtl.as_wires(b3)), ('b3_high', b3.high), ('b4_all', pyrtl.as_wires(b4)),
        ('b5_all', pyrtl.as_wires(b5)), ('wd3_all', pyrtl.as_wires(wd3)), ('wd3_0', wd3[0]),
        ('b1_high', b1.high), ('b1_low', b1.low), ('b1_all', pyrtl.as_wires(b1)),
        ('b2_all', pyrtl.as_wires(b2)), ('b2_high', b2.high), ('b2_low', b2.low),
        ('px_r', px.r), ('px_g', px.g), ('px_b', px.b),
        ('wd0', wd[0]), ('wd1', wd[1]), ('wd2', wd[2]), ('wd_all', pyrtl.as_wires(wd)),
        ('wd2_all', pyrtl.as_wires(wd2)), ('wd2_1', wd2[1]),
        ('ne0_r', ne[0].r), ('ne0_b', ne[0].b), ('ne1_g', ne[1].g), ('ne1', pyrtl.as_wires(ne[1])),
        ('pk_tag', pk.tag), ('pk_body_high', pk.body.high), ('pk_all', pyrtl.as_wires(pk)),
        ('pk2_tag', pk2.tag), ('pk2_body_low', pk2.body.low),
    ])


def _ws_spec(o, p, ins):
    a, h, lo, x = ins['a'], ins['h'], ins['l'], ins['x']
    a6 = a % 64
    n2 = (h % 4) ^ (lo % 4)
    w6 = (h << 2) + (lo % 4)
    extra = dict(b3_all=(n2 << 4) + (n2 & (lo % 4)), b3_high=n2,
                 b4_all=((w6 % 16) << 4) + (w6 % 16), b5_all=(n2 << 4) + (w6 % 16),
                 wd3_all=(n2 << 8) + ((w6 % 16) << 4) + (h ^ lo), wd3_0=n2)
    extra.update(cpx_r=0b101 ^ (h % 8), cpx_g=0b10 ^ (h % 4), cpx_b=1 ^ (h % 2),
                 cpk_tag=0x2 ^ (h % 4), cpk_high=0xA ^ h, cpk_low=0x7 ^ h,
                 cwd0=0xB ^ h, cwd1=0x5 ^ h, cwd2=0xA ^ h,
                 cne0_r=0b110 ^ (h % 8), cne0_g=0b10 ^ (h % 4), cne1_b=1 ^ (h % 2))
    extra.update(gr_len=x, gr0=x >> 6, gr1=x % 64, gr01=(x >> 8) % 4, gr12=x % 4, gr10=(x >> 4) % 4,
                 gr2_all=(((h << 2) + (lo % 4)) << 6) + ((lo << 2) + (h % 4)), gr2_02=lo % 4)
    return dict(extra, 
        b1_high=a >> 4, b1_low=a % 16, b1_all=a,
        b2_all=(h << 4) + lo, b2_high=h, b2_low=lo,
        px_r=a6 >> 3, px_g=(a6 >> 1) % 4, px_b=a6 % 2,
        wd0=x >> 8, wd1=(x >> 4) % 16, wd2=x % 16, wd_all=x,
        wd2_all=(h << 8) + (lo << 4) + h, wd2_1=lo,
        ne0_r=x >> 9, ne0_b=(x >> 6) % 2, ne1_g=(x >> 1) % 4, ne1=x % 64,
        pk_tag=a % 4, pk_body_high=a >> 4, pk_all=((a % 4) << 8) + a,
        pk2_tag=a >> 6, pk2_body_low=(((a << 2) + (a % 4)) % 256) % 16)


case('mux.wire_struct', _ws_spec, W=lambda p: 20,
     lens=lambda p: dict(gr_len=12, gr0=6, gr1=6, gr01=2, gr12=2, gr2_all=12))(_ws_build)
