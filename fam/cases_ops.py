"""C06 cases: WireVector operators and core helpers.  Each case builds several Outputs from Inputs
a (wa bits), b (wb bits) with the REAL operators; the spec gives the exact integer each Output
must show (zero-extended comparison => exactness in the declared width) and the documented
result length."""
import pyrtl
from fam import case


def sgn(o, v, w):
    """two's complement reading of a w-bit value"""
    return o.ite(v >= (1 << (w - 1)), v - (1 << w), v)


def _outs(pairs):
    for name, wire in pairs:
        out = pyrtl.Output(len(wire), name)
        out <<= wire
    return {name: len(wire) for name, wire in pairs}


# ----------------------------------------------------------------------------- binary operators
def _bin_build(p):
    a = pyrtl.Input(p['wa'], 'a')
    b = pyrtl.Input(p['wb'], 'b')
    return _outs([
        ('add', a + b), ('sub', a - b), ('mul', a * b),
        ('and_', a & b), ('or_', a | b), ('xor', a ^ b), ('nand', a.nand(b)),
        ('lt', a < b), ('le', a <= b), ('gt', a > b), ('ge', a >= b), ('eq', a == b),
        ('ne', a != b), ('inv', ~a),
        ('sadd', pyrtl.signed_add(a, b)), ('slt', pyrtl.signed_lt(a, b)),
        ('sle', pyrtl.signed_le(a, b)), ('sgt', pyrtl.signed_gt(a, b)),
        ('sge', pyrtl.signed_ge(a, b)),
    ])


def _bin_lens(p):
    wa, wb = p['wa'], p['wb']
    m = max(wa, wb)
    return dict(add=m + 1, sub=m + 1, mul=wa + wb, and_=m, or_=m, xor=m, nand=m, lt=1, le=1,
                gt=1, ge=1, eq=1, ne=1, inv=wa, sadd=m + 1, slt=1, sle=1, sgt=1, sge=1)


def _bin_spec(o, p, ins):
    a, b = ins['a'], ins['b']
    wa, wb = p['wa'], p['wb']
    m = max(wa, wb)
    sa, sb = sgn(o, a, wa), sgn(o, b, wb)
    return dict(
        add=a + b, sub=(a - b) % (1 << (m + 1)), mul=a * b,
        and_=a & b, or_=a | b, xor=a ^ b, nand=(~(a & b)) % (1 << m),
        lt=o.ite(a < b, 1, 0), le=o.ite(a <= b, 1, 0), gt=o.ite(a > b, 1, 0),
        ge=o.ite(a >= b, 1, 0), eq=o.ite(a == b, 1, 0), ne=o.ite(a != b, 1, 0),
        inv=(~a) % (1 << wa),
        sadd=(sa + sb) % (1 << (m + 1)),
        slt=o.ite(sa < sb, 1, 0), sle=o.ite(sa <= sb, 1, 0),
        sgt=o.ite(sa > sb, 1, 0), sge=o.ite(sa >= sb, 1, 0))


case('ops.binary', _bin_spec, W=lambda p: 2 * (p['wa'] + p['wb']) + 6, lens=_bin_lens)(_bin_build)


def _smul_build(p):
    a = pyrtl.Input(p['wa'], 'a')
    b = pyrtl.Input(p['wb'], 'b')
    return _outs([('smul', pyrtl.signed_mult(a, b))])


def _smul_spec(o, p, ins):
    wa, wb = p['wa'], p['wb']
    return dict(smul=(sgn(o, ins['a'], wa) * sgn(o, ins['b'], wb)) % (1 << (wa + wb)))


case('ops.signed_mult', _smul_spec, W=lambda p: 2 * (p['wa'] + p['wb']) + 6,
     lens=lambda p: dict(smul=p['wa'] + p['wb']))(_smul_build)


# ----------------------------------------------------------------------------- constants as operands
def _kinds_build(p):
    a = pyrtl.Input(p['wa'], 'a')
    k = p['k']
    kw = max(1, k.bit_length())
    vs = "%d'd%d" % (kw, k)
    c = pyrtl.Const(k)
    pairs = [
        ('add_int', a + k), ('radd_int', k + a), ('add_const', a + c), ('add_str', a + vs),
        ('sub_int', a - k), ('rsub_int', k - a), ('sub_const', a - c),
        ('mul_int', a * k), ('and_int', a & k), ('or_int', a | k), ('xor_int', a ^ k),
        ('lt_int', a < k), ('gt_int', a > k), ('eq_int', a == k), ('eq_str', a == vs),
    ]
    if k in (0, 1):
        pairs += [('and_bool', a & bool(k)), ('or_bool', a | bool(k)), ('add_bool', a + bool(k))]
    # verilog-style strings in every base (hex digits incl. the letters that are also base specifiers)
    # constants with an explicit bitwidth wider than their value needs (leading zeros), wider than the wire too
    for pad in (1, 4):
        cw = pyrtl.Const(k, bitwidth=kw + pad)
        sw = "%d'd%d" % (kw + pad, k)
        pairs += [('lt_pad%d' % pad, a < cw), ('gt_pad%d' % pad, a > cw), ('eq_pad%d' % pad, a == cw),
                  ('ne_pad%d' % pad, a != cw), ('le_pad%d' % pad, a <= cw), ('ge_pad%d' % pad, a >= cw),
                  ('lt_spad%d' % pad, a < sw), ('eq_spad%d' % pad, a == sw), ('rlt_pad%d' % pad, cw < a),
                  ('add_pad%d' % pad, a + cw), ('and_pad%d' % pad, a & cw)]
    pairs += [('xor_hex', a ^ ("%d'h%x" % (kw, k))), ('xor_HEX', a ^ ("%d'H%X" % (kw, k))),
              ('xor_bin', a ^ ("%d'b%s" % (kw, bin(k)[2:]))), ('xor_oct', a ^ ("%d'o%o" % (kw, k))),
              ('add_widehex', a + ("%d'h%x" % (kw + 3, k)))]
    return _outs(pairs)


def _kinds_spec(o, p, ins):
    a, k, wa = ins['a'], p['k'], p['wa']
    kw = max(1, k.bit_length())
    m = max(wa, kw)
    d = dict(add_int=a + k, radd_int=a + k, add_const=a + k, add_str=a + k,
             sub_int=(a - k) % (1 << (m + 1)), rsub_int=(k - a) % (1 << (m + 1)),
             sub_const=(a - k) % (1 << (m + 1)),
             mul_int=a * k, and_int=a & k, or_int=a | k, xor_int=a ^ k,
             lt_int=o.ite(a < k, 1, 0), gt_int=o.ite(a > k, 1, 0), eq_int=o.ite(a == k, 1, 0),
             eq_str=o.ite(a == k, 1, 0))
    if k in (0, 1):
        d.update(and_bool=a & k, or_bool=a | k, add_bool=a + k)
    d.update(xor_hex=a ^ k, xor_HEX=a ^ k, xor_bin=a ^ k, xor_oct=a ^ k, add_widehex=a + k)
    for pad in (1, 4):
        d.update({'lt_pad%d' % pad: o.ite(a < k, 1, 0), 'gt_pad%d' % pad: o.ite(a > k, 1, 0),
                  'eq_pad%d' % pad: o.ite(a == k, 1, 0), 'ne_pad%d' % pad: o.ite(a == k, 0, 1),
                  'le_pad%d' % pad: o.ite(a > k, 0, 1), 'ge_pad%d' % pad: o.ite(a < k, 0, 1),
                  'lt_spad%d' % pad: o.ite(a < k, 1, 0), 'eq_spad%d' % pad: o.ite(a == k, 1, 0),
                  'rlt_pad%d' % pad: o.ite(a > k, 1, 0), 'add_pad%d' % pad: a + k, 'and_pad%d' % pad: a & k})
    return d




def _kinds_lens(p):
    wa, k = p['wa'], p['k']
    kw = max(1, k.bit_length())
    m = max(wa, kw)
    d = dict(add_int=m + 1, radd_int=m + 1, add_const=m + 1, add_str=m + 1, sub_int=m + 1,
             rsub_int=m + 1, sub_const=m + 1, mul_int=wa + kw, and_int=m, or_int=m, xor_int=m,
             lt_int=1, gt_int=1, eq_int=1, eq_str=1)
    if k in (0, 1):
        d.update(and_bool=m, or_bool=m, add_bool=m + 1)
    d.update(xor_hex=m, xor_HEX=m, xor_bin=m, xor_oct=m, add_widehex=max(wa, kw + 3) + 1)
    for pad in (1, 4):
        for nm in ('lt', 'gt', 'eq', 'ne', 'le', 'ge', 'rlt'):
            d['%s_pad%d' % (nm, pad)] = 1
        d['lt_spad%d' % pad] = d['eq_spad%d' % pad] = 1
        d['add_pad%d' % pad] = max(wa, kw + pad) + 1
        d['and_pad%d' % pad] = max(wa, kw + pad)
    return d


case('ops.operand_kinds', _kinds_spec, W=lambda p: 2 * (p['wa'] + max(8, p['k'].bit_length() + 4)) + 6,
     lens=_kinds_lens)(_kinds_build)


# ----------------------------------------------------------------------------- slicing / concat / extension
SLICES = [(None, None, None), (1, None, None), (None, -1, None), (None, None, 2), (None, None, -1),
          (-2, None, None), (1, -1, None), (None, None, -2), (2, 0, -1), (0, 1, None),
          (-1, None, None), (None, 2, None), (1, None, 3)]


def _slice_items(w):
    items = []
    for i in sorted(set([0, w - 1, -1, -w, w // 2])):
        items.append(('i', i))
    for (lo, hi, st) in SLICES:
        idx = list(range(w))[slice(lo, hi, st)]
        if idx:
            items.append(('s', (lo, hi, st)))
    return items


def _slice_build(p):
    w = p['w']
    a = pyrtl.Input(w, 'a')
    b = pyrtl.Input(p['wb'], 'b')
    pairs = []
    for n, (kind, key) in enumerate(_slice_items(w)):
        pairs.append(('sl%d' % n, a[key] if kind == 'i' else a[slice(*key)]))
    pairs += [('cat_ab', pyrtl.concat(a, b)), ('cat_aba', pyrtl.concat(a, b, a)),
              ('cat_list', pyrtl.concat_list([a, b])), ('cat_one', pyrtl.concat(a)),
              ('zext', a.zero_extended(w + 3)), ('sext', a.sign_extended(w + 3)),
              ('zext0', a.zero_extended(w)), ('sext0', a.sign_extended(w)),
              ('trunc', a.truncate(max(1, w - 1))), ('trunc_full', a.truncate(w)),
              ('sel', pyrtl.select(b[0], a, b)), ('sel_rev', pyrtl.select(b[0], b, a))]
    ext = pyrtl.WireVector(w + 2, 'ext_w')
    ext <<= a
    tr = pyrtl.WireVector(max(1, w - 1), 'tr_w')
    tr <<= a
    pairs += [('assign_ext', ext), ('assign_trunc', tr)]
    mb1, mb2 = pyrtl.match_bitwidth(a, b)
    ms1, ms2 = pyrtl.match_bitwidth(a, b, signed=True)
    pairs += [('mb1', mb1), ('mb2', mb2), ('ms1', ms1), ('ms2', ms2)]
    return _outs(pairs)


def _bits(o, v, idx):
    r = 0
    for j, i in enumerate(idx):
        r = r + (((v >> i) & 1) << j)
    return r


def _slice_spec(o, p, ins):
    w, wb = p['w'], p['wb']
    a, b = ins['a'], ins['b']
    d = {}
    for n, (kind, key) in enumerate(_slice_items(w)):
        idx = [range(w)[key]] if kind == 'i' else list(range(w))[slice(*key)]
        d['sl%d' % n] = _bits(o, a, idx)
    m = max(w, wb)
    d.update(cat_ab=(a << wb) + b, cat_aba=(((a << wb) + b) << w) + a, cat_list=(b << w) + a,
             cat_one=a, zext=a, sext=sgn(o, a, w) % (1 << (w + 3)), zext0=a, sext0=a,
             trunc=a % (1 << max(1, w - 1)), trunc_full=a,
             sel=o.ite((b & 1) != 0, a, b), sel_rev=o.ite((b & 1) != 0, b, a),
             assign_ext=a, assign_trunc=a % (1 << max(1, w - 1)),
             mb1=a, mb2=b, ms1=sgn(o, a, w) % (1 << m), ms2=sgn(o, b, wb) % (1 << m))
    return d


def _slice_lens(p):
    w, wb = p['w'], p['wb']
    d = {}
    for n, (kind, key) in enumerate(_slice_items(w)):
        d['sl%d' % n] = 1 if kind == 'i' else len(list(range(w))[slice(*key)])
    m = max(w, wb)
    d.update(cat_ab=w + wb, cat_aba=2 * w + wb, cat_list=w + wb, cat_one=w, zext=w + 3,
             sext=w + 3, zext0=w, sext0=w, trunc=max(1, w - 1), trunc_full=w, sel=m, sel_rev=m,
             assign_ext=w + 2, assign_trunc=max(1, w - 1), mb1=m, mb2=m, ms1=m, ms2=m)
    return d


case('ops.slices', _slice_spec, W=lambda p: 2 * p['w'] + p['wb'] + 8, lens=_slice_lens)(_slice_build)


# ----------------------------------------------------------------------------- shifts
def _shift_build(p):
    w, ws = p['w'], p['ws']
    a = pyrtl.Input(w, 'a')
    s = pyrtl.Input(ws, 's')
    pairs = [('sll', pyrtl.shift_left_logical(a, s)), ('sla', pyrtl.shift_left_arithmetic(a, s)),
             ('srl', pyrtl.shift_right_logical(a, s)), ('sra', pyrtl.shift_right_arithmetic(a, s))]
    for k in range(1, w):
        pairs += [('sllk%d' % k, pyrtl.shift_left_logical(a, k)),
                  ('srlk%d' % k, pyrtl.shift_right_logical(a, k)),
                  ('srak%d' % k, pyrtl.shift_right_arithmetic(a, k))]
    return _outs(pairs)


def _shift_spec(o, p, ins):
    w = p['w']
    a, s = ins['a'], ins['s']
    sa = sgn(o, a, w)
    d = dict(sll=(a << s) % (1 << w), sla=(a << s) % (1 << w), srl=a >> s, sra=(sa >> s) % (1 << w))
    for k in range(1, w):
        d['sllk%d' % k] = (a << k) % (1 << w)
        d['srlk%d' % k] = a >> k
        d['srak%d' % k] = (sa >> k) % (1 << w)
    return d


def _shift_lens(p):
    w = p['w']
    d = dict(sll=w, sla=w, srl=w, sra=w)
    for k in range(1, w):
        d['sllk%d' % k] = w
        d['srlk%d' % k] = w
        d['srak%d' % k] = w
    return d


case('ops.shifts', _shift_spec, W=lambda p: p['w'] + (1 << p['ws']) + 4, lens=_shift_lens)(_shift_build)


def _barrel_build(p):
    from pyrtl.rtllib import barrel
    w, ws = p['w'], p['ws']
    a = pyrtl.Input(w, 'a')
    s = pyrtl.Input(ws, 's')
    bit = pyrtl.Input(1, 'bit')
    d = pyrtl.Input(1, 'dir')
    return _outs([('bs', barrel.barrel_shifter(a, bit, d, s))])


def _barrel_spec(o, p, ins):
    w = p['w']
    a, s, bit, d = ins['a'], ins['s'], ins['bit'], ins['dir']
    full = (1 << w) - 1
    ones = o.ite(bit != 0, full, 0)
    # shifting in `bit`: model with the operand extended by w fill bits on both sides
    wide = (ones << (2 * w)) + (a << w) + ones              # fill | a | fill
    up = ((wide << s) >> w) % (1 << w)
    down = ((wide >> s) >> w) % (1 << w)
    sat = o.ite(s >= w, ones, o.ite(d != 0, up, down))
    return dict(bs=sat)


case('ops.barrel', _barrel_spec, W=lambda p: 3 * p['w'] + (1 << p['ws']) + 4,
     lens=lambda p: dict(bs=p['w']))(_barrel_build)


# ----------------------------------------------------------------------------- negative ints as operands
def negative_int_operands(wa=3, k=-3):
    """Executable contract: a negative Python int used directly as an operand is treated exactly like
    `Const(k)` (no bitwidth): refused with PyrtlError iff Const(k) is refused; if accepted, the result is
    the exact result for the constant's value."""
    import pyrtl
    import operator
    pyrtl.reset_working_block()
    try:
        pyrtl.Const(k)
        const_ok = True
    except pyrtl.PyrtlError:
        const_ok = False
    bad = []
    forms = [('a+k', lambda a: a + k), ('k+a', lambda a: k + a), ('a-k', lambda a: a - k), ('k-a', lambda a: k - a),
             ('a*k', lambda a: a * k), ('a&k', lambda a: a & k), ('a|k', lambda a: a | k), ('a^k', lambda a: a ^ k),
             ('a<k', lambda a: a < k), ('a>k', lambda a: a > k), ('a==k', lambda a: a == k),
             ('concat(a,k)', lambda a: pyrtl.concat(a, k)), ('select(a0,k,a)', lambda a: pyrtl.select(a[0], k, a)),
             ('as_wires(k)', lambda a: pyrtl.as_wires(k))]
    for nm, f in forms:
        pyrtl.reset_working_block()
        a = pyrtl.Input(wa, 'a')
        try:
            f(a)
            ok = True
        except pyrtl.PyrtlError:
            ok = False
        if ok != const_ok:
            bad.append(nm)
    return dict(failed=bool(bad), observed=dict(accepted_differently_from_Const=bad, Const_accepted=const_ok),
                expected='every form accepted iff Const(%d) is' % k)


# ----------------------------------------------------------------------------- signed Const objects / literal runs
def _sconst(m):
    """(value pattern, bitwidth) of Const(-m, signed=True), m >= 1: minimal two's-complement width"""
    bw = max((m - 1).bit_length() + 1, 1)
    return (1 << bw) - m, bw


def _sck_build(p):
    a = pyrtl.Input(p['wa'], 'a')
    m = p['m']
    sc = pyrtl.Const(-m, signed=True)
    wide = pyrtl.WireVector(p['wa'] + 3, 'wide')
    wide <<= sc                                   # assignment zero-extends: a signed Const is a raw bit pattern
    return _outs([('add', a + sc), ('radd', sc + a), ('and', a & sc), ('or', a | sc), ('xor', a ^ sc), ('sub', a - sc),
                  ('lt', a < sc), ('gt', a > sc), ('eq', a == sc), ('mul', a * sc),
                  ('sel', pyrtl.select(a[0], sc, a)), ('assign', wide),
                  ('cat_lit', pyrtl.concat(a, 1, 2)), ('cat_lit3', pyrtl.concat(a[0], 3, 1, "2'b10")),
                  ('cat_lit_mid', pyrtl.concat(1, 5, a)), ('cat_list', pyrtl.concat_list([a, 2, 1]))])


def _sck_spec(o, p, ins):
    a, wa = ins['a'], p['wa']
    v, bw = _sconst(p['m'])
    mm = max(wa, bw)
    return dict(add=a + v, radd=a + v, sub=(a - v) % (1 << (mm + 1)), mul=a * v, xor=a ^ v, lt=o.ite(a < v, 1, 0),
                gt=o.ite(a > v, 1, 0), eq=o.ite(a == v, 1, 0), sel=o.ite(a % 2 != 0, v, a), assign=v,
                cat_lit=(a << 3) + (1 << 2) + 2, cat_lit3=((a % 2) << 5) + (3 << 3) + (1 << 2) + 2,
                cat_lit_mid=(1 << (3 + wa)) + (5 << wa) + a, cat_list=(1 << (2 + wa)) + (2 << wa) + a,
                **{'and': a & v, 'or': a | v})


def _sck_lens(p):
    wa = p['wa']
    v, bw = _sconst(p['m'])
    mm = max(wa, bw)
    return dict(add=mm + 1, radd=mm + 1, sub=mm + 1, mul=wa + bw, xor=mm, lt=1, gt=1, eq=1, sel=mm, assign=wa + 3,
                cat_lit=wa + 3, cat_lit3=6, cat_lit_mid=wa + 4, cat_list=wa + 3, **{'and': mm, 'or': mm})


case('ops.signed_const_and_literals', _sck_spec, W=lambda p: 2 * (p['wa'] + 8) + 6, lens=_sck_lens)(_sck_build)
