"""C16 executable contracts (level B): value conversion helpers. Pure PyRTL.
Each function returns a replay-style dict with the canonical FIRST failing input in a fixed
enumeration order."""
import itertools


class Fails(object):
    """Collects failures by class; the enumeration continues past a failing input so that a
    second, different defect is still seen.  Result: first failing case per class."""

    def __init__(self):
        self.by_class = {}
        self.total = 0

    def add(self, cls, case, observed, expected):
        self.total += 1
        if cls not in self.by_class:
            self.by_class[cls] = dict(case=case, observed=observed, expected=expected, count=0)
        self.by_class[cls]['count'] += 1

    def result(self, n):
        if not self.by_class:
            return dict(failed=False, observed='ok', expected='ok', evaluations=n, classes={})
        first = sorted(self.by_class)[0]
        f = self.by_class[first]
        return dict(failed=True, case=f['case'], observed=f['observed'], expected=f['expected'],
                    evaluations=n, classes=self.by_class)


def replay_class(fn, kw, cls):
    """Replayer: does failure class `cls` of convcheck.<fn> still occur?"""
    r = globals()[fn](**kw)
    c = (r.get('classes') or {}).get(cls)
    if c is None:
        return dict(failed=False, observed='class %s does not fail' % cls, expected='-')
    return dict(failed=True, observed=[c['case'], c['observed']], expected=c['expected'])


def bitlen(x):
    return max(1, int(x).bit_length())


def representable(v, bw, signed):
    """The property's accept set for an int."""
    if v >= 0:
        need = bitlen(v) + (1 if (signed and v != 0) else 0)
        return bw is None or bw >= need
    if not signed and bw is None:
        return False
    return bw is None or v >= -(1 << (bw - 1))


def minimal_bw(v, signed):
    if v >= 0:
        return bitlen(v) + (1 if (signed and v != 0) else 0)
    b = 1
    while v < -(1 << (b - 1)):
        b += 1
    return b


def _try(fn):
    import pyrtl
    try:
        return ('ok', fn())
    except pyrtl.PyrtlError as e:
        return ('PyrtlError', str(e)[:80])
    except Exception as e:
        return (type(e).__name__, str(e)[:80])


def ints(vmax=70, bwmax=8):
    """infer_val_and_bitwidth / Const on ints and bools."""
    import pyrtl
    vals = list(range(-vmax, vmax + 1)) + [2 ** k for k in range(7, 70, 9)] + \
        [2 ** k - 1 for k in range(7, 70, 9)] + [-2 ** k for k in range(6, 70, 9)] + \
        [-2 ** k - 1 for k in range(6, 70, 9)]
    # every power of two from 2**47 to 2**70 and its neighbours, a few beyond (no float rounding in the
    # width computation), long runs of ones
    for k in list(range(47, 71)) + [100, 127, 128, 200]:
        vals += [2 ** k - 2, 2 ** k - 1, 2 ** k, 2 ** k + 1, -(2 ** k), -(2 ** k) - 1, -(2 ** k) + 1]
    n = 0
    F = Fails()
    for v in vals:
        for bw in [None] + list(range(1, bwmax + 1)) + [bitlen(abs(v)), bitlen(abs(v)) + 1, 70]:
            for signed in (False, True):
                n += 1
                exp_ok = representable(v, bw, signed)
                st, r = _try(lambda: pyrtl.infer_val_and_bitwidth(v, bw, signed))
                case = dict(v=v, bitwidth=bw, signed=signed)
                sg = 'neg' if v < 0 else 'nonneg'
                if exp_ok:
                    ebw = bw if bw is not None else minimal_bw(v, signed)
                    exp = (v % (1 << ebw), ebw)
                    if st != 'ok':
                        F.add('infer:rejects-representable:%s' % sg, case, [st, r], list(exp))
                    elif tuple(r) != exp:
                        F.add('infer:wrong-%s:%s' % ('width' if r[1] != exp[1] else 'value', sg),
                              case, list(r), list(exp))
                elif st != 'PyrtlError':
                    F.add('infer:accepts-unrepresentable:%s' % sg, case,
                          [st, r if st != 'ok' else list(r)], 'PyrtlError (not representable)')
                pyrtl.reset_working_block()
                st2, c = _try(lambda: pyrtl.Const(v, bitwidth=bw, signed=signed))
                if exp_ok:
                    if st2 != 'ok' or (c.val, c.bitwidth) != exp:
                        F.add('const:differs:%s' % sg, dict(case, via='Const'),
                              [st2, (c.val, c.bitwidth) if st2 == 'ok' else c], list(exp))
                elif st2 not in ('PyrtlError',):
                    F.add('const:accepts-unrepresentable:%s' % sg, dict(case, via='Const'),
                          [st2, str(c)[:60]], 'PyrtlError')
    # Const refuses a non-positive bitwidth with PyrtlError whatever the value is (ints, negative ints, strings);
    # (infer_val_and_bitwidth itself is specified for bitwidth >= 1 or None only)
    for v in (0, 1, 5, -1, -3, "2'b01", "3'd5", "-2'd1"):
        for bw in (0, -1, -7):
            for signed in (False, True):
                n += 1
                pyrtl.reset_working_block()
                st2, c = _try(lambda: pyrtl.Const(v, bitwidth=bw, signed=signed))
                if st2 != 'PyrtlError':
                    F.add('const:nonpositive-bitwidth', dict(v=v, bitwidth=bw, signed=signed, via='Const'),
                          [st2, str(c)[:60]], 'PyrtlError')
    for b in (True, False):
        for bw in (None, 0, -1, 1, 2):
            for signed in (False, True):
                n += 1
                st, r = _try(lambda: pyrtl.infer_val_and_bitwidth(b, bw, signed))
                ok = (not signed) and bw in (None, 1)
                if ok and (st != 'ok' or tuple(r) != (int(b), 1)) or (not ok and st != 'PyrtlError'):
                    F.add('bool', dict(v=b, bitwidth=bw, signed=signed), [st, str(r)],
                          [int(b), 1] if ok else 'PyrtlError')
    return F.result(n)


def verilog_wellformed(wmax=6):
    """well-formed strings [-]W'{b|o|d|h|x}digits : value, width, negative handling, overflow."""
    import pyrtl
    n = 0
    F = Fails()
    fmt = {'b': lambda x: format(x, 'b'), 'o': lambda x: format(x, 'o'), 'd': str,
           'h': lambda x: format(x, 'x'), 'x': lambda x: format(x, 'X'), '': str}
    for W in range(1, wmax + 1):
        for mag in range(0, (1 << W) + 3):
            for base in ('b', 'o', 'd', 'h', 'x', ''):
                for neg in (False, True):
                    s = ('-' if neg else '') + "%d'%s%s" % (W, base, fmt[base](mag))
                    n += 1
                    if neg and mag:
                        ok = mag <= (1 << (W - 1))
                        exp = ((1 << W) - mag, W)
                    else:
                        ok = mag < (1 << W)
                        exp = (mag, W)
                    kind = ('most-negative' if (neg and mag == (1 << (W - 1))) else
                            ('negative' if neg and mag else 'nonneg'))
                    st, r = _try(lambda: pyrtl.infer_val_and_bitwidth(s))
                    if ok and st != 'ok':
                        F.add('rejects-representable:%s' % kind, dict(string=s), [st, r], list(exp))
                        continue
                    if ok and tuple(r) != exp:
                        F.add('wrong-value:%s' % kind, dict(string=s), list(r), list(exp))
                        continue
                    if not ok and st != 'PyrtlError':
                        F.add('accepts-unrepresentable:%s' % kind, dict(string=s),
                              [st, list(r) if st == 'ok' else r], 'PyrtlError')
                        continue
                    if ok:
                        st2, r2 = _try(lambda: pyrtl.infer_val_and_bitwidth(s, bitwidth=W + 1))
                        if st2 != 'PyrtlError':
                            F.add('width-mismatch-accepted', dict(string=s, bitwidth=W + 1),
                                  [st2, str(r2)], 'PyrtlError (width mismatch)')
                        pyrtl.reset_working_block()
                        c = pyrtl.Const(s)
                        if (c.val, c.bitwidth) != exp:
                            F.add('const-differs', dict(string=s, via='Const'), [c.val, c.bitwidth],
                                  list(exp))
    return F.result(n)


ALPHABET = "01'dbhs-_ 9x"


def _verilog_ref(s):
    """Independent reading of the supported subset: [-]<dec width>'[bodhx]<digits with _>,
    case-insensitive; returns (value, width) or None when malformed / not representable."""
    neg = s.startswith('-')
    body = s[1:] if neg else s
    body = body.lower()
    if body.count("'") != 1:
        return None
    ws, rest = body.split("'")
    try:
        W = int(ws)
    except ValueError:
        return None
    if rest == '' or rest[0] == 's':
        return None
    base = 10
    if rest[0] in 'bodhx':
        base = {'b': 2, 'o': 8, 'd': 10, 'h': 16, 'x': 16}[rest[0]]
        rest = rest[1:]
    rest = rest.replace('_', '')
    digits = '0123456789abcdef'[:base]
    if rest == '' or any(ch not in digits for ch in rest):
        return None
    mag = int(rest, base)
    if W < 1:
        return None
    if neg and mag:
        if mag > (1 << (W - 1)):
            return None
        return ((1 << W) - mag, W)
    if mag >= (1 << W):
        return None
    return (mag, W)


def verilog_all_strings(maxlen=5):
    """every string over a small alphabet up to maxlen: accepted iff well-formed and
    representable (then equal to the reference reading); rejection is always PyrtlError."""
    import pyrtl
    n = 0
    F = Fails()
    for L in range(0, maxlen + 1):
        for tup in itertools.product(ALPHABET, repeat=L):
            s = ''.join(tup)
            n += 1
            ref = _verilog_ref(s)
            st, r = _try(lambda: pyrtl.infer_val_and_bitwidth(s))
            if ref is None:
                if st == 'ok':
                    # int() accepts forms such as surrounding spaces: the property constrains
                    # agreement for accepted strings; an accepted string must denote an in-range
                    # value of a positive width
                    v, w = r
                    if not (isinstance(w, int) and w >= 1 and 0 <= v < (1 << w)):
                        F.add('accepts-malformed-out-of-range', dict(string=s), [st, list(r)],
                              'rejection or an in-range value')
                elif st != 'PyrtlError':
                    F.add('malformed-not-PyrtlError:%s' % st, dict(string=s), [st, r], 'PyrtlError')
            else:
                neg = s.startswith('-')
                kind = 'most-negative' if (neg and ref[0] == (1 << (ref[1] - 1))) else \
                    ('negative' if neg and ref[0] else 'nonneg')
                if st != 'ok':
                    F.add('rejects-wellformed:%s' % kind, dict(string=s), [st, r], list(ref))
                elif tuple(r) != ref:
                    F.add('wrong-value:%s' % kind, dict(string=s), list(r), list(ref))
    return F.result(n)


import enum as _enum


class ModEnum(_enum.IntEnum):
    P = 0
    Q = 2
    R = 7


class Holder(object):
    class Nested(_enum.IntEnum):
        U = 1
        V = 3
        W = 6


def signed_and_formats(bwmax=9):
    import pyrtl
    n = 0
    for bw in range(1, bwmax + 1):
        for v in range(-(1 << (bw - 1)), 1 << (bw - 1)):
            n += 1
            st0, r0 = _try(lambda: pyrtl.infer_val_and_bitwidth(v, bw, signed=True))
            if st0 != 'ok':
                return dict(failed=True, case=dict(fn='infer_val_and_bitwidth', v=v, bw=bw, signed=True),
                            observed=[st0, r0], expected='accepted')
            enc = r0.value
            back = pyrtl.val_to_signed_integer(enc, bw)
            if back != v or not (0 <= enc < (1 << bw)):
                return dict(failed=True, case=dict(fn='val_to_signed_integer', v=v, bw=bw),
                            observed=dict(encoded=enc, decoded=back), expected=v)
        for v in range(0, 1 << bw):
            for f in 'suxb':
                n += 1
                fmt = '%s%d' % (f, bw)
                st, s = _try(lambda: pyrtl.val_to_formatted_str(v, fmt))
                st2, back = _try(lambda: pyrtl.formatted_str_to_val(s, fmt)) if st == 'ok' else (st, None)
                if st != 'ok' or st2 != 'ok' or back != v:
                    return dict(failed=True, case=dict(fn='format roundtrip', v=v, format=fmt),
                                observed=dict(string=s, back=back), expected=v)
                # and the other direction on the canonical string
                st3, s2 = _try(lambda: pyrtl.val_to_formatted_str(back, fmt))
                if s2 != s:
                    return dict(failed=True, case=dict(fn='format roundtrip(str)', s=s, format=fmt),
                                observed=s2, expected=s)
            # the unsigned / hex / binary formats do not depend on the declared width (docstring: (10, 'x3') <-> 'a'):
            # strings denoting values beyond it round-trip as well
            for f, render in (('u', str), ('x', lambda x: format(x, 'x')), ('b', lambda x: format(x, 'b'))):
                big = v + (1 << bw) * (1 + (v % 3))
                fmt = '%s%d' % (f, bw)
                n += 1
                st, val = _try(lambda: pyrtl.formatted_str_to_val(render(big), fmt))
                st2, s2 = _try(lambda: pyrtl.val_to_formatted_str(val, fmt)) if st == 'ok' else (st, None)
                if st != 'ok' or val != big or st2 != 'ok' or s2 != render(big):
                    return dict(failed=True, case=dict(fn='format roundtrip beyond the declared width', s=render(big), format=fmt),
                                observed=dict(value=[st, val], back=[st2, s2]), expected=dict(value=big, back=render(big)))
            sv = v - (1 << bw) if v >= (1 << (bw - 1)) else v
            if pyrtl.val_to_formatted_str(v, 's%d' % bw) != str(sv):
                return dict(failed=True, case=dict(fn='val_to_formatted_str', v=v, format='s%d' % bw),
                            observed=pyrtl.val_to_formatted_str(v, 's%d' % bw), expected=str(sv))
    # enum format 'e<w>/<Name>': module-level, class-nested and function-local Enum classes; the set holds a
    # second enum (with overlapping values) that must not be picked
    import enum

    class Local(enum.IntEnum):
        A = 0
        B = 1
        C = 5
        D = 12          # beyond the 3 declared bits, like SUB = 12 in the docstring of val_to_formatted_str

    class Other(enum.IntEnum):
        X = 0
        Y = 1
        Z = 5
    for E in (ModEnum, Holder.Nested, Local):
        for es in ([E, Other], [Other, E]):
            for m in E:
                n += 1
                fmt = 'e3/%s' % E.__name__
                st, sname = _try(lambda: pyrtl.val_to_formatted_str(int(m), fmt, enum_set=es))
                st2, back = _try(lambda: pyrtl.formatted_str_to_val(sname, fmt, enum_set=es)) if st == 'ok' else (st, None)
                if st != 'ok' or sname != m.name or st2 != 'ok' or back != int(m):
                    return dict(failed=True, case=dict(fn='enum format roundtrip', enum=E.__qualname__, member=m.name,
                                                       set=[x.__name__ for x in es]),
                                observed=dict(string=[st, sname], back=[st2, back]), expected=dict(string=m.name, back=int(m)))
    # truncate / log2
    for v in list(range(-40, 40)) + [2 ** 64 + 5]:
        for bw in range(1, 8):
            n += 1
            if pyrtl.truncate(v, bw) != v % (1 << bw):
                return dict(failed=True, case=dict(fn='truncate', v=v, bw=bw),
                            observed=pyrtl.truncate(v, bw), expected=v % (1 << bw))
    for v in range(-4, 300):
        n += 1
        st, r = _try(lambda: pyrtl.log2(v))
        ispow = v > 0 and (v & (v - 1)) == 0
        if ispow and (st != 'ok' or (1 << r) != v) or (not ispow and st != 'PyrtlError'):
            return dict(failed=True, case=dict(fn='log2', v=v), observed=[st, r],
                        expected='exact log or PyrtlError')
    return dict(failed=False, observed='ok', expected='ok', evaluations=n)


def twos_comp(bwmax=8):
    import pyrtl
    from pyrtl.rtllib import libutils
    n = 0
    for bw in range(1, bwmax + 1):
        for v in range(-(1 << bw) - 2, (1 << bw) + 3):
            n += 1
            ok = bw >= abs(v).bit_length() + 1
            st, r = _try(lambda: libutils.twos_comp_repr(v, bw))
            if ok:
                if st != 'ok' or r != v % (1 << bw):
                    return dict(failed=True, case=dict(fn='twos_comp_repr', v=v, bw=bw),
                                observed=[st, r], expected=v % (1 << bw))
                st2, back = _try(lambda: libutils.rev_twos_comp_repr(r, bw))
                if st2 != 'ok' or back != v:
                    return dict(failed=True, case=dict(fn='rev_twos_comp_repr', r=r, bw=bw),
                                observed=[st2, back], expected=v)
            elif st != 'PyrtlError':
                return dict(failed=True, case=dict(fn='twos_comp_repr', v=v, bw=bw),
                            observed=[st, r], expected='PyrtlError')
        for r in range(0, (1 << bw) + 2):
            n += 1
            ok = r.bit_length() <= bw and r != (1 << (bw - 1))
            st, s = _try(lambda: libutils.rev_twos_comp_repr(r, bw))
            if ok:
                sv = r - (1 << bw) if r >= (1 << (bw - 1)) else r
                if st != 'ok' or s != sv:
                    return dict(failed=True, case=dict(fn='rev_twos_comp_repr', r=r, bw=bw),
                                observed=[st, s], expected=sv)
                st2, back = _try(lambda: libutils.twos_comp_repr(s, bw))
                if st2 != 'ok' or back != r:
                    return dict(failed=True, case=dict(fn='twos_comp_repr(rev(r))', r=r, bw=bw),
                                observed=[st2, back], expected=r)
            elif st != 'PyrtlError':
                return dict(failed=True, case=dict(fn='rev_twos_comp_repr', r=r, bw=bw),
                            observed=[st, s], expected='PyrtlError')
    return dict(failed=False, observed='ok', expected='ok', evaluations=n)


def bitpatterns(maxlen=5, sample=None):
    """bitpattern_to_val produces a value that the real match_bitpattern circuit matches and
    decodes back to the same fields (simulated on the real Simulation)."""
    import pyrtl
    n = 0
    alpha = ['0', '1', 'a', 'b']
    pats = []
    for L in range(1, maxlen + 1):
        for tup in itertools.product(alpha, repeat=L):
            pats.append(''.join(tup))
    pats += ['01aa1bbb11a', 'a_b a', 'ab0ba01b', 'zzzz', 'i00i11ii']
    if sample:
        pats = pats[::sample] + pats[-5:]
    for pat in pats:
        ns = ''.join(pat.replace('_', '').split())
        order = []
        for c in ns:
            if c not in '01' and c not in order:
                order.append(c)
        widths = [sum(1 for c in ns if c == f) for f in order]
        for vals in itertools.product(*[sorted(set([0, 1, (1 << w) - 1, (1 << w) // 2 + 1]) &
                                                set(range(1 << w))) for w in widths]):
            n += 1
            clean = pat.replace('_', '').replace(' ', '')
            st, v = _try(lambda: pyrtl.bitpattern_to_val(clean, *vals))
            if st != 'ok':
                return dict(failed=True, case=dict(pattern=pat, fields=list(vals)), observed=[st, v],
                            expected='value')
            pyrtl.reset_working_block()
            w = pyrtl.Input(len(ns), 'w')
            m, fields = pyrtl.match_bitpattern(w, pat)
            mo = pyrtl.Output(1, 'm')
            mo <<= m
            outs = []
            for i, f in enumerate(fields):
                o = pyrtl.Output(len(f), 'f%d' % i)
                o <<= f
                outs.append(o)
            sim = pyrtl.Simulation()
            sim.step({'w': v})
            got = [sim.inspect('f%d' % i) for i in range(len(outs))]
            if sim.inspect('m') != 1 or got != list(vals):
                return dict(failed=True, case=dict(pattern=pat, fields=list(vals), value=v),
                            observed=dict(match=sim.inspect('m'), fields=got),
                            expected=dict(match=1, fields=list(vals)))
        # range-exactness: a field value that does not fit its field is refused, at every distance
        # from the boundary (one bit too wide, two bits too wide, far away)
        clean = pat.replace('_', '').replace(' ', '')
        for k, wk in enumerate(widths):
            for bad in (1 << wk, (1 << wk) + 1, (1 << (wk + 1)) - 1, 1 << (wk + 1), (1 << (wk + 3)) + 5):
                vals = [0] * len(widths)
                vals[k] = bad
                n += 1
                st, v = _try(lambda: pyrtl.bitpattern_to_val(clean, *vals))
                if st == 'ok':
                    return dict(failed=True, case=dict(pattern=pat, fields=list(vals)),
                                observed=dict(accepted=v), expected='PyrtlError (value does not fit its field)')
    # wide fields (exact integer arithmetic, nothing may go through a float) and negative field values (accepted
    # in two's complement when they fit the field: the encoded word carries value mod 2**width)
    for wf in (53, 54, 64, 65, 100):
        pat = 'a' * wf + '01' + 'b' * 3
        for av in ((1 << wf) - 1, (1 << (wf - 1)) + 1, (1 << 53) - 1 if wf > 53 else 5, 0x1234567 % (1 << wf)):
            for bv in (0, 5, 7):
                n += 1
                st, v = _try(lambda: pyrtl.bitpattern_to_val(pat, av, bv))
                exp = (av << 5) | (1 << 3) | bv
                if st != 'ok' or v != exp:
                    return dict(failed=True, case=dict(pattern="'a'*%d+'01bbb'" % wf, fields=[hex(av), bv]),
                                observed=[st, hex(v) if st == 'ok' else v], expected=hex(exp))
    for wf in (1, 2, 3, 5):
        pat = 'a' * wf + '1' + 'b' * 2
        for av in range(-(1 << (wf - 1)), 0):
            n += 1
            st, v = _try(lambda: pyrtl.bitpattern_to_val(pat, av, 2))
            exp = ((av % (1 << wf)) << 3) | (1 << 2) | 2
            if st != 'ok' or v != exp:
                return dict(failed=True, case=dict(pattern=pat, fields=[av, 2]), observed=[st, v], expected=exp)
    return dict(failed=False, observed='ok', expected='ok', evaluations=n)
