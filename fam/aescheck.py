"""C18 (AES part).  Tables: exhaustive.  Round steps: elaborated alone, equal to the FIPS-197 step for
all 2**128 inputs (SMT, in props/C18).  Composition: the REAL encryption()/decryption()/_key_gen
code is executed with the step methods replaced by their contracts (uninterpreted functions), and
the resulting term must be the FIPS-197 composition.  State machines: concrete runs (level B)."""


def tables():
    """every table of rtllib.aes equals the table computed from GF(2^8) arithmetic"""
    from pyrtl.rtllib import aes
    from spec import fips197 as F
    F.selfcheck()
    A = aes.AES
    exp = {'_sbox_data': F.SBOX, '_inv_sbox_data': F.INV_SBOX, '_rcon_data': F.RCON,
           '_GM2_data': [F.gmul(2, x) for x in range(256)], '_GM3_data': [F.gmul(3, x) for x in range(256)],
           '_GM9_data': [F.gmul(9, x) for x in range(256)], '_GM11_data': [F.gmul(11, x) for x in range(256)],
           '_GM13_data': [F.gmul(13, x) for x in range(256)], '_GM14_data': [F.gmul(14, x) for x in range(256)]}
    n = 0
    for name, tab in exp.items():
        got = list(getattr(A, name))
        if len(got) != 256:
            return dict(failed=True, observed=dict(table=name, length=len(got)), expected=256)
        for i in range(256):
            n += 1
            if got[i] != tab[i]:
                return dict(failed=True, observed=dict(table=name, index=i, value=got[i]), expected=tab[i])
    return dict(failed=False, observed='ok', expected='ok', evaluations=n)


def build_step(step):
    """one round step alone: Inputs x (128), k (128) -> Output o"""
    import pyrtl
    from pyrtl.rtllib import aes
    pyrtl.reset_working_block()
    a = aes.AES()
    x = pyrtl.Input(128, 'x')
    k = pyrtl.Input(128, 'k')
    if step == 'sub_bytes':
        r = a._sub_bytes(x)
    elif step == 'inv_sub_bytes':
        r = a._sub_bytes(x, True)
    elif step == 'shift_rows':
        r = a._shift_rows(x)
    elif step == 'inv_shift_rows':
        r = a._inv_shift_rows(x)
    elif step == 'mix_columns':
        r = a._mix_columns(x)
    elif step == 'inv_mix_columns':
        r = a._mix_columns(x, True)
    elif step == 'add_round_key':
        r = a._add_round_key(x, k)
    elif step.startswith('key_expansion:'):
        r = a._key_expansion(x, int(step.split(':')[1]))
    elif step == 'key_expansion_wire':
        rnd = pyrtl.Input(4, 'rnd')
        r = a._key_expansion(x, rnd)
    else:
        raise KeyError(step)
    o = pyrtl.Output(128, 'o')
    o <<= r
    return pyrtl.working_block()


def ref_step(step, x, k=0, rnd=0):
    from spec import fips197 as F
    s = F.to_bytes(x)
    if step == 'sub_bytes':
        return F.from_bytes(F.sub_bytes(s))
    if step == 'inv_sub_bytes':
        return F.from_bytes(F.sub_bytes(s, True))
    if step == 'shift_rows':
        return F.from_bytes(F.shift_rows(s))
    if step == 'inv_shift_rows':
        return F.from_bytes(F.inv_shift_rows(s))
    if step == 'mix_columns':
        return F.from_bytes(F.mix_columns(s))
    if step == 'inv_mix_columns':
        return F.from_bytes(F.mix_columns(s, True))
    if step == 'add_round_key':
        return x ^ k
    if step.startswith('key_expansion:'):
        return F.from_bytes(F.key_expansion_round(s, int(step.split(':')[1])))
    if step == 'key_expansion_wire':
        return F.from_bytes(F.key_expansion_round(s, rnd))
    raise KeyError(step)


def step_replay(step, x, k=0, rnd=0):
    import pyrtl
    build_step(step)
    sim = pyrtl.Simulation()
    inp = {'x': x, 'k': k}
    if step == 'key_expansion_wire':
        inp['rnd'] = rnd
    sim.step(inp)
    got = sim.inspect('o')
    exp = ref_step(step, x, k, rnd)
    return dict(failed=(got != exp), observed=hex(got), expected=hex(exp))


def full_vectors(n=6, seed=0):
    """single-cycle encryption / decryption circuits and both state machines on test vectors"""
    import random
    import pyrtl
    from pyrtl.rtllib import aes
    from spec import fips197 as F
    rnd = random.Random(seed)
    vecs = [(0x3243f6a8885a308d313198a2e0370734, 0x2b7e151628aed2a6abf7158809cf4f3c),
            (0x00112233445566778899aabbccddeeff, 0x000102030405060708090a0b0c0d0e0f),
            (0, 0), ((1 << 128) - 1, (1 << 128) - 1)]
    vecs += [(rnd.getrandbits(128), rnd.getrandbits(128)) for _ in range(n)]
    pyrtl.reset_working_block()
    a = aes.AES()
    pt, key = pyrtl.Input(128, 'pt'), pyrtl.Input(128, 'key')
    ct_o = pyrtl.Output(128, 'ct')
    ct_o <<= a.encryption(pt, key)
    dec_o = pyrtl.Output(128, 'dec')
    dec_o <<= a.decryption(pt, key)
    # the same AES object used for further circuits with their OWN data and key inputs (an encryptor and a
    # decryptor under another key, built after the first pair; and the other way round on a second object)
    ct2, key2 = pyrtl.Input(128, 'ct2'), pyrtl.Input(128, 'key2')
    dec2_o = pyrtl.Output(128, 'dec2')
    dec2_o <<= a.decryption(ct2, key2)
    enc2_o = pyrtl.Output(128, 'enc2')
    enc2_o <<= a.encryption(ct2, key2)
    b = aes.AES()
    dec3_o = pyrtl.Output(128, 'dec3')
    dec3_o <<= b.decryption(pt, key)
    enc3_o = pyrtl.Output(128, 'enc3')
    enc3_o <<= b.encryption(ct2, key2)
    sim = pyrtl.Simulation()
    for i, (p, k) in enumerate(vecs):
        p2, k2 = vecs[(i + 1) % len(vecs)][0] ^ 0x5a, vecs[(i + 2) % len(vecs)][1] ^ (1 << 77)
        sim.step({'pt': p, 'key': k, 'ct2': p2, 'key2': k2})
        if sim.inspect('ct') != F.cipher(p, k):
            return dict(failed=True, observed=dict(what='encryption', pt=hex(p), key=hex(k),
                                                   ct=hex(sim.inspect('ct'))), expected=hex(F.cipher(p, k)))
        if sim.inspect('dec') != F.inv_cipher(p, k):
            return dict(failed=True, observed=dict(what='decryption', ct=hex(p), key=hex(k),
                                                   pt=hex(sim.inspect('dec'))), expected=hex(F.inv_cipher(p, k)))
        for nm, exp, what in (('dec2', F.inv_cipher(p2, k2), 'second decryptor of one AES object, other key'),
                              ('enc2', F.cipher(p2, k2), 'second encryptor of one AES object, other key'),
                              ('dec3', F.inv_cipher(p, k), 'decryptor built before an encryptor'),
                              ('enc3', F.cipher(p2, k2), 'encryptor built after a decryptor, other key')):
            if sim.inspect(nm) != exp:
                return dict(failed=True, observed=dict(what=what, data=hex(p2), key=hex(k2), out=hex(sim.inspect(nm))),
                            expected=hex(exp))
    # state machines
    for which in ('enc', 'dec'):
        pyrtl.reset_working_block()
        a = aes.AES()
        din, key, reset = pyrtl.Input(128, 'din'), pyrtl.Input(128, 'key'), pyrtl.Input(1, 'reset')
        rdy, res = (a.encrypt_state_m if which == 'enc' else a.decryption_statem)(din, key, reset)
        ro = pyrtl.Output(1, 'ready')
        ro <<= rdy
        oo = pyrtl.Output(128, 'res')
        oo <<= res
        sim = pyrtl.Simulation()
        for p, k in vecs[:5]:
            exp = F.cipher(p, k) if which == 'enc' else F.inv_cipher(p, k)
            sim.step({'din': p, 'key': k, 'reset': 1})
            seen = None
            for t in range(14):
                sim.step({'din': 0, 'key': 0, 'reset': 0})
                if sim.inspect('ready') == 1:
                    if seen is None:
                        seen = t
                    if sim.inspect('res') != exp:
                        return dict(failed=True, observed=dict(what=which + ' state machine', cycle=t,
                                                               res=hex(sim.inspect('res'))), expected=hex(exp))
                elif seen is not None:
                    return dict(failed=True, observed=dict(what=which + ' state machine',
                                                           ready_dropped_at=t), expected='ready held')
            if seen is None or seen > 11:
                return dict(failed=True, observed=dict(what=which + ' state machine', ready_first=seen),
                            expected='ready within 11 cycles of reset')
    return dict(failed=False, observed='ok', expected='ok', evaluations=len(vecs) * 2 + 10)
