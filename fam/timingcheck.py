"""C17 executable contracts (level B): timing / path / fan-out analyses against independent
graph computations.  Pure PyRTL."""
import io
import contextlib


def _src_map(block):
    src = {}
    for n in block.logic:
        for d in n.dests:
            src[d] = n
    return src


DELAYS = {'~': 3, '&': 5, '|': 7, '^': 11, 'n': 13, 'w': 0, '+': 17, '-': 19, '*': 23, '<': 29,
          '>': 31, '=': 37, 'x': 41, 'c': 0, 's': 0, 'r': -1, 'm': 43, '@': -1}


def custom_funcs(variant=0):
    if variant == 0:
        f0 = {op: (lambda d: (lambda width_or_mem: d))(d) for op, d in DELAYS.items()}
        f0['m'] = lambda mem: 43 + mem.bitwidth
        return f0
    # width-dependent integer delays; 'w' given a positive delay, 'c' treated as end of block
    f = {op: (lambda d: (lambda w: d + (w if isinstance(w, int) else 2)))(d)
         for op, d in DELAYS.items() if d >= 0}
    f['m'] = lambda mem: 50 + 3 * mem.bitwidth
    f['r'] = lambda w: -1
    f['@'] = lambda w: -5
    if variant == 2:
        f['c'] = lambda w: -1
    return f


def _delay(n, funcs):
    if n.op == 'm':
        return funcs['m'](n.op_param[1])
    return funcs[n.op](len(n.args[0]))


def ref_timing(block, funcs):
    """Definition: maximum over all register-free paths from Inputs/Consts/Registers of the summed
    gate delays; nets with negative delay end the block (they define nothing)."""
    import pyrtl
    src = _src_map(block)
    memo = {}

    def T(w, depth=0):
        if w in memo:
            return memo[w]
        if isinstance(w, (pyrtl.Input, pyrtl.Const, pyrtl.Register)):
            memo[w] = 0
            return 0
        n = src.get(w)
        if n is None:
            memo[w] = None
            return None
        d = _delay(n, funcs)
        if d < 0:
            memo[w] = None
            return None
        ts = [T(a, depth + 1) for a in n.args]
        if any(t is None for t in ts):
            memo[w] = None      # fed (only) through an end-of-block net: never timed
            return None
        memo[w] = max(ts) + d
        return memo[w]
    out = {}
    for w in block.wirevector_set:
        t = T(w)
        if t is not None:
            out[w] = t
    return out


def timing(design, variant=0, history=()):
    """`history`: delay-table variants of analyses run earlier in this process (on another block and on
    this one) - an analysis must not depend on, or leave anything behind for, another one"""
    import pyrtl
    from fam import designs
    for hv in history:
        for d0 in ({'name': 'binop', 'params': {'op': '+', 'wa': 3, 'wb': 3}}, design):
            b0 = designs.build(d0)
            try:
                with contextlib.redirect_stdout(io.StringIO()):
                    pyrtl.TimingAnalysis(block=b0, gate_delay_funcs=custom_funcs(hv) if hv >= 0 else None)
            except KeyError:
                pass
    block = designs.build(design)
    funcs = custom_funcs(variant) if variant >= 0 else None
    keys0 = None if funcs is None else dict(funcs)
    try:
        with contextlib.redirect_stdout(io.StringIO()):
            ta = pyrtl.TimingAnalysis(block=block, gate_delay_funcs=funcs)
        if keys0 is not None and (set(funcs) != set(keys0) or any(funcs[k] is not keys0[k] for k in keys0)):
            return dict(failed=True, observed='the caller\'s gate_delay_funcs dict was modified',
                        expected='unchanged')
    except KeyError:
        if variant == 2:
            return dict(failed=False, observed='skipped (args untimed)', expected='-', skipped=True)
        raise
    if funcs is None:
        # default table: take the delay functions from the analysis itself via a probe object
        probe = {}
        ta2 = pyrtl.TimingAnalysis.__new__(pyrtl.TimingAnalysis)
        funcs = {
            '~': lambda w: 48.5, '&': lambda w: 98.5, '|': lambda w: 105.3, '^': lambda w: 135.07,
            'n': lambda w: 66.0, 'w': lambda w: 0, '+': ta2._logconst_func(184.0, 18.9),
            '-': ta2._logconst_func(184.0, 18.9), '*': ta2._multiplier_stdcell_estimate,
            '<': ta2._logconst_func(101.9, 105.4), '>': ta2._logconst_func(101.9, 105.4),
            '=': ta2._logconst_func(60.1, 147), 'x': lambda w: 138.0, 'c': lambda w: 0,
            's': lambda w: 0, 'r': lambda w: -1, 'm': ta2._memory_read_estimate, '@': lambda w: -1}
    ref = ref_timing(block, funcs)
    got = dict(ta.timing_map)
    if set(got) != set(ref):
        return dict(failed=True, observed=dict(only_in_timing_map=sorted(w.name for w in set(got) - set(ref)),
                                               missing=sorted(w.name for w in set(ref) - set(got))),
                    expected='same timed wires')
    for w in ref:
        if abs(got[w] - ref[w]) > 1e-9:
            return dict(failed=True, observed=dict(wire=w.name, time=got[w]), expected=ref[w])
    mx = max(ref.values())
    if abs(ta.max_length() - mx) > 1e-9:
        return dict(failed=True, observed=dict(max_length=ta.max_length()), expected=mx)
    for tech, ffo in ((130, None), (65, None), (130, 100.0), (45, 12.5)):
        scale = 130.0 / tech
        period = scale * (mx + 189 + 194) if ffo is None else scale * mx + ffo
        exp = 1e6 / period
        g = ta.max_freq(tech_in_nm=tech, ffoverhead=ffo)
        if abs(g - exp) > 1e-6 * max(1.0, abs(exp)):
            return dict(failed=True, observed=dict(max_freq=g, tech=tech, ffoverhead=ffo), expected=exp)
    # critical paths: every returned path is a source-to-wire chain summing to max_length, and
    # all such maximal chains are returned
    with contextlib.redirect_stdout(io.StringIO()):
        cps = ta.critical_path(print_cp=False, cp_limit=10000)
    src = _src_map(block)

    def all_crit(w):
        """all chains (lists of nets) ending at w along arguments with maximal arrival time"""
        if isinstance(w, (pyrtl.Input, pyrtl.Const, pyrtl.Register)):
            return [[]]
        n = src[w]
        m = max(ref[a] for a in n.args)
        res = []
        seen = []
        for a in n.args:
            if ref[a] == m:
                for p in all_crit(a):
                    res.append(p + [n])
        return res
    exp_paths = []
    for w in ref:
        if ref[w] == mx:
            for p in all_crit(w):
                exp_paths.append(tuple(id(n) for n in p))
    got_paths = []
    for first, path in cps:
        if not isinstance(first, (pyrtl.Input, pyrtl.Const, pyrtl.Register)):
            return dict(failed=True, observed='critical path starts at %s' % first.name,
                        expected='a source wire')
        tot = sum(_delay(n, funcs) for n in path)
        if abs(tot - mx) > 1e-9:
            return dict(failed=True, observed=dict(path=[str(n).strip() for n in path], sum=tot),
                        expected=mx)
        prev = first
        for n in path:
            if not any(a is prev for a in n.args):
                return dict(failed=True, observed='critical path not connected at %s' % str(n).strip(),
                            expected='chain')
            prev = n.dests[0]
        got_paths.append(tuple(id(n) for n in path))
    if sorted(got_paths) != sorted(exp_paths):
        return dict(failed=True, observed=dict(n_paths=len(got_paths)), expected=dict(n_paths=len(exp_paths)))
    return dict(failed=False, observed='ok', expected='ok', wires=len(ref), crit=len(exp_paths))


def ref_paths(block, s, d):
    """Simple net paths from wire s to wire d: no net repeated and the source wire not re-entered;
    a memory write net continues at every read port of that memory."""
    readers = {}
    for n in block.logic:
        for a in set(n.args):
            readers.setdefault(a, []).append(n)
    out = []

    def dfs(w, path, used):
        if w is d and path:
            out.append(tuple(id(n) for n in path))
        for n in readers.get(w, []):
            if id(n) in used:
                continue
            if n.op == '@':
                for rn in n.op_param[1].readport_nets:
                    if id(rn) in used or rn not in block.logic:
                        continue
                    nw = rn.dests[0]
                    if nw is s and s is not d:
                        continue
                    dfs(nw, path + [n, rn], used | {id(n), id(rn)})
            else:
                if not n.dests:
                    continue
                nw = n.dests[0]
                if nw is s and s is not d:
                    continue
                dfs(nw, path + [n], used | {id(n)})
    dfs(s, [], set())
    return out


def paths_fanout(design):
    import pyrtl
    from fam import designs
    block = designs.build(design)
    srcs = sorted(block.wirevector_subset((pyrtl.Input, pyrtl.Register)), key=lambda w: w.name)
    dsts = sorted(block.wirevector_subset((pyrtl.Output, pyrtl.Register)), key=lambda w: w.name)
    pairs = 0
    with pyrtl.set_working_block(block, no_sanity_check=True):
        res = pyrtl.paths(srcs, dsts, block=block)
        for s in srcs:
            for d in dsts:
                pairs += 1
                got = sorted(tuple(id(n) for n in p) for p in res[s][d])
                exp = sorted(ref_paths(block, s, d))
                if got != exp:
                    return dict(failed=True, observed=dict(src=s.name, dst=d.name, n_paths=len(got)),
                                expected=dict(n_paths=len(exp)))
        # distance sums
        if srcs and dsts:
            s, d = srcs[0], dsts[0]
            dist = pyrtl.distance(s, d, lambda n: DELAYS[n.op] + 1, block=block)
            for path, val in dist.items():
                if val != sum(DELAYS[n.op] + 1 for n in path):
                    return dict(failed=True, observed=dict(distance=val), expected='sum over path')
        for w in sorted(block.wirevector_set, key=lambda w: w.name):
            exp = sum(1 for n in block.logic for a in n.args if a is w)
            got = pyrtl.fanout(w)
            if got != exp:
                return dict(failed=True, observed=dict(wire=w.name, fanout=got), expected=exp)
    # the analyses read the block of the wire they are given, whatever the working block is
    pyrtl.reset_working_block()
    other = pyrtl.Input(1, 'unrelated_input')
    sink = pyrtl.Output(1, 'unrelated_output')
    sink <<= other
    for w in sorted(block.wirevector_set, key=lambda w: w.name):
        exp = sum(1 for n in block.logic for a in n.args if a is w)
        got = pyrtl.fanout(w)
        if got != exp:
            return dict(failed=True, observed=dict(wire=w.name, fanout_with_other_working_block=got), expected=exp)
    # a history: the netlist is rewritten in place by passes (some replace block.logic wholesale, with the same
    # or another number of nets) between queries - every query answers for the netlist as it is NOW
    for pname in ('direct_connect_outputs', 'constant_propagation', 'common_subexp_elimination', 'optimize'):
        try:
            with pyrtl.set_working_block(block, no_sanity_check=True):
                if pname == 'direct_connect_outputs':
                    pyrtl.direct_connect_outputs(block)
                else:
                    import io as _io
                    import contextlib as _cl
                    with _cl.redirect_stdout(_io.StringIO()):
                        getattr(pyrtl, pname)(block=block) if pname == 'optimize' else getattr(pyrtl.passes, pname)(block)
        except pyrtl.PyrtlError:
            break
        for w in sorted(block.wirevector_set, key=lambda w: w.name):
            exp = sum(1 for n in block.logic for a in n.args if a is w)
            got = pyrtl.fanout(w)
            if got != exp:
                return dict(failed=True, observed=dict(wire=w.name, fanout=got, after=pname), expected=exp)
    return dict(failed=False, observed='ok', expected='ok', pairs=pairs)


@__import__('fam.designs', fromlist=['design']).design
def near_tie(w=1):
    """reconvergence of two branches whose default delays differ by less than 0.1 ps
    (1-bit '&' 98.5 vs 1-bit '*' 98.57), and of two exactly tied branches"""
    import pyrtl
    a = pyrtl.Input(w, 'in0')
    b = pyrtl.Input(w, 'in1')
    x = a & b
    y = (a * b)[0:w]
    o = pyrtl.Output(w, 'out0')
    o <<= x ^ y
    z = a | b
    z2 = b | a
    o1 = pyrtl.Output(w, 'out1')
    o1 <<= z & z2


@__import__('fam.designs', fromlist=['design']).design
def reconverge(w=2):
    """reconvergent fan-out from an Input, equal-delay ties, register loop, memory write->read"""
    import pyrtl
    a = pyrtl.Input(w, 'in0')
    b = pyrtl.Input(w, 'in1')
    s1 = a + b
    s2 = a - b
    cat = pyrtl.concat(a, s1[:w])
    r = pyrtl.Register(w, 'r')
    r.next <<= (r ^ a)
    m = pyrtl.MemBlock(bitwidth=w, addrwidth=1, name='m', asynchronous=True)
    m[b[0]] <<= pyrtl.MemBlock.EnabledWrite(s2[:w], a[0])
    o0 = pyrtl.Output(2 * w, 'out0')
    o0 <<= cat
    o1 = pyrtl.Output(w, 'out1')
    o1 <<= (s1[:w] & s2[:w]) | r
    o2 = pyrtl.Output(w, 'out2')
    o2 <<= m[a[0]]


@__import__('fam.designs', fromlist=['design']).design
def two_mems(aw=2):
    """two memories with the same address width but different word widths (different read delays)"""
    import pyrtl
    a = pyrtl.Input(aw, 'in0')
    b = pyrtl.Input(aw, 'in1')
    m1 = pyrtl.MemBlock(bitwidth=2, addrwidth=aw, name='m1', asynchronous=True)
    m2 = pyrtl.MemBlock(bitwidth=9, addrwidth=aw, name='m2', asynchronous=True)
    r1 = pyrtl.RomBlock(bitwidth=5, addrwidth=aw, romdata=[1, 2, 3, 4][:2 ** aw], name='r1', asynchronous=True)
    o1 = pyrtl.Output(2, 'out0')
    o1 <<= m1[a]
    o2 = pyrtl.Output(9, 'out1')
    o2 <<= m2[b] + 1
    o3 = pyrtl.Output(5, 'out2')
    o3 <<= r1[a] ^ r1[b]
    m1[b] <<= pyrtl.MemBlock.EnabledWrite(a, a[0])
    m2[a] <<= pyrtl.MemBlock.EnabledWrite(pyrtl.concat(a, b, a, b, a[0])[:9], b[0])


@__import__('fam.designs', fromlist=['design']).design
def mem_loops(nports=3):
    """a memory whose write address / data / enable depend on its own read ports, several read
    ports created before and after the write: paths go read port -> write -> another read port"""
    import pyrtl
    a = pyrtl.Input(2, 'in0')
    b = pyrtl.Input(2, 'in1')
    m = pyrtl.MemBlock(bitwidth=2, addrwidth=2, name='m', max_read_ports=nports + 2, asynchronous=True)
    reads = [m[(a + i)[:2]] for i in range(nports)]
    m[reads[0] ^ b] <<= pyrtl.MemBlock.EnabledWrite(~reads[1] if nports > 1 else ~reads[0], (reads[0] == b))
    late = m[b]
    for i, r in enumerate(reads + [late]):
        o = pyrtl.Output(2, 'out%d' % i)
        o <<= r
    r = pyrtl.Register(2, 'r')
    r.next <<= late ^ r
    o = pyrtl.Output(2, 'out_r')
    o <<= r
