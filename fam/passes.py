"""Pass registry (pure PyRTL): name -> callable(block) returning (result_block, corr).

corr describes how the interface and state of the result correspond to the source:
  corr['in'] / corr['out'] / corr['reg'] : {source name: [(result name, lo_bit, width), ...]}
  corr['mem']                             : {source mem name: result MemBlock}
Identity-by-name is the default for in-place passes.  For synthesize the maps are read from
the returned PostSynthBlock (io_map / reg_map / mem_map) -- these maps are part of the
contract (C03): they must be keyed by the *original* objects.
"""
import contextlib
import io
import pyrtl


class MapError(Exception):
    """The documented interface maps of a pass result are not as the contract requires."""


def _mems(block):
    """memories of a block under a unique key: the name, or name#id when several memories share a
    name (names need not be unique; copies keep the id)"""
    ms = {}
    for n in block.logic:
        if n.op in 'm@':
            ms[id(n.op_param[1])] = n.op_param[1]
    names = [m.name for m in ms.values()]
    out = {}
    for m in ms.values():
        out[m.name if names.count(m.name) == 1 else '%s#%d' % (m.name, m.id)] = m
    return out


def memkey(block, mem):
    for k, m in _mems(block).items():
        if m is mem:
            return k
    return mem.name


def identity_corr(a_info, b):
    corr = {'in': {}, 'out': {}, 'reg': {}, 'mem': {}}
    for kind, names in (('in', a_info['in']), ('out', a_info['out']), ('reg', a_info['reg'])):
        for nm, w in names.items():
            corr[kind][nm] = [(nm, 0, w)]
    bm = _mems(b)
    for nm in a_info['mem']:
        if nm in bm:
            corr['mem'][nm] = bm[nm]
    return corr


def info(block):
    return {
        'in': {w.name: w.bitwidth for w in block.wirevector_subset(pyrtl.Input)},
        'out': {w.name: w.bitwidth for w in block.wirevector_subset(pyrtl.Output)},
        'reg': {w.name: w.bitwidth for w in block.wirevector_subset(pyrtl.Register)},
        'mem': {k: v for k, v in _mems(block).items()},
        'objs': {w.name: w for w in block.wirevector_set},
    }


def synth_corr(a_info, a_block, b):
    """Correspondence read from the PostSynthBlock maps; checks they are keyed by the original
    objects (property C03: 'io_map, reg_map and mem_map are keyed by the original design's
    I/O wires, registers and memories')."""
    corr = {'in': {}, 'out': {}, 'reg': {}, 'mem': {}}
    for kind, cls in (('in', pyrtl.Input), ('out', pyrtl.Output)):
        for w in a_block.wirevector_subset(cls):
            if w not in b.io_map:
                raise MapError('io_map has no entry keyed by original %s %r' % (cls.__name__, w.name))
            lst = b.io_map[w]
            if len(lst) == 1 and lst[0].bitwidth == w.bitwidth:
                corr[kind][w.name] = [(lst[0].name, 0, w.bitwidth)]
            elif len(lst) == w.bitwidth and all(x.bitwidth == 1 for x in lst):
                corr[kind][w.name] = [(x.name, i, 1) for i, x in enumerate(lst)]
            else:
                raise MapError('io_map[%s] has unexpected shape %r' % (w.name, [x.name for x in lst]))
    for r in a_block.wirevector_subset(pyrtl.Register):
        if r not in b.reg_map:
            raise MapError('reg_map has no entry keyed by original Register %r' % r.name)
        lst = b.reg_map[r]
        if len(lst) != r.bitwidth or any(x.bitwidth != 1 for x in lst):
            raise MapError('reg_map[%s] is not a list of %d one-bit registers' % (r.name, r.bitwidth))
        corr['reg'][r.name] = [(x.name, i, 1) for i, x in enumerate(lst)]
    for nm, m in a_info['mem'].items():
        if isinstance(m, pyrtl.RomBlock):
            continue
        if m not in b.mem_map:
            raise MapError('mem_map has no entry keyed by original MemBlock %r' % nm)
        corr['mem'][nm] = b.mem_map[m]
    return corr


def _quiet(fn):
    buf = io.StringIO()
    with contextlib.redirect_stdout(buf):
        return fn()


def _inplace(fn):
    def run(block):
        ai = info(block)
        with pyrtl.set_working_block(block, no_sanity_check=True):
            _quiet(fn)
        return block, identity_corr(ai, block)
    return run


def _synth(**kw):
    def run(block):
        ai = info(block)
        b = _quiet(lambda: pyrtl.synthesize(block=block, **kw))
        return b, synth_corr(ai, block, b)
    return run


def _seq(*names):
    def run(block):
        ai = info(block)
        b = block
        corr = identity_corr(ai, block)
        first = True
        for nm in names:
            b2, c2 = PASSES[nm](b)
            corr = compose(corr, c2) if not first else c2
            first = False
            b = b2
        return b, corr
    return run


def compose(c1, c2):
    out = {'in': {}, 'out': {}, 'reg': {}, 'mem': {}}
    for kind in ('in', 'out', 'reg'):
        for nm, pieces in c1[kind].items():
            res = []
            for (mid, lo, w) in pieces:
                for (bn, lo2, w2) in c2[kind].get(mid, []):
                    res.append((bn, lo + lo2, w2))
            out[kind][nm] = res
    for nm, m in c1['mem'].items():
        # c2 is keyed by the intermediate block's memory keys: same scheme, same ids
        for k2, m2 in c2['mem'].items():
            if k2 == m.name or k2 == '%s#%d' % (m.name, m.id):
                out['mem'][nm] = m2
    return out


def _optimize_copy(block):
    ai = info(block)
    b = _quiet(lambda: pyrtl.optimize(update_working_block=False, block=block))
    return b, identity_corr(ai, b)


def _copy(block):
    ai = info(block)
    b = pyrtl.copy_block(block, update_working_block=False)
    return b, identity_corr(ai, b)


def _blockfn(fn):
    def run(block):
        ai = info(block)
        with pyrtl.set_working_block(block, no_sanity_check=True):
            _quiet(lambda: fn(block))
        return block, identity_corr(ai, block)
    return run


PASSES = {
    'synthesize': _synth(),
    'synthesize_unmerged': _synth(merge_io_vectors=False),
    'synthesize_noupdate': _synth(update_working_block=False),
    'optimize': _blockfn(lambda b: pyrtl.optimize(block=b)),
    'optimize_copy': _optimize_copy,
    'copy_block': _copy,
    'constant_propagation': _blockfn(lambda b: pyrtl.constant_propagation(b, True)),
    'common_subexp_elimination': _blockfn(lambda b: pyrtl.common_subexp_elimination(b)),
    'remove_wire_nets': _blockfn(lambda b: pyrtl.passes._remove_wire_nets(b)),
    'remove_slice_nets': _blockfn(lambda b: pyrtl.passes._remove_slice_nets(b)),
    'remove_unlistened_nets': _blockfn(lambda b: pyrtl.passes._remove_unlistened_nets(b)),
    'nand_synth': _blockfn(lambda b: pyrtl.nand_synth(block=b)),
    'and_inverter_synth': _blockfn(lambda b: pyrtl.and_inverter_synth(block=b)),
    'two_way_concat': _blockfn(lambda b: pyrtl.two_way_concat(block=b)),
    'one_bit_selects': _blockfn(lambda b: pyrtl.one_bit_selects(block=b)),
    'direct_connect_outputs': _blockfn(lambda b: pyrtl.direct_connect_outputs(block=b)),
    'two_way_fanout': _blockfn(lambda b: pyrtl.two_way_fanout(block=b)),
}


def seq(*names):
    key = '+'.join(names)
    if key not in PASSES:
        PASSES[key] = _seq(*names)
    return key


def _foreign(fn):
    """run a pass on `block` (handed over through its block= argument) while an unrelated, healthy
    block is the working block"""
    def run(block):
        other = pyrtl.Block()
        with pyrtl.set_working_block(other, no_sanity_check=True):
            fi = pyrtl.Input(1, 'foreign_in')
            fo = pyrtl.Output(1, 'foreign_out')
            fo <<= ~fi
        old = pyrtl.working_block()
        pyrtl.set_working_block(other, no_sanity_check=True)
        try:
            return fn(block)
        finally:
            pyrtl.set_working_block(old, no_sanity_check=True)
    return run


def _blockfn_nowb(fn):
    def run(block):
        ai = info(block)
        _quiet(lambda: fn(block))
        return block, identity_corr(ai, block)
    return run


FOREIGN = {
    'optimize_copy': _optimize_copy,
    'copy_block': _copy,
    'synthesize_noupdate': _synth(update_working_block=False),
    'two_way_fanout': _blockfn_nowb(lambda b: pyrtl.two_way_fanout(block=b)),
    'nand_synth': _blockfn_nowb(lambda b: pyrtl.nand_synth(block=b)),
    'and_inverter_synth': _blockfn_nowb(lambda b: pyrtl.and_inverter_synth(block=b)),
    'two_way_concat': _blockfn_nowb(lambda b: pyrtl.two_way_concat(block=b)),
    'one_bit_selects': _blockfn_nowb(lambda b: pyrtl.one_bit_selects(block=b)),
    'direct_connect_outputs': _blockfn_nowb(lambda b: pyrtl.direct_connect_outputs(block=b)),
    'constant_propagation': _blockfn_nowb(lambda b: pyrtl.constant_propagation(b, True)),
    'common_subexp_elimination': _blockfn_nowb(lambda b: pyrtl.common_subexp_elimination(b)),
}


def get(name):
    if name.endswith('@foreign'):
        base = name[:-len('@foreign')]
        if name not in PASSES:
            PASSES[name] = _foreign(FOREIGN[base])
        return PASSES[name]
    if name not in PASSES and '+' in name:
        seq(*name.split('+'))
    return PASSES[name]
