"""C18 (PRNG part).  Reference implementations of the published algorithms (pure Python) and the
protocol-level executable contracts; the one-step state relations are decided by SMT in props/C18."""
import random

M64 = (1 << 64) - 1


# ----------------------------------------------------------------------------- references
def lfsr_step(s, R):
    """127-bit Fibonacci LFSR, taps 126/125 (x^127 + x^126 + 1), shifting left; R >= 127 state bits"""
    nb = ((s >> 125) ^ (s >> 126)) & 1
    return ((s << 1) | nb) & ((1 << R) - 1)


def rotl64(x, k):
    return ((x << k) | (x >> (64 - k))) & M64


def xoroshiro_next(s0, s1):
    """xoroshiro128+ (2016 constants 55, 14, 36): returns (output, s0', s1')"""
    out = (s0 + s1) & M64
    s1 ^= s0
    return out, rotl64(s0, 55) ^ s1 ^ ((s1 << 14) & M64), rotl64(s1, 36)


def trivium_step(s):
    """s: list of 288 bits, s[0] = s1 of the specification. returns (z, new state)"""
    t1 = s[65] ^ s[92]
    t2 = s[161] ^ s[176]
    t3 = s[242] ^ s[287]
    z = t1 ^ t2 ^ t3
    t1 ^= (s[90] & s[91]) ^ s[170]
    t2 ^= (s[174] & s[175]) ^ s[263]
    t3 ^= (s[285] & s[286]) ^ s[68]
    return z, [t3] + s[0:92] + [t1] + s[93:176] + [t2] + s[177:287]


def trivium_load(seed):
    """documented load: key = seed[80:160] into s1..s80, IV = seed[0:80] into s94..s173,
    s286..s288 = 1"""
    key = (seed >> 80) & ((1 << 80) - 1)
    iv = seed & ((1 << 80) - 1)
    s = [0] * 288
    for i in range(80):
        s[i] = (key >> i) & 1
        s[93 + i] = (iv >> i) & 1
    s[285] = s[286] = s[287] = 1
    return s


# ----------------------------------------------------------------------------- builders
def build(kind, bitwidth, bpc=64):
    import pyrtl
    from pyrtl.rtllib import prngs
    pyrtl.reset_working_block()
    load, req = pyrtl.Input(1, 'load'), pyrtl.Input(1, 'req')
    if kind == 'lfsr':
        seed = pyrtl.Input(127, 'seed')
        r = prngs.prng_lfsr(bitwidth, load, req, seed)
        o = pyrtl.Output(bitwidth, 'rand')
        o <<= r
    elif kind == 'xoroshiro':
        seed = pyrtl.Input(128, 'seed')
        rdy, r = prngs.prng_xoroshiro128(bitwidth, load, req, seed)
        o = pyrtl.Output(bitwidth, 'rand')
        o <<= r
        ro = pyrtl.Output(1, 'ready')
        ro <<= rdy
    else:
        seed = pyrtl.Input(160, 'seed')
        rdy, r = prngs.csprng_trivium(bitwidth, load, req, seed, bits_per_cycle=bpc)
        o = pyrtl.Output(bitwidth, 'rand')
        o <<= r
        ro = pyrtl.Output(1, 'ready')
        ro <<= rdy
    return pyrtl.working_block()


# ----------------------------------------------------------------------------- protocol runs
def lfsr_protocol(bitwidth, seed=1, n=12):
    """load, then a random interleaving of req / idle / re-load cycles; rand always shows the low
    `bitwidth` bits of the reference state"""
    import pyrtl
    rnd = random.Random(seed)
    build('lfsr', bitwidth)
    sim = pyrtl.Simulation()
    R = max(127, bitwidth)
    sd = rnd.getrandbits(127) | 1
    sim.step({'load': 1, 'req': 0, 'seed': sd})
    state = sd
    for t in range(n):
        act = rnd.choice(['req', 'req', 'idle', 'load', 'both'])
        inp = {'load': int(act in ('load', 'both')), 'req': int(act in ('req', 'both')), 'seed': sd}
        sim.step(inp)
        if sim.inspect('rand') != state & ((1 << bitwidth) - 1):
            return dict(failed=True, observed=dict(cycle=t, rand=sim.inspect('rand')),
                        expected=state & ((1 << bitwidth) - 1))
        if inp['load']:
            state = sd
        elif inp['req']:
            for _ in range(bitwidth):
                state = lfsr_step(state, R)
    return dict(failed=False, observed='ok', expected='ok')


def xoroshiro_protocol(bitwidth, seed=1, n=4, special=None):
    import pyrtl
    rnd = random.Random(seed)
    build('xoroshiro', bitwidth)
    sim = pyrtl.Simulation()
    sd = rnd.getrandbits(128) | 1
    if special is not None:
        # seeds with a structure random seeds never have: low word zero, high word zero, one bit, all ones
        sd = [1 << 64, 0x9e3779b97f4a7c15 << 64, 0x9e3779b97f4a7c15, 1, (1 << 128) - 1, 1 << 127][special]
    sim.step({'load': 1, 'req': 0, 'seed': sd})
    s0, s1 = sd & M64, sd >> 64
    words = (bitwidth + 63) // 64
    for k in range(n):
        sim.step({'load': 0, 'req': 1, 'seed': 0})
        if sim.inspect('ready') != 0:
            return dict(failed=True, observed=dict(request=k, ready_in_request_cycle=1),
                        expected='ready low in the request cycle (the number is not there yet)')
        ws = []
        for _ in range(words):
            o, s0, s1 = xoroshiro_next(s0, s1)
            ws.append(o)
        cyc = 0
        while True:
            sim.step({'load': 0, 'req': 0, 'seed': 0})
            cyc += 1
            if sim.inspect('ready') == 1:
                break
            if cyc > words + 3:
                return dict(failed=True, observed='ready never asserted', expected='ready within %d cycles' % (words + 1))
        full = 0
        for w in ws:
            full = (full << 64) | w
        exp = full >> (64 * words - bitwidth)           # MSBs of the collected words
        if sim.inspect('rand') != exp:
            return dict(failed=True, observed=dict(request=k, rand=hex(sim.inspect('rand'))), expected=hex(exp))
        # idle cycles keep ready and rand
        sim.step({'load': 0, 'req': 0, 'seed': 0})
        if sim.inspect('rand') != exp or sim.inspect('ready') != 1:
            return dict(failed=True, observed=dict(request=k, after_idle=hex(sim.inspect('rand')),
                                                   ready=sim.inspect('ready')), expected=hex(exp))
    # reseeding histories: (a) reseed after completed requests, idle, then request; (b) reseed in the
    # middle of a generation.  A reseed alone produces no number (ready stays low until a request
    # made after it completes), and the next request returns the first words of the NEW stream.
    for scenario in ('idle', 'mid'):
        sd = rnd.getrandbits(128) | 1
        if scenario == 'mid':
            sim.step({'load': 0, 'req': 1, 'seed': 0})            # start a generation ...
            sim.step({'load': 1, 'req': 0, 'seed': sd})           # ... and reseed right away
        else:
            sim.step({'load': 1, 'req': 0, 'seed': sd})
        s0, s1 = sd & M64, sd >> 64
        for i in range(words + 2):
            sim.step({'load': 0, 'req': 0, 'seed': 0})
            if sim.inspect('ready') == 1:
                return dict(failed=True, observed=dict(scenario=scenario, idle_cycle=i, ready=1),
                            expected='ready low: no request since the reseed')
        sim.step({'load': 0, 'req': 1, 'seed': 0})
        ws = []
        for _ in range(words):
            o, s0, s1 = xoroshiro_next(s0, s1)
            ws.append(o)
        cyc = 0
        while True:
            sim.step({'load': 0, 'req': 0, 'seed': 0})
            cyc += 1
            if sim.inspect('ready') == 1:
                break
            if cyc > words + 3:
                return dict(failed=True, observed='ready never asserted after reseed (%s)' % scenario,
                            expected='ready within %d cycles' % (words + 1))
        full = 0
        for w in ws:
            full = (full << 64) | w
        exp = full >> (64 * words - bitwidth)
        if sim.inspect('rand') != exp or cyc != words:
            return dict(failed=True, observed=dict(scenario=scenario, rand=hex(sim.inspect('rand')), cycles=cyc),
                        expected=dict(rand=hex(exp), cycles=words))
    return dict(failed=False, observed='ok', expected='ok')


def trivium_protocol(bitwidth, bpc, seed=1, n=3):
    import pyrtl
    rnd = random.Random(seed)
    build('trivium', bitwidth, bpc)
    sim = pyrtl.Simulation()
    sd = rnd.getrandbits(160)
    sim.step({'load': 1, 'req': 0, 'seed': sd})
    s = trivium_load(sd)
    # warm-up: exactly 1152 discarded bits
    for _ in range(1152):
        _, s = trivium_step(s)
    cyc = 0
    while True:
        sim.step({'load': 0, 'req': 0, 'seed': 0})
        cyc += 1
        if sim.inspect('ready') == 1:
            break
        if cyc > 1152 // bpc + 4:
            return dict(failed=True, observed='ready never asserted after load', expected='ready after init')
    if cyc > 1152 // bpc + 2:
        return dict(failed=True, observed=dict(init_cycles=cyc), expected=1152 // bpc + 1)
    gen_cycles = (bitwidth + bpc - 1) // bpc
    for k in range(n):
        sim.step({'load': 0, 'req': 1, 'seed': 0})
        if sim.inspect('ready') != 0:
            return dict(failed=True, observed=dict(request=k, ready_in_request_cycle=1),
                        expected='ready low in the request cycle (the number is not there yet)')
        bits = []
        for _ in range(gen_cycles * bpc):
            z, s = trivium_step(s)
            bits.append(z)
        cyc = 0
        while True:
            sim.step({'load': 0, 'req': 0, 'seed': 0})
            cyc += 1
            if sim.inspect('ready') == 1:
                break
            if cyc > gen_cycles + 3:
                return dict(failed=True, observed='ready never asserted after req', expected='ready')
        full = 0
        for b in bits:
            full = (full << 1) | b                      # earliest bit at the MSB
        exp = full & ((1 << bitwidth) - 1)              # rand register keeps the last `bitwidth` bits
        if sim.inspect('rand') != exp:
            return dict(failed=True, observed=dict(request=k, rand=hex(sim.inspect('rand'))), expected=hex(exp))
    return dict(failed=False, observed='ok', expected='ok')
