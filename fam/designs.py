"""Design family shared by the pass-level contracts (C03, C04, C05, C08, C09, C11, C20).
Pure PyRTL - no solver import - so the replay interpreter can rebuild any member from
its name/parameters.  Every builder constructs into the current working block."""
import random
import pyrtl


DESIGNS = {}


def design(fn):
    DESIGNS[fn.__name__] = fn
    return fn


def build(spec):
    """spec: {'name': str, 'params': {...}} -> working block (freshly reset)."""
    pyrtl.reset_working_block()
    DESIGNS[spec['name']](**spec.get('params', {}))
    return pyrtl.working_block()


def _io(widths):
    return [pyrtl.Input(w, 'in%d' % i) for i, w in enumerate(widths)]


def _out(w, name='out0'):
    o = pyrtl.Output(len(w), name)
    o <<= w
    return o


@design
def binop(op='+', wa=3, wb=3):
    a, b = _io([wa, wb])
    r = {'+': lambda: a + b, '-': lambda: a - b, '*': lambda: a * b, '&': lambda: a & b,
         '|': lambda: a | b, '^': lambda: a ^ b, 'n': lambda: a.nand(b), '<': lambda: a < b,
         '>': lambda: a > b, '=': lambda: a == b, '<=': lambda: a <= b, '>=': lambda: a >= b,
         '!=': lambda: a != b}[op]()
    _out(r)


@design
def unop(op='~', wa=3):
    a, = _io([wa])
    _out({'~': lambda: ~a, 'w': lambda: a}[op]())


@design
def mux2(w=3):
    s, a, b = _io([1, w, w])
    _out(pyrtl.select(s, a, b))


@design
def concat3(wa=2, wb=1, wc=3):
    a, b, c = _io([wa, wb, wc])
    _out(pyrtl.concat(a, b, c))


@design
def concat_many(n=11, w=22):
    """concatenations with many operands (n single wires; every other bit of a w-bit wire, which
    one_bit_selects turns into a w/2-operand concat)"""
    ios = _io([w] + [1 + (i % 2) for i in range(n)])
    a, bits = ios[0], ios[1:]
    _out(pyrtl.concat(*bits), 'out0')
    _out(a[::2], 'out1')
    _out(a[1::3], 'out2')


@design
def slices(w=5):
    a, = _io([w])
    _out(a[1:w - 1] if w > 2 else a[0], 'out0')
    _out(a[::-1], 'out1')
    _out(a[::2], 'out2')
    _out(pyrtl.concat(a[0], a[0], a[w - 1]), 'out3')
    _out(a[0:w], 'out4')


@design
def trunc_ext(w=4):
    a, b = _io([w, w])
    o = pyrtl.Output(w - 1 if w > 1 else 1, 'out0')
    o <<= a + b
    o2 = pyrtl.Output(w + 3, 'out1')
    o2 <<= a - b
    o3 = pyrtl.Output(2 * w + 2, 'out2')
    o3 <<= a * b


@design
def consts(w=4):
    a, = _io([w])
    _out(a + 1, 'out0')
    _out(a & pyrtl.Const(5, bitwidth=w), 'out1')
    _out(pyrtl.Const(3, 2).nand(pyrtl.Const(3, 2)), 'out2')
    _out(a | 0, 'out3')
    _out(pyrtl.Const(6, 3) ^ pyrtl.Const(3, 3), 'out4')
    _out(~pyrtl.Const(2, 3), 'out5')
    _out((a ^ pyrtl.Const(0, bitwidth=w)).nand(pyrtl.Const(2 ** w - 1, bitwidth=w)), 'out6')


@design
def wide_consts(w=40):
    """constants wider than 16 / 32 / 64 bits with non-trivial digits (decimal and hex readings differ),
    registers reset to such values"""
    a, = _io([w])
    k1 = (0x1200000034 << max(0, w - 40)) % (2 ** w) | 0x9
    k2 = (2 ** w - 1) ^ 0x5A5
    _out(a + pyrtl.Const(k1, bitwidth=w), 'out0')
    _out(a < pyrtl.Const(k2, bitwidth=w), 'out1')
    _out(a ^ pyrtl.Const(k2, bitwidth=w), 'out2')
    r = pyrtl.Register(w, 'r', reset_value=k1)
    r.next <<= r + a
    _out(r, 'out3')


@design
def const_fold_widths():
    """all-constant nets of DIFFERENT widths that fold to the same integer in one pass"""
    a, = _io([4])
    k4 = pyrtl.Const(12, bitwidth=4) & pyrtl.Const(6, bitwidth=4)      # 4, four bits
    k3 = pyrtl.Const(7, bitwidth=3) ^ pyrtl.Const(3, bitwidth=3)       # 4, three bits
    k6 = pyrtl.Const(33, bitwidth=6) | pyrtl.Const(4, bitwidth=6)      # 37, six bits
    k1 = pyrtl.Const(1, bitwidth=1) & pyrtl.Const(1, bitwidth=1)       # 1, one bit
    k2 = pyrtl.Const(2, bitwidth=2) ^ pyrtl.Const(3, bitwidth=2)       # 1, two bits
    _out(a + k4, 'out0')
    _out(pyrtl.concat(k3, a), 'out1')
    _out(k6 ^ a, 'out2')
    _out(pyrtl.concat(k1, k2, k3), 'out3')


@design
def arith_consts(w=3):
    """word-level arithmetic / comparison with a constant operand on either side: 0, 1, powers of two, others,
    constants narrower and wider than the other operand"""
    a, = _io([w])
    k = 0
    for c, cw in ((0, 1), (0, w), (1, 1), (2, 2), (4, w + 2), (3, 2), (2 ** w - 1, w), (1, w + 2)):
        _out(a * pyrtl.Const(c, bitwidth=cw), 'out%d' % k)
        _out(pyrtl.Const(c, bitwidth=cw) * a, 'out%d' % (k + 1))
        k += 2
    for c, cw in ((0, 1), (0, w), (1, w), (2 ** w - 1, w)):
        _out(a + pyrtl.Const(c, bitwidth=cw), 'out%d' % k)
        _out(pyrtl.Const(c, bitwidth=cw) - a, 'out%d' % (k + 1))
        _out(a - pyrtl.Const(c, bitwidth=cw), 'out%d' % (k + 2))
        _out(a < pyrtl.Const(c, bitwidth=cw), 'out%d' % (k + 3))
        _out(pyrtl.Const(c, bitwidth=cw) > a, 'out%d' % (k + 4))
        k += 5


@design
def fold_in_place(w=1):
    """gates with one constant operand that constant propagation replaces one-for-one (same number of nets
    before and after): by a constant, by a plain wire, by an inverter"""
    i, j = _io([w, w])
    zero, ones = pyrtl.Const(0, bitwidth=w), pyrtl.Const(2 ** w - 1, bitwidth=w)
    _out(i & zero, 'out0')
    _out(i | j, 'out1')
    _out(i | zero, 'out2')
    _out(j ^ ones, 'out3')
    _out(j & ones, 'out4')
    _out(i ^ zero, 'out5')


@design
def const_select(w=3):
    """muxes whose select operand is a constant (elaboration-time flags), both polarities and both forms"""
    a, b = _io([w, w])
    _out(pyrtl.select(pyrtl.Const(1, bitwidth=1), a, b), 'out0')
    _out(pyrtl.select(pyrtl.Const(0, bitwidth=1), a, b), 'out1')
    _out(pyrtl.select(True, a + 1, b), 'out2')
    _out(pyrtl.select(0, a, b - 1), 'out3')
    r = pyrtl.Register(w, 'acc', reset_value=5 % (2 ** w))
    r.next <<= pyrtl.select(pyrtl.Const(1, bitwidth=1), (r + a)[:w], r)
    _out(r, 'out4')


@design
def regs_same_next(w=4):
    """registers fed by ONE next-state wire but reset to different values (no pass may merge them)"""
    a, = _io([w])
    nxt = (a + 1)[:w]
    for i, nm in enumerate(['ra', 'rb', 'rc']):
        r = pyrtl.Register(w, nm, reset_value=(3 * i + 1) % (2 ** w))
        r.next <<= nxt
        _out(r, 'out%d' % i)


@design
def reg_chain(w=3, n=6):
    """a delay line of registers fed directly by registers (several hops), and a swapped pair"""
    a, = _io([w])
    prev = a
    for i in range(n):
        r = pyrtl.Register(w, 'd%d' % i, reset_value=(i + 1) % (2 ** w))
        r.next <<= prev
        prev = r
    _out(prev, 'out0')
    x = pyrtl.Register(w, 'x', reset_value=1)
    y = pyrtl.Register(w, 'y', reset_value=2 % (2 ** w))
    x.next <<= y
    y.next <<= x
    _out(x, 'out1')


@design
def counter(w=3, reset_value=None):
    en, = _io([1])
    r = pyrtl.Register(w, 'cnt', reset_value=reset_value)
    r.next <<= pyrtl.select(en, r + 1, r)
    _out(r)


@design
def regs_reset(w=4):
    a, = _io([w])
    r1 = pyrtl.Register(w, 'r1', reset_value=5 % (2 ** w))
    r2 = pyrtl.Register(w, 'r2', reset_value=(2 ** w) - 1)
    r3 = pyrtl.Register(1, 'r3')
    r1.next <<= a
    r2.next <<= r1 ^ r2
    r3.next <<= ~r3
    _out(r1 + r2, 'out0')
    _out(r3, 'out1')


@design
def reg_swap(w=2):
    a, = _io([w])
    r1 = pyrtl.Register(w, 'r1', reset_value=1)
    r2 = pyrtl.Register(w, 'r2', reset_value=2 % (2 ** w))
    r1.next <<= r2
    r2.next <<= r1 ^ a
    _out(r1, 'out0')
    _out(r2, 'out1')


@design
def reg_const_next(w=2):
    """register whose next value is a compile-time constant (the sanctioned case of C04)"""
    a, = _io([w])
    r = pyrtl.Register(w, 'rc')
    r.next <<= pyrtl.Const(2 % (2 ** w), bitwidth=w)
    _out(r ^ a)


@design
def reg_to_out(w=3):
    a, = _io([w])
    r = pyrtl.Register(w, 'r')
    r.next <<= a
    _out(r)


@design
def mem_rw(aw=2, dw=3, asynchronous=True, two_reads=False):
    ra, wa, wd, we = _io([aw, aw, dw, 1])
    m = pyrtl.MemBlock(bitwidth=dw, addrwidth=aw, name='m', asynchronous=asynchronous,
                       max_read_ports=None)
    _out(m[ra])
    if two_reads:
        _out(m[wa], 'out1')
    m[wa] <<= pyrtl.MemBlock.EnabledWrite(wd, we)


@design
def mem_const_addr(aw=2, dw=3):
    """a writable memory read at a constant address (the read is state, not a constant) and logic
    computed only from that read and constants"""
    wa, wd, we = _io([aw, dw, 1])
    m = pyrtl.MemBlock(bitwidth=dw, addrwidth=aw, name='m', asynchronous=True)
    k = m[pyrtl.Const(1, bitwidth=aw)]
    _out(k)
    _out((k + pyrtl.Const(1, bitwidth=dw))[:dw], 'out1')
    m[wa] <<= pyrtl.MemBlock.EnabledWrite(wd, we)


@design
def mem_reg_ports(aw=2, dw=3):
    """a write port whose address, data and enable are Registers directly (no net in between)"""
    ra, wa, wd, we = _io([aw, aw, dw, 1])
    r_a, r_d, r_e = pyrtl.Register(aw, 'r_a'), pyrtl.Register(dw, 'r_d'), pyrtl.Register(1, 'r_e')
    r_a.next <<= wa
    r_d.next <<= wd
    r_e.next <<= we
    m = pyrtl.MemBlock(bitwidth=dw, addrwidth=aw, name='m', asynchronous=True)
    _out(m[ra])
    m[r_a] <<= pyrtl.MemBlock.EnabledWrite(r_d, r_e)


@design
def mem_readonly(aw=2, dw=3):
    """a MemBlock (not a ROM) that is only read: its contents come from memory_value_map"""
    ra, rb = _io([aw, aw])
    m = pyrtl.MemBlock(bitwidth=dw, addrwidth=aw, name='lut', asynchronous=True, max_read_ports=None)
    _out(m[ra])
    _out(m[rb] ^ m[ra], 'out1')


@design
def rom_same_name(n=3):
    """several ROMs sharing one name (explicitly, and through build_new_roms clones)"""
    a, = _io([2])
    outs = []
    for i in range(n):
        r = pyrtl.RomBlock(4, 2, [(5 * i + 3 * j + 1) % 16 for j in range(4)], name='rom', asynchronous=True)
        outs.append(r[a])
    c = pyrtl.RomBlock(4, 2, [9, 4, 13, 2], name='rom', max_read_ports=1, build_new_roms=True,
                       asynchronous=True)
    outs.append(c[a])
    outs.append(c[(a + 1)[:2]])
    for i, w in enumerate(outs):
        _out(w, 'out%d' % i)


@design
def mems_same_name(aw=1, dw=3):
    """two distinct writable memories that were given the same name (a helper instantiated twice)"""
    ra, wa, wd, we = _io([aw, aw, dw, 1])
    outs = []
    for i in range(2):
        m = pyrtl.MemBlock(bitwidth=dw, addrwidth=aw, name='table', asynchronous=True)
        m[wa] <<= pyrtl.MemBlock.EnabledWrite((wd + i)[:dw], we)
        outs.append(m[ra])
    _out(outs[0], 'out0')
    _out(outs[1] ^ outs[0], 'out1')


@design
def mem_sync(aw=2, dw=3):
    ra, wa, wd, we = _io([aw, aw, dw, 1])
    rr = pyrtl.Register(aw, 'rr')
    rr.next <<= ra
    m = pyrtl.MemBlock(bitwidth=dw, addrwidth=aw, name='m')
    _out(m[rr])
    m[wa] <<= pyrtl.MemBlock.EnabledWrite(wd, we)


@design
def mem_two_writes(aw=2, dw=2):
    ra, wa, wd, we = _io([aw, aw, dw, 1])
    m = pyrtl.MemBlock(bitwidth=dw, addrwidth=aw, name='m', asynchronous=True,
                       max_write_ports=2)
    _out(m[ra])
    m[wa] <<= pyrtl.MemBlock.EnabledWrite(wd, we)
    # second port writes the complementary address => always distinct
    m[~wa] <<= pyrtl.MemBlock.EnabledWrite(~wd, we)


@design
def mem_feeds_logic(aw=2, dw=3):
    """memory whose write data comes from logic that reaches no Output"""
    ra, wa, wd, we = _io([aw, aw, dw, 1])
    m = pyrtl.MemBlock(bitwidth=dw, addrwidth=aw, name='m', asynchronous=True)
    hidden = (wd + 1)[:dw]
    m[wa] <<= pyrtl.MemBlock.EnabledWrite(hidden ^ wd, we & (wa != 0))
    _out(m[ra])


@design
def mem_chain(aw=1, dw=2, stages=3):
    """memories chained through their write ports: stage k+1 is written with what is read from stage k, only
    the last stage reaches an Output (liveness of the upstream memories goes through the write ports)"""
    ios = _io([aw, dw, 1] + [aw] * stages)
    wa, wd, we = ios[:3]
    addrs = ios[3:]
    prev = wd
    mems = []
    for k in range(stages):
        m = pyrtl.MemBlock(bitwidth=dw, addrwidth=aw, name='stage%d' % k, asynchronous=True)
        m[wa if k == 0 else addrs[k - 1]] <<= pyrtl.MemBlock.EnabledWrite(prev, we)
        prev = m[addrs[k - 1] if k else wa] if k < stages - 1 else m[addrs[stages - 1]]
        mems.append(m)
    _out(prev)


@design
def mem_clear(aw=2, dw=3):
    """a memory with a data port, a clear port whose data is the constant 0 and a port writing another constant"""
    ra, wa, wd, we, ca, clr = _io([aw, aw, dw, 1, aw, 1])
    m = pyrtl.MemBlock(bitwidth=dw, addrwidth=aw, name='m', asynchronous=True, max_write_ports=3)
    m[wa] <<= pyrtl.MemBlock.EnabledWrite(wd, we & ~clr)
    m[ca] <<= pyrtl.MemBlock.EnabledWrite(pyrtl.Const(0, bitwidth=dw), clr & ~we)
    m2 = pyrtl.MemBlock(bitwidth=dw, addrwidth=aw, name='m2', asynchronous=True)
    m2[wa] <<= pyrtl.MemBlock.EnabledWrite(pyrtl.Const(2 ** dw - 1, bitwidth=dw), we)
    # ports whose enable is a constant: 0 (never writes) and 1 (always writes)
    m3 = pyrtl.MemBlock(bitwidth=dw, addrwidth=aw, name='m3', asynchronous=True, max_write_ports=2)
    m3[wa] <<= pyrtl.MemBlock.EnabledWrite(wd, pyrtl.Const(0, bitwidth=1))
    m3[ca] <<= pyrtl.MemBlock.EnabledWrite(~wd, pyrtl.Const(1, bitwidth=1))
    _out(m[ra], 'out0')
    _out(m2[ra], 'out1')
    _out(m3[ra], 'out2')


@design
def rom_list(aw=2, dw=4):
    a, = _io([aw])
    data = [(3 * i + 1) % (2 ** dw) for i in range(2 ** aw)]
    rom = pyrtl.RomBlock(bitwidth=dw, addrwidth=aw, romdata=data, name='rom', asynchronous=True)
    _out(rom[a])


@design
def rom_func(aw=3, dw=4):
    a, = _io([aw])
    rom = pyrtl.RomBlock(bitwidth=dw, addrwidth=aw, romdata=lambda x: (x * x + 1) % (2 ** dw),
                         name='rom', asynchronous=True, max_read_ports=None)
    _out(rom[a], 'out0')
    _out(rom[~a], 'out1')


@design
def rom_padded(aw=3, dw=4, kind='dict'):
    """ROM with partial data and pad_with_zeros=True: unlisted addresses read 0"""
    a, = _io([aw])
    data = {0: 3, 2: 9 % (2 ** dw), 5: 1} if kind == 'dict' else [7 % (2 ** dw), 1, 2]
    rom = pyrtl.RomBlock(bitwidth=dw, addrwidth=aw, romdata=data, name='rom', asynchronous=True,
                         pad_with_zeros=True)
    _out(rom[a])


@design
def const_fold(w=4):
    """every foldable op on several constant pairs (both operands constant, and one constant)"""
    a, = _io([w])
    m = (1 << w) - 1
    pairs = [(5 & m, 3 & m), (m, m), (0, m), (6 & m, 9 & m), (1, 1)]
    outs = []
    for i, (x, y) in enumerate(pairs):
        cx, cy = pyrtl.Const(x, bitwidth=w), pyrtl.Const(y, bitwidth=w)
        outs.append(cx.nand(cy) ^ a)
        outs.append((cx & cy) ^ a)
        outs.append((cx | cy) ^ a)
        outs.append((cx ^ cy) ^ a)
        outs.append((~cx) ^ a)
        outs.append(a.nand(cx) ^ (a & cy) ^ (a | cx))
    r = pyrtl.Register(w, 'rk')
    r.next <<= pyrtl.Const(5 & m, bitwidth=w).nand(pyrtl.Const(3 & m, bitwidth=w))
    outs.append(r)
    for i, o in enumerate(outs):
        _out(o, 'out%d' % i)


@design
def shared_subexp(w=3):
    a, b = _io([w, w])
    _out((a - b) | (b - a)[:w + 1], 'out0')
    _out((a < b) & (b < a) | (a > b), 'out1')
    _out((a & b) ^ (b & a), 'out2')
    _out(pyrtl.concat(a, b) ^ pyrtl.concat(b, a), 'out3')
    _out(pyrtl.select(a[0], a, b) ^ pyrtl.select(a[0], b, a), 'out4')


@design
def fanout(w=2, n=5):
    a, b = _io([w, w])
    x = a ^ b
    acc = x
    for i in range(n):
        acc = (acc & x) | a
    _out(acc, 'out0')
    _out(x & x, 'out1')


@design
def repeat_args(w=2):
    """nets that read one wire in several argument positions (adjacent and not), all reads of a wire
    inside ONE net, duplicated sub-expressions whose consumers repeat an argument"""
    a, b, s = _io([w, w, 1])
    _out(pyrtl.concat(a, a, a, a), 'out0')
    _out(pyrtl.concat(a, b, a), 'out1')
    _out(pyrtl.select(s, s, s), 'out2')
    t1 = a ^ b
    t2 = a ^ b
    _out(t1 + t1, 'out3')
    _out(pyrtl.concat(t2, t2) ^ pyrtl.concat(b, b), 'out4')
    _out((b * b)[:w], 'out5')
    x = ~b
    _out(pyrtl.concat(x, b, x), 'out6')
    # every two-input primitive with both inputs tied to one wire (a nand used as an inverter, ...)
    _out(a.nand(a), 'out7')
    _out(pyrtl.concat(a & a, a | a, a ^ a), 'out8')
    _out(pyrtl.concat(a < a, a > a, a == a, (a - a)[:w]), 'out9')


@design
def wire_chain(w=3):
    a, = _io([w])
    t = pyrtl.WireVector(w, 't1')
    t <<= a
    t2 = pyrtl.WireVector(w, 't2')
    t2 <<= t
    _out(t2, 'out0')
    _out(t2[0:w], 'out1')
    _out(a, 'out2')


@design
def mixed_alu(w=3):
    op, a, b = _io([2, w, w])
    r = pyrtl.Register(w + 1, 'acc', reset_value=3)
    res = pyrtl.mux(op, a + b, a - b, (a * b)[:w + 1], pyrtl.concat(a < b, a == b, a > b))
    r.next <<= res ^ r
    _out(r, 'out0')
    _out(res, 'out1')


def rand_design(seed=0, mem=True):
    rnd = random.Random(seed)
    ins = [pyrtl.Input(rnd.randint(1, 5), 'in%d' % i) for i in range(3)]
    pool = list(ins)
    regs = [pyrtl.Register(rnd.randint(1, 4), 'r%d' % i,
                           reset_value=rnd.choice([None, 0, 1, 1])) for i in range(2)]
    pool += regs
    m = None
    if mem and rnd.random() < 0.5:
        m = pyrtl.MemBlock(bitwidth=3, addrwidth=2, name='m', asynchronous=True,
                           max_read_ports=None)
    for k in range(rnd.randint(3, 8)):
        a = rnd.choice(pool)
        b = rnd.choice(pool)
        op = rnd.choice('+-*&|^<>=~xcsn' + ('m' if m else ''))
        if op == '+':
            r = a + b
        elif op == '-':
            r = a - b
        elif op == '*':
            r = a * b
        elif op == '&':
            r = a & b
        elif op == '|':
            r = a | b
        elif op == '^':
            r = a ^ b
        elif op == '<':
            r = a < b
        elif op == '>':
            r = a > b
        elif op == '=':
            r = a == b
        elif op == '~':
            r = ~a
        elif op == 'n':
            r = a.nand(b)
        elif op == 'x':
            r = pyrtl.select(rnd.choice(pool)[0], a, b)
        elif op == 'c':
            r = pyrtl.concat(a, b, rnd.choice(pool))
        elif op == 's':
            i = rnd.randrange(len(a))
            j = rnd.randrange(len(a))
            r = a[min(i, j):max(i, j) + 1] if rnd.random() < .7 else a[::-1]
        elif op == 'm':
            r = pyrtl.as_wires(m[a[:2] if len(a) >= 2 else a])
        if rnd.random() < 0.3:
            r = r + pyrtl.Const(rnd.randint(0, 3))
        pool.append(r)
    for i, r in enumerate(regs):
        r.next <<= rnd.choice(pool)
    if m:
        ad = rnd.choice(pool)
        da = rnd.choice(pool)
        m[ad[:2] if len(ad) >= 2 else ad] <<= pyrtl.MemBlock.EnabledWrite(
            da[:3] if len(da) >= 3 else da.zero_extended(3), rnd.choice(pool)[0])
    for i in range(3):
        w = rnd.choice(pool[3:])
        o = pyrtl.Output(len(w), 'out%d' % i)
        o <<= w


DESIGNS['rand_design'] = rand_design


def family(tier='quick', seed=0):
    """The C03 family as a list of specs."""
    f = []

    def add(name, **params):
        f.append({'name': name, 'params': params})
    for op in ['+', '-', '*', '&', '|', '^', 'n', '<', '>', '=', '<=', '>=', '!=']:
        add('binop', op=op, wa=3, wb=3)
        add('binop', op=op, wa=1, wb=1)
        add('binop', op=op, wa=2, wb=4)
    add('binop', op='-', wa=4, wb=4)
    add('binop', op='*', wa=3, wb=5)
    add('unop', op='~', wa=3)
    add('unop', op='w', wa=2)
    for w in (1, 3):
        add('mux2', w=w)
    add('concat3')
    add('concat3', wa=1, wb=1, wc=1)
    add('slices', w=5)
    add('slices', w=2)
    add('trunc_ext', w=3)
    add('consts', w=3)
    add('counter', w=3)
    add('counter', w=3, reset_value=5)
    add('counter', w=3, reset_value=0)
    add('regs_reset', w=4)
    add('reg_swap', w=2)
    add('reg_chain')
    add('const_select')
    add('const_fold_widths')
    add('arith_consts')
    add('arith_consts', w=1)
    add('fold_in_place')
    add('fold_in_place', w=3)
    add('regs_same_next')
    add('reg_chain', w=1, n=3)
    add('reg_const_next', w=2)
    add('reg_to_out', w=3)
    add('mem_rw')
    add('mem_rw', aw=1, dw=1)
    add('mem_rw', two_reads=True)
    add('mem_sync')
    add('mem_two_writes')
    add('mem_feeds_logic')
    add('mem_chain')
    add('mem_clear')
    add('mem_chain', stages=2)
    add('mem_const_addr')
    add('mem_reg_ports')
    add('mem_readonly')
    add('mems_same_name')
    add('rom_same_name')
    add('rom_list')
    add('rom_func')
    add('rom_padded')
    add('rom_padded', kind='list')
    add('const_fold', w=4)
    add('const_fold', w=1)
    add('const_fold', w=3)
    add('shared_subexp', w=3)
    add('fanout', w=2, n=5)
    add('wire_chain', w=3)
    add('repeat_args', w=2)
    add('repeat_args', w=1)
    add('mixed_alu', w=3)
    n_rand = 12 if tier == 'quick' else 240
    for s in range(n_rand):
        add('rand_design', seed=1000 * seed + s)
    return f


# ----------------------------------------------------------------------- wide / limb-crossing
@design
def wide_ops(w=65, w2=None):
    """every primitive at a (possibly limb-crossing) width, each result on its own Output"""
    w2 = w2 or w
    a, b, s = _io([w, w2, 1])
    _out(a + b, 'o_add')
    _out(a - b, 'o_sub')
    if w <= 70:
        _out(a * b, 'o_mul')
    _out(a & b, 'o_and')
    _out(a | b, 'o_or')
    _out(a ^ b, 'o_xor')
    _out(a.nand(b), 'o_nand')
    _out(~a, 'o_not')
    _out(a < b, 'o_lt')
    _out(a > b, 'o_gt')
    _out(a == b, 'o_eq')
    _out(pyrtl.select(s, a, b), 'o_mux')
    _out(pyrtl.concat(a, b), 'o_cat2')
    _out(pyrtl.concat(a, b, a), 'o_cat3')
    _out(pyrtl.concat(b, a, s, b), 'o_cat4')
    _out(a[1:] if w > 1 else a, 'o_sl1')
    _out(a[::-1], 'o_rev')
    _out(a[::3], 'o_stride')
    _out(pyrtl.concat(a, b)[w2 - 1:w2 + 2], 'o_straddle')
    t = pyrtl.Output(max(1, w - 1), 'o_trunc')
    t <<= a + b
    r = pyrtl.Register(w, 'wide_r', reset_value=(1 << (w - 1)) | 1)
    r.next <<= r + a
    _out(r, 'o_reg')


@design
def wide_mem(aw=3, dw=70):
    ra, wa, wd, we = _io([aw, aw, dw, 1])
    m = pyrtl.MemBlock(bitwidth=dw, addrwidth=aw, name='m', asynchronous=True,
                       max_read_ports=None)
    _out(m[ra], 'o_rd')
    _out(m[wa], 'o_rd2')
    m[wa] <<= pyrtl.MemBlock.EnabledWrite(wd, we)


@design
def wide_rom(aw=3, dw=66):
    a, = _io([aw])
    data = [((0x9e3779b97f4a7c15 * (i + 1)) << 3 | i) % (2 ** dw) for i in range(2 ** aw)]
    rom = pyrtl.RomBlock(bitwidth=dw, addrwidth=aw, romdata=data, name='rom', asynchronous=True)
    _out(rom[a], 'o_rom')


def wide_family(tier='quick'):
    f = []
    ws = [1, 2, 31, 32, 33, 63, 64, 65, 66, 127, 128, 129, 130] if tier == 'quick' else \
        [1, 2, 3, 31, 32, 33, 63, 64, 65, 66, 95, 127, 128, 129, 130, 191, 192, 193, 255, 256, 257]
    for w in ws:
        f.append({'name': 'wide_ops', 'params': {'w': w}})
    for (w, w2) in [(31, 31), (63, 3), (64, 64), (3, 70), (65, 64)]:
        f.append({'name': 'wide_ops', 'params': {'w': w, 'w2': w2}})
    for dw in (1, 63, 64, 65, 70, 130):
        f.append({'name': 'wide_mem', 'params': {'aw': 3, 'dw': dw}})
    for dw in (8, 64, 66, 129):
        f.append({'name': 'wide_rom', 'params': {'aw': 3, 'dw': dw}})
    for w in (17, 33, 40, 65, 70):
        f.append({'name': 'wide_consts', 'params': {'w': w}})
    return f
