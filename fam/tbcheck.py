"""C05: the emitted testbench drives exactly the traced inputs and initialises every register and
memory word to the state the simulation started from - for traces of all three simulators."""
import io


def testbench(design, simname='Simulation', seed=0, nsteps=3, add_reset=True, init_mode=1,
              default_value=0, synth=False):
    import random
    import pyrtl
    from fam import designs, simcheck, vlogcheck
    from spec import vsem
    from spec.cycle import rom_value
    block = designs.build(design)
    steps = simcheck.stimuli(block, seed, nsteps)
    regmap, memmap = simcheck.init_state(block, seed, init_mode)
    simmemmap = {m: dict(d) for m, d in memmap.items()}
    if synth:
        # simulate the synthesized copy; the memory map stays keyed by the ORIGINAL memories (the
        # documented way to initialise a PostSynthBlock), registers start from reset / default
        orig = block
        with pyrtl.set_working_block(orig, no_sanity_check=True):
            block = pyrtl.synthesize(update_working_block=False, block=orig)
        regmap = {}
        memmap = {block.mem_map[m]: d for m, d in memmap.items() if not isinstance(m, pyrtl.RomBlock)}
        simmemmap = {m: dict(d) for m, d in simmemmap.items() if not isinstance(m, pyrtl.RomBlock)}
        if simname == 'CompiledSimulation':
            # CompiledSimulation refuses maps keyed by the pre-synthesis memories with a PyrtlError
            # (an explicit refusal, not a divergence): it is given the copy's own memories
            simmemmap = {block.mem_map[m]: d for m, d in simmemmap.items()}
    nm = vlogcheck.name_map(block)
    tracer = pyrtl.SimulationTrace(block=block)
    kw = dict(default_value=default_value) if default_value else {}
    sim = getattr(pyrtl, simname)(tracer=tracer, register_value_map=dict(regmap),
                                  memory_value_map=simmemmap, block=block,
                                  **kw)
    for s in steps:
        sim.step(dict(s))
    f = io.StringIO()
    with pyrtl.set_working_block(block, no_sanity_check=True):
        pyrtl.output_verilog_testbench(f, simulation_trace=tracer, add_reset=add_reset, block=block)
    tb = vsem.parse_testbench(f.getvalue())
    probs = []
    # registers: the state the simulation started from
    for r in block.wirevector_subset(pyrtl.Register):
        exp = regmap.get(r, r.reset_value)
        if exp is None:
            exp = default_value
        got = tb['regs'].get(nm[r.name])
        if got != exp:
            probs.append('register %s initialised to %r, simulation started from %d' % (r.name, got, exp))
    mems = {}
    for n in block.logic:
        if n.op in 'm@':
            mems[n.op_param[1].id] = n.op_param[1]
    for mid, mo in sorted(mems.items()):
        ent = tb['mems'].get('mem_%d' % mid)
        for a in range(2 ** mo.addrwidth):
            if isinstance(mo, pyrtl.RomBlock):
                try:
                    exp = rom_value(mo, a)
                except Exception:
                    continue
                # a ROM starts from romdata (module 'initial' block) unless the testbench overwrites it
                if ent is None:
                    continue
                got = ent['words'].get(a, ent['default'])
                if got is not None and got != exp:
                    probs.append('testbench overwrites ROM %s[%d] with %r (romdata %d)' % (mo.name, a, got, exp))
                    break
            elif simname == 'CompiledSimulation' and default_value:
                # sanctioned difference: CompiledSimulation does not apply a non-zero default_value to
                # memories, while the trace carries a single default_value; unlisted words are skipped
                if a not in memmap.get(mo, {}):
                    continue
                exp = memmap[mo][a]
                got = None if ent is None else ent['words'].get(a, ent['default'])
                if got != exp:
                    probs.append('memory %s[%d] initialised to %r, simulation started from %d' % (mo.name, a, got, exp))
                    break
            else:
                exp = memmap.get(mo, {}).get(a, default_value)
                got = None if ent is None else ent['words'].get(a, ent['default'])
                if got != exp:
                    probs.append('memory %s[%d] initialised to %r, simulation started from %d' % (mo.name, a, got, exp))
                    break
    ins = sorted(block.wirevector_subset(pyrtl.Input), key=lambda w: w.name)
    if len(tb['inputs']) != len(steps):
        probs.append('testbench drives %d cycles, trace has %d' % (len(tb['inputs']), len(steps)))
    else:
        for t, s in enumerate(steps):
            for w in ins:
                got = tb['inputs'][t].get(nm[w.name])
                if got != (s[w.name], w.bitwidth):
                    probs.append('cycle %d input %s driven with %r, trace has %d (%d bits)'
                                 % (t, w.name, got, s[w.name], w.bitwidth))
                    break
    return dict(failed=bool(probs), observed=probs[:6], expected=[])
