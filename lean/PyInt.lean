/-
  Integer-theory lemmas behind pyvc's ground axiom instances (pyvc/theory.py) and rewrites
  (pyvc/engine.py).  pow2 t is 2^t for t ≥ 0; every axiom instance pyvc adds is an instance of
  one of the statements below with the side conditions it guards (t ≥ 0, x ≥ 0, ...).
  Checked with `lean PyInt.lean` (Lean 4 + Mathlib) in the thorough tier.
-/
import Mathlib.Data.Nat.Bitwise
import Mathlib.Data.Nat.Size
import Mathlib.Tactic

namespace PyInt

/-- pow2 basic facts -/
theorem pow2_pos (t : ℕ) : 1 ≤ 2 ^ t := Nat.one_le_two_pow
theorem pow2_zero : (2:ℕ) ^ 0 = 1 := rfl
theorem pow2_succ (t : ℕ) (h : 1 ≤ t) : 2 ^ t = 2 * 2 ^ (t - 1) := by
  obtain ⟨k, rfl⟩ : ∃ k, t = k + 1 := ⟨t - 1, by omega⟩
  simp [pow_succ, mul_comm]
theorem pow2_ge_two (t : ℕ) (h : 1 ≤ t) : 2 ≤ 2 ^ t := by
  calc 2 = 2 ^ 1 := rfl
    _ ≤ 2 ^ t := Nat.pow_le_pow_right (by norm_num) h
theorem pow2_gt_self (t : ℕ) : t < 2 ^ t := Nat.lt_two_pow_self
theorem pow2_mono (a b : ℕ) (h : a ≤ b) : 2 ^ a ≤ 2 ^ b := Nat.pow_le_pow_right (by norm_num) h
theorem pow2_strict (a b : ℕ) (h : a < b) : 2 * 2 ^ a ≤ 2 ^ b := by
  have : 2 ^ (a + 1) ≤ 2 ^ b := Nat.pow_le_pow_right (by norm_num) h
  simpa [pow_succ, mul_comm] using this
theorem pow2_add (a b : ℕ) : 2 ^ (a + b) = 2 ^ a * 2 ^ b := pow_add 2 a b

/-- scaling an inequality by a power:  x < 2^u → x*2^t + 2^t ≤ 2^u * 2^t -/
theorem scale (x u t : ℕ) (h : x < 2 ^ u) : x * 2 ^ t + 2 ^ t ≤ 2 ^ u * 2 ^ t := by
  have : (x + 1) * 2 ^ t ≤ 2 ^ u * 2 ^ t := Nat.mul_le_mul_right _ h
  linarith [this, Nat.succ_mul x (2 ^ t)]

/-- product bound:  x < 2^u, y < 2^v → x*y + 2^u + 2^v ≤ 2^u * 2^v + 1 -/
theorem prod_bound (x y u v : ℕ) (hx : x < 2 ^ u) (hy : y < 2 ^ v) :
    x * y + 2 ^ u + 2 ^ v ≤ 2 ^ u * 2 ^ v + 1 := by
  have hx' : x ≤ 2 ^ u - 1 := by omega
  have hy' : y ≤ 2 ^ v - 1 := by omega
  have h1 : x * y ≤ (2 ^ u - 1) * (2 ^ v - 1) := Nat.mul_le_mul hx' hy'
  have pu := pow2_pos u
  have pv := pow2_pos v
  obtain ⟨a, ha⟩ : ∃ a, 2 ^ u = a + 1 := ⟨2 ^ u - 1, by omega⟩
  obtain ⟨b, hb⟩ : ∃ b, 2 ^ v = b + 1 := ⟨2 ^ v - 1, by omega⟩
  rw [ha, hb] at h1 ⊢
  simp at h1
  nlinarith [h1]

/-- x mod 2^t : range and identity below the modulus (Python floor-mod = Euclidean mod for a
    positive divisor) -/
theorem mod_range (x : ℤ) (t : ℕ) : 0 ≤ x % (2:ℤ) ^ t ∧ x % (2:ℤ) ^ t < (2:ℤ) ^ t := by
  have hp : (0:ℤ) < 2 ^ t := by positivity
  exact ⟨Int.emod_nonneg _ (ne_of_gt hp), Int.emod_lt_of_pos _ hp⟩
theorem mod_id (x : ℤ) (t : ℕ) (h0 : 0 ≤ x) (h1 : x < (2:ℤ) ^ t) : x % (2:ℤ) ^ t = x :=
  Int.emod_eq_of_lt h0 h1

/-- x div 2^k : decomposition and bound -/
theorem div_decomp (x k : ℕ) : x = 2 ^ k * (x / 2 ^ k) + x % 2 ^ k := (Nat.div_add_mod x (2 ^ k)).symm
theorem div_bound (x k c : ℕ) (h : x < 2 ^ (c + k)) : x / 2 ^ k < 2 ^ c := by
  rw [Nat.div_lt_iff_lt_mul (by positivity)]
  simpa [pow_add] using h

/-- bitwise operators on naturals: bounds used by pyvc -/
theorem and_le_left' (a b : ℕ) : a &&& b ≤ a := Nat.and_le_left
theorem and_le_right' (a b : ℕ) : a &&& b ≤ b := Nat.and_le_right
theorem and_comm' (a b : ℕ) : a &&& b = b &&& a := Nat.land_comm a b
theorem or_comm' (a b : ℕ) : a ||| b = b ||| a := Nat.lor_comm a b
theorem xor_comm' (a b : ℕ) : a ^^^ b = b ^^^ a := Nat.xor_comm a b
theorem and_lt_pow (a b t : ℕ) (ha : a < 2 ^ t) : a &&& b < 2 ^ t :=
  lt_of_le_of_lt Nat.and_le_left ha
theorem or_lt_pow (a b t : ℕ) (ha : a < 2 ^ t) (hb : b < 2 ^ t) : a ||| b < 2 ^ t :=
  Nat.or_lt_two_pow ha hb
theorem xor_lt_pow (a b t : ℕ) (ha : a < 2 ^ t) (hb : b < 2 ^ t) : a ^^^ b < 2 ^ t :=
  Nat.xor_lt_two_pow ha hb
theorem left_le_or' (a b : ℕ) : a ≤ a ||| b := Nat.left_le_or
theorem right_le_or' (a b : ℕ) : b ≤ a ||| b := Nat.right_le_or
theorem and_zero' (a : ℕ) : a &&& 0 = 0 := Nat.and_zero a
theorem or_zero' (a : ℕ) : a ||| 0 = a := Nat.or_zero a
theorem xor_zero' (a : ℕ) : a ^^^ 0 = a := Nat.xor_zero a
theorem and_self' (a : ℕ) : a &&& a = a := Nat.and_self a
theorem or_self' (a : ℕ) : a ||| a = a := Nat.or_self a
theorem xor_self' (a : ℕ) : a ^^^ a = 0 := Nat.xor_self a
theorem xor_eq_zero' (a b : ℕ) : a ^^^ b = 0 ↔ a = b := Nat.xor_eq_zero_iff

/-- rewrites of pyvc/engine.py -/
theorem mask_is_mod (x k : ℕ) : x &&& (2 ^ k - 1) = x % 2 ^ k := Nat.and_two_pow_sub_one_eq_mod x k
theorem shl_is_mul (x k : ℕ) : x <<< k = x * 2 ^ k := Nat.shiftLeft_eq x k
theorem shr_is_div (x k : ℕ) : x >>> k = x / 2 ^ k := Nat.shiftRight_eq_div_pow x k
theorem shl_or_is_add (x y k : ℕ) (h : y < 2 ^ k) : x <<< k ||| y = x <<< k + y :=
  (Nat.shiftLeft_add_eq_or_of_lt h x).symm

/-- bit tables on {0,1} -/
theorem and_bits (a b : ℕ) (ha : a ≤ 1) (hb : b ≤ 1) : a &&& b = if a = 1 ∧ b = 1 then 1 else 0 := by
  interval_cases a <;> interval_cases b <;> simp
theorem or_bits (a b : ℕ) (ha : a ≤ 1) (hb : b ≤ 1) : a ||| b = if a = 1 ∨ b = 1 then 1 else 0 := by
  interval_cases a <;> interval_cases b <;> simp
theorem xor_bits (a b : ℕ) (ha : a ≤ 1) (hb : b ≤ 1) : a ^^^ b = if a = b then 0 else 1 := by
  interval_cases a <;> interval_cases b <;> simp

/-- a ||| b ≤ a + b and a ^^^ b ≤ a + b (induction on the bits) -/
theorem or_le_add : ∀ (a b : ℕ), a ||| b ≤ a + b := by
  intro a
  induction a using Nat.strong_induction_on with
  | _ a ih =>
    intro b
    rcases Nat.eq_zero_or_pos a with rfl | ha
    · simp
    · have h1 := ih (a / 2) (Nat.div_lt_self ha (by norm_num)) (b / 2)
      have hd : (a ||| b) / 2 = a / 2 ||| b / 2 := Nat.or_div_two
      have hm : (a ||| b) % 2 ≤ a % 2 + b % 2 := by
        rcases Nat.mod_two_eq_zero_or_one (a ||| b) with h | h
        · omega
        · have := Nat.or_mod_two_eq_one.mp h; omega
      omega
theorem xor_le_add : ∀ (a b : ℕ), a ^^^ b ≤ a + b := by
  intro a
  induction a using Nat.strong_induction_on with
  | _ a ih =>
    intro b
    rcases Nat.eq_zero_or_pos a with rfl | ha
    · simp
    · have h1 := ih (a / 2) (Nat.div_lt_self ha (by norm_num)) (b / 2)
      have hd : (a ^^^ b) / 2 = a / 2 ^^^ b / 2 := Nat.xor_div_two
      have hm : (a ^^^ b) % 2 ≤ a % 2 + b % 2 := by
        rcases Nat.mod_two_eq_zero_or_one (a ^^^ b) with h | h
        · omega
        · have := Nat.xor_mod_two_eq_one.mp h; omega
      omega

/-- int.bit_length = Nat.size:  2^(size x - 1) ≤ x < 2^(size x) for x > 0, and the comparisons
    with other powers that pyvc instantiates -/
theorem size_zero : Nat.size 0 = 0 := Nat.size_zero
theorem lt_pow_size (x : ℕ) : x < 2 ^ Nat.size x := Nat.lt_size_self x
theorem pow_size_le (x : ℕ) (h : 0 < x) : 2 ^ (Nat.size x - 1) ≤ x := by
  have : Nat.size x - 1 < Nat.size x := by
    have := Nat.size_pos.mpr h; omega
  exact Nat.lt_size.mp this
theorem size_le_of_lt (x t : ℕ) (h : x < 2 ^ t) : Nat.size x ≤ t := Nat.size_le.mpr h
theorem lt_size_of_le (x t : ℕ) (h : 2 ^ t ≤ x) : t + 1 ≤ Nat.size x := Nat.lt_size.mpr h

/-- x & 2^k is bit k of x, in place -/
theorem and_pow_is_bit (x k : ℕ) : x &&& 2 ^ k = (x / 2 ^ k % 2) * 2 ^ k := by
  rw [Nat.and_two_pow, Nat.toNat_testBit]

/-- one wrap in either direction -/
theorem mod_wrap_up (x : ℤ) (t : ℕ) (h0 : (2:ℤ) ^ t ≤ x) (h1 : x < 2 * (2:ℤ) ^ t) :
    x % (2:ℤ) ^ t = x - (2:ℤ) ^ t := by
  have hp : (0:ℤ) < 2 ^ t := by positivity
  have h : x = (x - (2:ℤ) ^ t) + (2:ℤ) ^ t * 1 := by ring
  rw [h, Int.add_mul_emod_self_left]
  have : (x - (2:ℤ) ^ t + (2:ℤ) ^ t * 1 - (2:ℤ) ^ t) = x - (2:ℤ) ^ t := by ring
  rw [this]
  exact Int.emod_eq_of_lt (by linarith) (by linarith)
theorem mod_wrap_down (x : ℤ) (t : ℕ) (h0 : x < 0) (h1 : -(2:ℤ) ^ t ≤ x) :
    x % (2:ℤ) ^ t = x + (2:ℤ) ^ t := by
  have hp : (0:ℤ) < 2 ^ t := by positivity
  have h : x = (x + (2:ℤ) ^ t) + (2:ℤ) ^ t * (-1) := by ring
  rw [h, Int.add_mul_emod_self_left]
  have : (x + (2:ℤ) ^ t + (2:ℤ) ^ t * (-1) + (2:ℤ) ^ t) = x + (2:ℤ) ^ t := by ring
  rw [this]
  exact Int.emod_eq_of_lt (by linarith) (by linarith)

end PyInt
