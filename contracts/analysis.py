"""Contract for analysis.TimingAnalysis._generate_timing_map with a caller-supplied delay table (C17):
over a symbolic well-formed netlist of ANY size, iterated in dependency order,

    T[s] = 0                                            for every Input / Const / Register s
    T[d] = max(T[a] for a in net.args) + delay(net)     for every net with delay >= 0 and a destination d

i.e. the timing map satisfies the longest-path recurrence of the netlist DAG (nets with a negative delay
end the block and time nothing).  The unique solution of that recurrence is the graph-theoretic arrival
time (maximum over all source-to-wire chains of the summed delays) - the induction over the dependency
order that shows this is the usual one and is not mechanised here (stated in DESIGN.md 9.6).

Netlist model (ghost functions over net indices, as in contracts/simulation.py): D(j) destination,
HASD(j), NA(j) number of arguments, A(j, t) t-th argument, delay(j) = table[op(j)](len(args[0])) or
table['m'](memory) - an arbitrary integer function of what the real code passes.  Well-formedness
assumed from sanity_check / Block.__iter__ (decided under C10): one driver per wire, producers before
consumers (for the nets that time their destination).  Precondition on the table: no net with a
non-negative delay drives a source (register nets carry a negative delay = end of block, as documented).

Assumptions (listed in the evidence): delays are mathematical integers (custom tables; the float default
table is exercised by the bounded family); the timing map is read as a total map (a KeyError on an
argument left untimed by an end-of-block net is outside the contract: partial correctness)."""
from pyvc.contract import Contract, register, ForInv
from pyvc.hl import NS


def _inv(I, fr, k):
    import z3
    ta = fr.lookup('self')
    g = ta.fields['_ghost']
    T = ta.fields['timing_map'].arr
    j, t, t2, o = z3.Ints('j!ti t!ti t2!ti o!ti')
    D, A, NA, HASD, DL = g['D'], g['A'], g['NA'], g['HASD'], g['DL']
    timed = z3.And(0 <= j, j < k, DL(j) >= 0, HASD(j))
    return [
        ('every timed net dominates its arguments',
         z3.ForAll([j, t], z3.Implies(z3.And(timed, 0 <= t, t < NA(j)),
                                      z3.Select(T, D(j)) >= z3.Select(T, A(j, t)) + DL(j)))),
        ('every timed net equals one argument plus its delay',
         z3.ForAll([j], z3.Implies(timed, z3.Exists([t2], z3.And(0 <= t2, t2 < NA(j),
                                                                 z3.Select(T, D(j)) == z3.Select(T, A(j, t2)) + DL(j)))))),
        ('wires that are no destination keep their initial time',
         z3.ForAll([o], z3.Implies(g['ND'](o), z3.Select(T, o) == z3.Select(g['T0'], o)))),
    ]


@register
class GenerateTimingMap(Contract):
    module, qualname, props = 'pyrtl.analysis', 'TimingAnalysis._generate_timing_map', ('C17',)
    invariants = {('TimingAnalysis._generate_timing_map', 0):
                  ForInv(_inv, heap=lambda I, fr: [fr.lookup('self').fields['timing_map']])}

    @property
    def hooks(self):
        import ast
        import z3
        from pyvc.engine import SObj, SMap, Unsupported

        def iterseq(I_, o):
            return o.fields.get('_netseq') if o.cls == 'Block' else None

        def dictcomp(I_, e, fr):
            # {wirevector: 0 for wirevector in cleared}: every source starts at the constant
            if len(e.generators) != 1 or e.generators[0].ifs:
                return None
            it = I_.eval(e.generators[0].iter, fr)
            if not (isinstance(it, SObj) and it.cls == 'SourceSet'):
                return None
            g = e.generators[0]
            if not (isinstance(g.target, ast.Name) and isinstance(e.key, ast.Name) and e.key.id == g.target.id):
                raise Unsupported('timing map initialiser keyed by something else than the source wire')
            v = I_.eval(e.value, Frame0(fr, g.target.id))
            gh = it.fields['_ghost']
            gh['init_value'] = v
            if isinstance(v, bool) or not isinstance(v, int):
                raise Unsupported('timing map initial value %r' % (v,))
            m = SMap(z3.K(z3.IntSort(), z3.IntVal(v)))
            gh['T0'] = m.arr
            return m
        return {'iterseq': iterseq, 'dictcomp': dictcomp}

    def setup(self, I, case):
        import z3
        from pyvc.engine import SObj, SSeq, Sym, Builtin
        st = I.st
        Int, Bool = z3.IntSort(), z3.BoolSort()
        n = next(st.n)
        g = dict(D=z3.Function('D!%d' % n, Int, Int), A=z3.Function('A!%d' % n, Int, Int, Int),
                 NA=z3.Function('NA!%d' % n, Int, Int), HASD=z3.Function('HASD!%d' % n, Int, Bool),
                 ISM=z3.Function('ISM!%d' % n, Int, Bool), OPC=z3.Function('OPC!%d' % n, Int, Int),
                 AW=z3.Function('AW!%d' % n, Int, Int, Int), MEM=z3.Function('MEM!%d' % n, Int, Int),
                 DELG=z3.Function('DELG!%d' % n, Int, Int, Int), DELM=z3.Function('DELM!%d' % n, Int, Int),
                 ND=z3.Function('ND!%d' % n, Int, Bool), SRC=z3.Function('SRC!%d' % n, Int, Bool),
                 DL=z3.Function('DL!%d' % n, Int, Int), N=z3.Int('N!%d' % n))
        N = g['N']
        st.assume(N >= 0)
        i, j, t, o = z3.Ints('i!wf j!wf t!wf o!wf')
        D, A, NA, HASD, ND = g['D'], g['A'], g['NA'], g['HASD'], g['ND']
        # delay(j): what the table returns for what the real code passes
        st.assume(z3.ForAll([j], g['DL'](j) == z3.If(g['ISM'](j), g['DELM'](g['MEM'](j)),
                                                     g['DELG'](g['OPC'](j), g['AW'](j, 0)))))
        st.assume(z3.ForAll([j], NA(j) >= 1))
        st.assume(z3.ForAll([j, t], g['AW'](j, t) >= 1))
        st.assume(z3.ForAll([i, j], z3.Implies(z3.And(0 <= i, i < j, j < N, HASD(i), HASD(j)), D(i) != D(j))))
        DL = g['DL']
        # producers first - for the nets that time their destination (a register net closes a cycle:
        # its destination is used before it, which is why it must carry a negative delay, see below)
        st.assume(z3.ForAll([i, j, t], z3.Implies(z3.And(0 <= j, j <= i, i < N, HASD(i), DL(i) >= 0,
                                                         0 <= t, t < NA(j)), A(j, t) != D(i))))
        st.assume(z3.ForAll([j], z3.Implies(z3.And(0 <= j, j < N, HASD(j), DL(j) >= 0), z3.Not(ND(D(j))))))
        # precondition on the table: no timed net drives a source, i.e. register nets end the block
        # (negative delay) as documented
        st.assume(z3.ForAll([o], z3.Implies(g['SRC'](o), ND(o))))

        def gate(k):
            ism = st.branch(g['ISM'](k))
            hasd = st.branch(HASD(k))
            args = SSeq(NA(k), lambda t_: SObj('WireVector', dict(bitwidth=Sym(g['AW'](k, t_))), oid=A(k, t_)), 'tuple')
            dests = (SObj('WireVector', dict(bitwidth=Sym(z3.IntVal(1))), oid=D(k)),) if hasd else ()
            op = _Op('m' if ism else 'g', k)
            mem = SObj('MemBlock', {}, oid=g['MEM'](k))
            return SObj('LogicNet', dict(op=op, op_param=(None, mem) if ism else None, args=args, dests=dests))
        blk = SObj('Block', {'_netseq': SSeq(N, gate, 'tuple')})
        srcset = SObj('SourceSet', {'_ghost': g})
        blk.fields['wirevector_subset'] = Builtin('Block.wirevector_subset(ghost: the source wires)',
                                                  lambda I_, a, k: srcset)
        ta = SObj('TimingAnalysis', dict(block=blk, timing_map=None, _ghost=g))
        table = _Table(g)
        return NS(self=ta, args=[table], g=g)

    def post(self, ns):
        import z3
        g = ns.g
        tm = ns.self.fields.get('timing_map')
        if tm is None or not hasattr(tm, 'arr'):
            return [('the timing map is built', z3.BoolVal(False))]
        T = tm.arr
        j, t, t2, o = z3.Ints('j!po t!po t2!po o!po')
        D, A, NA, HASD, DL = g['D'], g['A'], g['NA'], g['HASD'], g['DL']
        timed = z3.And(0 <= j, j < g['N'], DL(j) >= 0, HASD(j))
        iv = g.get('init_value')
        return [
            ('sources are timed 0', z3.And(z3.BoolVal(isinstance(iv, int) and iv == 0),
                                           z3.ForAll([o], z3.Implies(g['SRC'](o), z3.Select(T, o) == 0)))),
            ('T[dest] >= T[arg] + delay for every argument of every timed net',
             z3.ForAll([j, t], z3.Implies(z3.And(timed, 0 <= t, t < NA(j)),
                                          z3.Select(T, D(j)) >= z3.Select(T, A(j, t)) + DL(j)))),
            ('T[dest] == T[arg] + delay for some argument of every timed net',
             z3.ForAll([j], z3.Implies(timed, z3.Exists([t2], z3.And(
                 0 <= t2, t2 < NA(j), z3.Select(T, D(j)) == z3.Select(T, A(j, t2)) + DL(j)))))),
        ]


    def concrete(self, tier='quick'):
        def mk(kind, w, table):
            def thunk():
                import io
                import contextlib
                import pyrtl
                pyrtl.reset_working_block()
                a, b, c = pyrtl.Input(w, 'a'), pyrtl.Input(w, 'b'), pyrtl.Input(1, 'c')
                r = pyrtl.Register(w, 'r')
                if kind == 'chain':
                    x = (a + b)[:w]
                    y = pyrtl.select(c, x, a ^ b)
                    z = pyrtl.concat(y[0], x[1:] if w > 1 else y, c) & r.zero_extended(len(pyrtl.concat(y[0], x[1:] if w > 1 else y, c)))
                else:
                    m = pyrtl.MemBlock(w, 2, 'm', asynchronous=True)
                    m[a[:2] if w >= 2 else pyrtl.concat(a, a)] <<= b
                    x = m[b[:2] if w >= 2 else pyrtl.concat(b, b)] | a
                    y = pyrtl.select(c, a - x[:w], x[:w])
                    z = y * r
                r.next <<= z[:w]
                o = pyrtl.Output(len(z), 'o')
                o <<= z
                funcs = {op: (lambda d: (lambda wd: d + (wd if table == 'width' and d >= 0 and isinstance(wd, int) else 0)))(d)
                         for op, d in zip('~&|^nw+-*<>=xcsr@', (3, 5, 7, 11, 2, 0, 13, 17, 19, 4, 6, 8, 9, 0, 1, -1, -1))}
                funcs['m'] = lambda mem: 23 + mem.bitwidth
                block = pyrtl.working_block()
                with contextlib.redirect_stdout(io.StringIO()):
                    ta = pyrtl.TimingAnalysis(block=block, gate_delay_funcs=funcs)
                T = ta.timing_map
                for wv in block.wirevector_subset((pyrtl.Input, pyrtl.Const, pyrtl.Register)):
                    if T.get(wv) != 0:
                        return False, (wv.name, T.get(wv)), 0
                for net in block.logic:
                    d = funcs['m'](net.op_param[1]) if net.op == 'm' else funcs[net.op](len(net.args[0]))
                    if d < 0 or not net.dests:
                        continue
                    exp = max(T[x_] for x_ in net.args) + d
                    if T.get(net.dests[0]) != exp:
                        return False, (str(net).strip(), T.get(net.dests[0])), exp
                return True, 'ok', 'ok'
            return thunk
        for kind in ('chain', 'mem'):
            for w in (1, 2, 3, 5):
                for table in ('const', 'width'):
                    yield ('%s w=%d table=%s' % (kind, w, table), mk(kind, w, table))


class _Op(str):
    """the op of an abstract net: compares like its string, remembers the net index"""
    def __new__(cls, s, idx):
        o = str.__new__(cls, s)
        o.idx = idx
        return o


class _Table(dict):
    """gate_delay_funcs of the caller: table[op] is an arbitrary integer function of its argument"""

    def __init__(self, g):
        dict.__init__(self)
        self.g = g

    def __getitem__(self, op):
        from pyvc.engine import Builtin, Sym, SObj, term
        g = self.g
        if op == 'm':
            return Builtin('gate_delay_funcs[m](ghost)', lambda I_, a, k: Sym(g['DELM'](a[0].oid)))
        if not isinstance(op, _Op):
            raise KeyError(op)
        return Builtin('gate_delay_funcs[op](ghost)', lambda I_, a, k, op=op: Sym(g['DELG'](g['OPC'](op.idx), term(a[0]))))

    def __contains__(self, k):
        return True


def Frame0(fr, name):
    """frame in which the comprehension target is unbound (the value expression must not use it)"""
    from pyvc.engine import Frame
    return Frame({}, fr.module, fr.func, parent=fr)
