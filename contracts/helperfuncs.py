"""Contracts for the value-conversion helpers (C16) - DESIGN Appendix A.4.
Top-level postconditions come from the property statement: accept exactly the representable
(value, bitwidth, signed) combinations, return the two's-complement encoding, and the minimal
bitwidth when none is given."""
from pyvc.contract import Contract, register
from pyvc import hl as H
from pyvc.hl import NS


def _vbt():
    from pyvc.engine import Builtin
    return Builtin('ValueBitwidthTuple', lambda I_, a, k: (a[0] if a else k['value'],
                                                            a[1] if len(a) > 1 else k['bitwidth']))


def bitlen1(x):
    """len(bin(x)) - 2 for x >= 0: bit_length, with 1 for 0"""
    return H.If(x == 0, 1, H.bitlen(x))


@register
class ConvertInt(Contract):
    module, qualname, props = 'pyrtl.helperfuncs', '_convert_int', ('C16',)

    def cases(self):
        return ['bw=None,unsigned', 'bw=None,signed', 'bw,unsigned', 'bw,signed']

    @property
    def hooks(self):
        return {'global:ValueBitwidthTuple': _vbt()}

    def setup(self, I, case):
        v = I.st.fresh_int('val')
        signed = case.endswith(',signed')
        if case.startswith('bw=None'):
            bw, bwt = None, None
        else:
            bw = I.st.fresh_int('bitwidth')
            bwt = bw.t
        return NS(args=[v, bw, signed], val=v.t, bw=bwt, signed=signed)

    def bind(self, I, selfobj, args, kwargs):
        from pyvc.engine import term
        a = list(args) + [None, False][len(args) - 1:]
        v = a[0]
        bw = kwargs.get('bitwidth', a[1])
        signed = kwargs.get('signed', a[2])
        if not isinstance(signed, bool):
            from pyvc.engine import Unsupported, Sym
            if not isinstance(signed, Sym):
                raise Unsupported('signed flag %r at a _convert_int call site' % (signed,))
            signed = bool(I.truth(signed))        # a computed flag: one path per value
        return NS(args=[v, bw, signed], val=term(v), bw=None if bw is None else term(bw), signed=signed)

    def pre(self, ns):
        return [] if ns.bw is None else [('bitwidth >= 1', ns.bw >= 1)]

    def result(self, I, ns):
        from pyvc.engine import Sym
        num = I.st.fresh_int('num')
        bw = Sym(ns.bw) if ns.bw is not None else I.st.fresh_int('bw')
        return (num, bw)

    def _accept(self, ns):
        s = ns.signed
        v = ns.val
        if ns.bw is None:
            return H.Or(v >= 0, s)
        need = bitlen1(v) + (H.If(v != 0, 1, 0) if s else 0)
        return H.Or(H.And(v >= 0, ns.bw >= need), H.And(v < 0, v >= -H.pow2(ns.bw - 1)))

    def raises(self, ns):
        return [('PyrtlError', H.Not(self._accept(ns)))]

    def post(self, ns):
        from pyvc.engine import term
        num, bw = ns.result
        num, bw = term(num), term(bw)
        v = ns.val
        out = [('value == val mod 2**bitwidth', num == H.mod(v, H.pow2(bw))),
               ('value in [0, 2**bitwidth)', H.And(num >= 0, num < H.pow2(bw))),
               ('bitwidth >= 1', bw >= 1)]
        if ns.bw is not None:
            out.append(('explicit bitwidth is kept', bw == ns.bw))
        else:
            sgn = ns.signed
            # representable in bw ...
            fits = H.If(v >= 0, v < H.pow2(bw - (H.If(v != 0, 1, 0) if sgn else 0)),
                        v >= -H.pow2(bw - 1))
            # ... and in no smaller bitwidth
            smaller = bw - 1
            fits_smaller = H.And(smaller >= 1,
                                 H.If(v >= 0, v < H.pow2(smaller - (H.If(v != 0, 1, 0) if sgn else 0)),
                                      v >= -H.pow2(smaller - 1)))
            out.append(('inferred bitwidth represents val', fits))
            out.append(('inferred bitwidth is minimal', H.Not(fits_smaller)))
        return out

    def concrete(self, tier='quick'):
        def mk(v, bw, signed):
            def thunk():
                import pyrtl
                from fam.convcheck import representable, minimal_bw
                try:
                    r = tuple(pyrtl.helperfuncs._convert_int(v, bw, signed))
                except pyrtl.PyrtlError:
                    r = None
                if representable(v, bw, signed):
                    b = bw if bw is not None else minimal_bw(v, signed)
                    exp = (v % (1 << b), b)
                else:
                    exp = None
                return r == exp, r, exp
            return thunk
        for v in list(range(-40, 41)) + [255, 256, -128, -129, 2 ** 64, -2 ** 63, -2 ** 63 - 1]:
            for bw in (None, 1, 2, 3, 6, 7, 8, 9, 64, 65):
                for signed in (False, True):
                    yield ('val=%d,bw=%r,signed=%s' % (v, bw, signed), mk(v, bw, signed))


@register
class ConvertBool(Contract):
    module, qualname, props = 'pyrtl.helperfuncs', '_convert_bool', ('C16',)

    def cases(self):
        return ['%s,%s,%s' % (b, bw, s) for b in (True, False) for bw in ('None', '1', 'n') for s in (False, True)]

    @property
    def hooks(self):
        return {'global:ValueBitwidthTuple': _vbt()}

    def setup(self, I, case):
        b, bw, s = case.split(',')
        bv = b == 'True'
        signed = s == 'True'
        if bw == 'None':
            bwv, bwt = None, None
        elif bw == '1':
            bwv, bwt = 1, 1
        else:
            bwv = I.st.fresh_int('bitwidth')
            bwt = bwv.t
            I.st.assume(bwt != 1)
        return NS(args=[bv, bwv, signed], b=bv, bw=bwt, signed=signed)

    def bind(self, I, selfobj, args, kwargs):
        a = list(args) + [None, False][len(args) - 1:]
        bw = a[1]
        if bw is not None and not isinstance(bw, int):
            from pyvc.engine import term
            bw = term(bw)
        return NS(args=a, b=a[0], bw=bw, signed=a[2])

    def result(self, I, ns):
        return (int(ns.b), 1)

    def raises(self, ns):
        if ns.signed:
            return [('PyrtlError', True)]
        if ns.bw is None or (isinstance(ns.bw, int) and ns.bw == 1):
            return [('PyrtlError', False)]
        if isinstance(ns.bw, int):
            return [('PyrtlError', True)]
        return [('PyrtlError', ns.bw != 1)]

    def post(self, ns):
        num, bw = ns.result
        return [('(int(b), 1)', H.And(num == int(ns.b), bw == 1))]

    def concrete(self, tier='quick'):
        def mk(b, bw, s):
            def thunk():
                import pyrtl
                try:
                    r = tuple(pyrtl.helperfuncs._convert_bool(b, bw, s))
                except pyrtl.PyrtlError:
                    r = None
                exp = (int(b), 1) if (not s and bw in (None, 1)) else None
                return r == exp, r, exp
            return thunk
        for b in (True, False):
            for bw in (None, 1, 2, 0):
                for s in (False, True):
                    yield ('%s,%r,%s' % (b, bw, s), mk(b, bw, s))


@register
class ValToSigned(Contract):
    """val_to_signed_integer inverts the signed encoding: for 0 <= value < 2**bw the result r is
    the unique integer in [-2**(bw-1), 2**(bw-1)) congruent to value modulo 2**bw."""
    module, qualname, props = 'pyrtl.helperfuncs', 'val_to_signed_integer', ('C16',)

    def setup(self, I, case):
        v, bw = I.st.fresh_int('value'), I.st.fresh_int('bitwidth')
        return NS(args=[v, bw], v=v.t, bw=bw.t)

    def pre(self, ns):
        return [('value in [0, 2**bw)', H.And(ns.v >= 0, ns.v < H.pow2(ns.bw)))]

    def raises(self, ns):
        return [('PyrtlError', ns.bw < 1)]

    def post(self, ns):
        from pyvc.engine import term
        r = term(ns.result)
        return [('range', H.And(r >= -H.pow2(ns.bw - 1), r < H.pow2(ns.bw - 1))),
                ('congruent', H.Or(r == ns.v, r == ns.v - H.pow2(ns.bw))),
                ('decodes', r == H.If(ns.v >= H.pow2(ns.bw - 1), ns.v - H.pow2(ns.bw), ns.v))]

    hooks = {}

    def concrete(self, tier='quick'):
        def mk(v, bw):
            def thunk():
                import pyrtl
                r = pyrtl.val_to_signed_integer(v, bw)
                exp = v - (1 << bw) if v >= (1 << (bw - 1)) else v
                return r == exp, r, exp
            return thunk
        for bw in (1, 2, 3, 5, 8, 64, 65):
            for v in sorted(set([0, 1, (1 << bw) - 1, 1 << (bw - 1), (1 << (bw - 1)) - 1] + list(range(min(1 << bw, 40))))):
                if v < (1 << bw):
                    yield ('v=%d,bw=%d' % (v, bw), mk(v, bw))


@register
class Log2(Contract):
    module, qualname, props = 'pyrtl.helperfuncs', 'log2', ('C16',)

    def setup(self, I, case):
        v = I.st.fresh_int('i')
        return NS(args=[v], v=v.t)

    def post(self, ns):
        from pyvc.engine import term
        r = term(ns.result)
        return [('2**result == i', H.And(r >= 0, H.pow2(r) == ns.v))]

    def raises(self, ns):
        ispow = H.And(ns.v > 0, ns.v == H.pow2(H.bitlen(ns.v) - 1))
        return [('PyrtlError', H.Not(ispow))]

    def concrete(self, tier='quick'):
        def mk(v):
            def thunk():
                import pyrtl
                try:
                    r = pyrtl.log2(v)
                except pyrtl.PyrtlError:
                    r = None
                exp = v.bit_length() - 1 if v > 0 and v & (v - 1) == 0 else None
                return r == exp, r, exp
            return thunk
        for v in list(range(-3, 70)) + [2 ** 64, 2 ** 64 + 1, 2 ** 100]:
            yield ('i=%d' % v, mk(v))


@register
class InferVal(Contract):
    """infer_val_and_bitwidth: bool before int; accepts exactly the representable combinations,
    returns the two's-complement encoding and the minimal bitwidth when none is given
    (property statement); proved through the callee contracts only."""
    module, qualname, props = 'pyrtl.helperfuncs', 'infer_val_and_bitwidth', ('C16',)

    def cases(self):
        return ['int:' + c for c in ConvertInt().cases()] + \
            ['bool:%s,%s,%s' % (b, bw, s) for b in (True, False) for bw in ('None', '1') for s in (False, True)]

    def setup(self, I, case):
        kind, rest = case.split(':', 1)
        if kind == 'int':
            ns = ConvertInt().setup(I, rest)
            if ns.bw is not None:
                I.st.assume(ns.bw >= 1)
            ns.kind = 'int'
            return ns
        ns = ConvertBool().setup(I, rest)
        ns.kind = 'bool'
        return ns

    def raises(self, ns):
        return (ConvertInt() if ns.kind == 'int' else ConvertBool()).raises(ns)

    def post(self, ns):
        return (ConvertInt() if ns.kind == 'int' else ConvertBool()).post(ns)

    def concrete(self, tier='quick'):
        def mk(v, bw, s):
            def thunk():
                import pyrtl
                from fam.convcheck import representable, minimal_bw
                try:
                    r = tuple(pyrtl.infer_val_and_bitwidth(v, bw, s))
                except pyrtl.PyrtlError:
                    r = None
                if isinstance(v, bool):
                    exp = (int(v), 1) if (not s and bw in (None, 1)) else None
                elif representable(v, bw, s):
                    b = bw if bw is not None else minimal_bw(v, s)
                    exp = (v % (1 << b), b)
                else:
                    exp = None
                return r == exp, r, exp
            return thunk
        for v in [True, False] + list(range(-9, 10)) + [127, 128, -128, -129]:
            for bw in (None, 1, 2, 4, 8):
                for s in (False, True):
                    yield ('%r,%r,%s' % (v, bw, s), mk(v, bw, s))
