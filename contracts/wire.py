"""Contracts (len, den) for the operator layer of pyrtl/wire.py and the core helpers it uses
(C06) over the abstract wire model of contracts/wiremodel.py: every operator returns a wire of
the documented length carrying the exact integer result, and every net it adds is well formed."""
from pyvc.contract import Contract, register
from pyvc import hl as H
from pyvc.hl import NS
from contracts import wiremodel as W


def _res(ns):
    """(bitwidth term, den term) of the returned wire"""
    from pyvc.engine import SObj
    r = ns.result
    if not isinstance(r, SObj) or r.fields.get('bitwidth') is None or r.fields.get('_den') is None:
        return None, None
    return W.bw_of(r), W.den_of(r)


def _shape(ns, want_len, want_den):
    import z3
    bw, den = _res(ns)
    if bw is None:
        return [('returns a driven wire', z3.BoolVal(False))]
    return [('documented length', bw == want_len), ('exact value', den == want_den),
            ('value fits the length', z3.And(den >= 0, den < H.pow2(bw)))]


class WireContract(Contract):
    """base: result wires in apply mode are fresh wires constrained by the postcondition"""
    hooks = property(lambda self: W.hooks())

    def result(self, I, ns):
        import z3
        n = next(I.st.n)
        return W.new_wire(I, z3.Int('res_bw!%d' % n), z3.Int('res_den!%d' % n), hint='res')


def _minbw(k):
    """bitwidth Const(k) infers for an int k >= 0"""
    return H.If(k == 0, 1, H.bitlen(k))


@register
class TwoVarOp(WireContract):
    """a <op> b for op in & | ^ nand + - * < > == with b a wire or a non-negative int:
    operands are zero-extended to L = max(len a, len b); len(result) = L (bitwise), L+1 (+ -),
    len(a)+len(b) (*, as documented in wire.py), 1 (comparisons); the value is the exact
    integer result (a-b modulo 2**(L+1); nand within L bits)."""
    module, qualname, props = 'pyrtl.wire', 'WireVector._two_var_op', ('C06',)

    def cases(self):
        return ['%s:%s' % (op, k) for op in '&|^n+-*<>=' for k in ('wire', 'int')]

    def setup(self, I, case):
        op, kind = case.split(':')
        a = W.input_wire(I, 'a')
        if kind == 'wire':
            b = W.input_wire(I, 'b')
            vb, wb = W.den_of(b), W.bw_of(b)
        else:
            b = I.st.fresh_int('k')
            vb, wb = b.t, _minbw(b.t)
        return NS(self=a, args=[b, op], op=op, kind=kind, va=W.den_of(a), wa=W.bw_of(a), vb=vb, wb=wb)

    def bind(self, I, selfobj, args, kwargs):
        from pyvc.engine import SObj, Sym, term, Unsupported
        b, op = args[0], args[1]
        if not isinstance(op, str):
            raise Unsupported('symbolic op')
        if isinstance(b, SObj):
            vb, wb, kind = W.den_of(b), W.bw_of(b), 'wire'
        elif isinstance(b, (int, Sym)) and not isinstance(b, bool):
            vb, wb, kind = term(b), _minbw(term(b)), 'int'
        else:
            raise Unsupported('operand %r' % (b,))
        return NS(self=selfobj, args=list(args), op=op, kind=kind, va=W.den_of(selfobj),
                  wa=W.bw_of(selfobj), vb=vb, wb=wb)

    def raises(self, ns):
        if ns.kind == 'int':
            return [('PyrtlError', ns.vb < 0)]
        return [('PyrtlError', False)]

    def post(self, ns):
        from pyvc import theory as T
        L = H.If(ns.wa >= ns.wb, ns.wa, ns.wb)
        a, b, op = ns.va, ns.vb, ns.op
        if op in '&|^':
            den = {'&': T.band, '|': T.bor, '^': T.bxor}[op](a, b)
            ln = L
        elif op == 'n':
            den, ln = H.pow2(L) - 1 - T.band(a, b), L
        elif op == '+':
            den, ln = a + b, L + 1
        elif op == '-':
            den, ln = H.mod(a - b, H.pow2(L + 1)), L + 1
        elif op == '*':
            den, ln = a * b, ns.wa + ns.wb
        else:
            c = {'<': a < b, '>': a > b, '=': a == b}[op]
            den, ln = H.If(c, 1, 0), 1
        return _shape(ns, ln, den)

    def concrete(self, tier='quick'):
        def mk(op, wa, wb, kint):
            def thunk():
                import pyrtl
                pyrtl.reset_working_block()
                a = pyrtl.Input(wa, 'a')
                b = kint if kint is not None else pyrtl.Input(wb, 'b')
                r = a._two_var_op(b, op)
                o = pyrtl.Output(len(r), 'o')
                o <<= r
                sim = pyrtl.Simulation()
                wbb = wb if kint is None else max(kint.bit_length(), 1)
                L = max(wa, wbb)
                ln = {'+': L + 1, '-': L + 1, '*': wa + wbb, '<': 1, '>': 1, '=': 1}.get(op, L)
                bad = []
                if len(r) != ln:
                    bad.append(('len', len(r), ln))
                for x in range(1 << wa):
                    for y in (range(1 << wb) if kint is None else [kint]):
                        sim.step({'a': x} if kint is not None else {'a': x, 'b': y})
                        exp = {'&': x & y, '|': x | y, '^': x ^ y, 'n': ~(x & y) & ((1 << L) - 1), '+': x + y,
                               '-': (x - y) % (1 << (L + 1)), '*': x * y, '<': int(x < y), '>': int(x > y),
                               '=': int(x == y)}[op]
                        if sim.inspect('o') != exp and not bad:
                            bad.append(('value', (x, y), sim.inspect('o'), exp))
                return not bad, bad[:2], []
            return thunk
        for op in '&|^n+-*<>=':
            for wa, wb in ((1, 1), (2, 2), (1, 2), (3, 1), (2, 3)):
                yield ('%s wa=%d wb=%d' % (op, wa, wb), mk(op, wa, wb, None))
            for wa, k in ((2, 0), (2, 1), (1, 2), (3, 5)):
                yield ('%s wa=%d int=%d' % (op, wa, k), mk(op, wa, None, k))


@register
class Invert(WireContract):
    module, qualname, props = 'pyrtl.wire', 'WireVector.__invert__', ('C06',)

    def setup(self, I, case):
        a = W.input_wire(I, 'a')
        return NS(self=a, args=[], va=W.den_of(a), wa=W.bw_of(a))

    def bind(self, I, selfobj, args, kwargs):
        return NS(self=selfobj, args=[], va=W.den_of(selfobj), wa=W.bw_of(selfobj))

    def post(self, ns):
        return _shape(ns, ns.wa, H.pow2(ns.wa) - 1 - ns.va)


@register
class GetItem(WireContract):
    """w[i] / w[lo:hi] with Python index semantics: the selected bits, LSB first; an empty
    selection or an out-of-range index is refused."""
    module, qualname, props = 'pyrtl.wire', 'WireVector.__getitem__', ('C06', 'C14')

    def cases(self):
        return ['int', 'slice:lo', 'slice:hi', 'slice:lohi', 'slice:all']

    def setup(self, I, case):
        a = W.input_wire(I, 'a')
        lo = hi = None
        if case == 'int':
            i = I.st.fresh_int('i')
            item = i
            ns = NS(kind='int', i=i.t)
        else:
            which = case.split(':')[1]
            if which in ('lo', 'lohi'):
                lo = I.st.fresh_int('lo')
            if which in ('hi', 'lohi'):
                hi = I.st.fresh_int('hi')
            item = slice(lo, hi, None)
            ns = NS(kind='slice', lo=None if lo is None else lo.t, hi=None if hi is None else hi.t)
        ns.self, ns.args, ns.va, ns.wa = a, [item], W.den_of(a), W.bw_of(a)
        return ns

    def bind(self, I, selfobj, args, kwargs):
        from pyvc.engine import Sym, term, Unsupported
        item = args[0]
        if isinstance(item, slice):
            if item.step is not None:
                raise Unsupported('stepped slice of a wire')
            ns = NS(kind='slice', lo=None if item.start is None else term(item.start),
                    hi=None if item.stop is None else term(item.stop))
        elif isinstance(item, (int, Sym)) and not isinstance(item, bool):
            ns = NS(kind='int', i=term(item))
        else:
            raise Unsupported('index %r' % (item,))
        ns.self, ns.args, ns.va, ns.wa = selfobj, [item], W.den_of(selfobj), W.bw_of(selfobj)
        return ns

    def _range(self, ns):
        """(first selected bit, number of bits) per Python's slice normalisation"""
        n = ns.wa

        def norm(b, dflt):
            if b is None:
                return dflt
            return H.If(b < 0, H.If(n + b < 0, 0, n + b), H.If(b > n, n, b))
        lo, hi = norm(ns.lo, 0), norm(ns.hi, n)
        return lo, H.If(hi > lo, hi - lo, 0)

    def raises(self, ns):
        if ns.kind == 'int':
            return [('IndexError', H.Or(ns.i >= ns.wa, ns.i < -ns.wa))]
        lo, ln = self._range(ns)
        return [('PyrtlError', ln == 0)]

    def post(self, ns):
        if ns.kind == 'int':
            p = H.If(ns.i >= 0, ns.i, ns.wa + ns.i)
            return _shape(ns, 1, H.mod(H.div(ns.va, H.pow2(p)), 2))
        lo, ln = self._range(ns)
        return _shape(ns, ln, H.mod(H.div(ns.va, H.pow2(lo)), H.pow2(ln)))

    def concrete(self, tier='quick'):
        def mk(w, item):
            def thunk():
                import pyrtl
                pyrtl.reset_working_block()
                a = pyrtl.Input(w, 'a')
                idx = list(range(w))
                try:
                    sel = idx[item] if isinstance(item, slice) else [idx[item]]
                except IndexError:
                    sel = None
                try:
                    r = a[item]
                except (pyrtl.PyrtlError, IndexError):
                    return (not sel), 'refused', sel
                if not sel:
                    return False, 'accepted', 'refused'
                o = pyrtl.Output(len(r), 'o')
                o <<= r
                sim = pyrtl.Simulation()
                for x in range(1 << w):
                    sim.step({'a': x})
                    exp = sum(((x >> p) & 1) << i for i, p in enumerate(sel))
                    if sim.inspect('o') != exp or len(r) != len(sel):
                        return False, (x, sim.inspect('o'), len(r)), (exp, len(sel))
                return True, 'ok', 'ok'
            return thunk
        for w in (1, 2, 4):
            for item in list(range(-5, 5)) + [slice(a, b) for a in (None, 0, 1, 3, -1, -2, 7, -9)
                                              for b in (None, 0, 1, 2, 4, -1, -3, 9)]:
                yield ('w=%d %r' % (w, item), mk(w, item))


@register
class ExtendWithBit(WireContract):
    """_extend_with_bit(bitwidth, extbit): the wire itself when bitwidth == len; refused when
    smaller; otherwise (bitwidth - len) copies of extbit above the original bits."""
    module, qualname, props = 'pyrtl.wire', 'WireVector._extend_with_bit', ('C06',)

    def cases(self):
        return ['zero', 'one', 'wire']

    def setup(self, I, case):
        a = W.input_wire(I, 'a')
        bw = I.st.fresh_int('bitwidth')
        if case == 'wire':
            e = W.input_wire(I, 'e')
            I.st.assume(W.bw_of(e) == 1)
            ev = W.den_of(e)
        else:
            e = 0 if case == 'zero' else 1
            ev = e
        return NS(self=a, args=[bw, e], va=W.den_of(a), wa=W.bw_of(a), bw=bw.t, ev=ev)

    def bind(self, I, selfobj, args, kwargs):
        from pyvc.engine import SObj, term, Unsupported
        bw, e = args
        if isinstance(e, SObj):
            ev = W.den_of(e)
            I.st.vc('call:_extend_with_bit.extbit is one bit', W.bw_of(e) == 1, kind='callpre')
        elif isinstance(e, int) and e in (0, 1):
            ev = e
        else:
            raise Unsupported('extbit %r' % (e,))
        return NS(self=selfobj, args=list(args), va=W.den_of(selfobj), wa=W.bw_of(selfobj),
                  bw=term(bw), ev=ev)

    def raises(self, ns):
        return [('PyrtlError', ns.bw < ns.wa)]

    def post(self, ns):
        ext = ns.ev * (H.pow2(ns.bw) - H.pow2(ns.wa))
        return _shape(ns, ns.bw, ns.va + ext)


@register
class Concat(WireContract):
    """concat(msb, ..., lsb): len = sum of the lengths, value = pieces side by side"""
    module, qualname, props = 'pyrtl.corecircuits', 'concat', ('C06', 'C14')

    def cases(self):
        return ['1', '2', '3']      # 4 pieces: the range lemma takes ~10 s (near the budget) - bounded family covers it

    def setup(self, I, case):
        ws = [W.input_wire(I, 'p%d' % i) for i in range(int(case))]
        return NS(args=ws, ws=[(W.den_of(w), W.bw_of(w)) for w in ws])

    def bind(self, I, selfobj, args, kwargs):
        from pyvc.engine import SObj, Unsupported
        if not all(isinstance(w, SObj) for w in args):
            raise Unsupported('concat of non-wire operands')
        return NS(args=list(args), ws=[(W.den_of(w), W.bw_of(w)) for w in args])

    def raises(self, ns):
        return [('PyrtlError', len(ns.ws) == 0)]

    def post(self, ns):
        total, den = None, None
        for d, b in reversed(ns.ws):
            den = d if den is None else den + d * H.pow2(total)
            total = b if total is None else total + b
        return _shape(ns, total, den)
