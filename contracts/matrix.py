"""Contracts for the bit layout of rtllib.Matrix (C19: conversion from and to a WireVector, bits setter
truncation), for ALL element widths and values, per shape (rows x columns enumerated, they drive Python loops):

    Matrix(rows, columns, bits, value=<wire>, max_bits=mb):
        eff = bits if mb is None or bits <= mb else mb
        PyrtlError iff bits <= 0 or eff <= 0 or len(value) != eff * rows * columns
        element (i, j) is a wire of `eff` bits carrying
            (value >> (((rows-1-i) * columns + (columns-1-j)) * eff)) mod 2**eff        (row-major, MSB first)
        rows / columns / bits / max_bits recorded, signed False.

    Matrix.bits = b  (setter):  PyrtlError iff b <= 0; every element becomes its low min(b, len) bits.

Model: the builder model of contracts/wiremodel.py (a wire is (bitwidth, den)); slicing and as_wires are used
through their own contracts (C06); the Matrix object is a record with the real class's methods."""
from pyvc.contract import Contract, register
from pyvc import hl as H
from pyvc.hl import NS
from contracts import wiremodel as W

SHAPES = [(1, 1), (1, 2), (2, 1), (2, 2), (2, 3), (3, 2), (3, 3), (1, 4), (4, 1)]


def _construct_matrix(I, args, kwargs):
    """Matrix(...) inside the methods under contract: a fresh record initialised by the REAL __init__ (inlined)"""
    from pyvc import engine as E
    node, mod, cls = E.locate('pyrtl.rtllib.matrix', 'Matrix.__init__')
    m = E.SObj('Matrix', {})
    I.st.inlined.add('Matrix.__init__')
    I.call_function(E.FuncVal(node, None, mod, 'Matrix.__init__', cls=cls), list(args), dict(kwargs), selfobj=m)
    return m


def _hooks():
    h = dict(W.hooks())
    h['construct:Matrix'] = _construct_matrix
    return h


def _elems(m):
    rows = m.fields.get('_matrix')
    if not isinstance(rows, list) or not all(isinstance(r, list) for r in rows):
        return None
    return rows


@register
class MatrixFromWire(Contract):
    module, qualname, props = 'pyrtl.rtllib.matrix', 'Matrix.__init__', ('C19',)
    hooks = property(lambda self: W.hooks())
    max_paths = 2000

    def cases(self):
        return ['%dx%d:%s' % (r, c, mb) for (r, c) in SHAPES for mb in ('none', 'mb')]

    def setup(self, I, case):
        from pyvc.engine import SObj
        shape, mbk = case.split(':')
        r, c = [int(x) for x in shape.split('x')]
        bits = I.st.fresh_int('bits')
        v = W.input_wire(I, 'v')
        mb = None if mbk == 'none' else I.st.fresh_int('max_bits')
        eff = bits.t if mb is None else H.If(bits.t > mb.t, mb.t, bits.t)
        m = SObj('Matrix', {})
        return NS(self=m, args=[r, c, bits], kwargs=dict(value=v, max_bits=mb), r=r, c=c, bits=bits.t, eff=eff,
                  v=v, mb=mb)

    def raises(self, ns):
        return [('PyrtlError', H.Or(ns.bits <= 0, ns.eff <= 0, W.bw_of(ns.v) != ns.eff * (ns.r * ns.c)))]

    def post(self, ns):
        import z3
        from pyvc.engine import term, SObj
        m = ns.self
        rows = _elems(m)
        F = z3.BoolVal(False)
        if rows is None or len(rows) != ns.r or any(len(x) != ns.c for x in rows):
            return [('the matrix holds rows x columns elements', F)]
        cl = [('the matrix holds rows x columns elements', z3.BoolVal(True))]
        val = W.den_of(ns.v)
        for i in range(ns.r):
            for j in range(ns.c):
                e = rows[i][j]
                if not isinstance(e, SObj) or e.fields.get('bitwidth') is None or e.fields.get('_den') is None:
                    cl.append(('element (%d,%d) is a driven wire' % (i, j), F))
                    continue
                k = (ns.r - 1 - i) * ns.c + (ns.c - 1 - j)
                cl.append(('element (%d,%d) has the element width' % (i, j), W.bw_of(e) == ns.eff))
                cl.append(('element (%d,%d) carries its row-major field of the value, first element in the most '
                           'significant bits' % (i, j),
                           W.den_of(e) == H.mod(H.div(val, H.pow2(k * ns.eff)), H.pow2(ns.eff))))

        def fld(name, want):
            got = m.fields.get(name)
            if want is None or isinstance(want, bool):
                return z3.BoolVal(got is want)
            if got is None or isinstance(got, bool):
                return F
            return term(got) == want
        cl += [('rows recorded', fld('rows', z3.IntVal(ns.r))), ('columns recorded', fld('columns', z3.IntVal(ns.c))),
               ('element width recorded', fld('_bits', ns.eff)), ('unsigned', fld('signed', False)),
               ('max_bits recorded', fld('max_bits', None if ns.mb is None else ns.mb.t))]
        return cl

    def concrete(self, tier='quick'):
        def mk(r, c, bits, mb):
            def thunk():
                import pyrtl
                from pyrtl.rtllib.matrix import Matrix
                pyrtl.reset_working_block()
                eff = bits if mb is None or bits <= mb else mb
                a = pyrtl.Input(eff * r * c, 'a')
                try:
                    m = Matrix(r, c, bits, value=a, max_bits=mb)
                except pyrtl.PyrtlError:
                    return False, 'refused', 'accepted'
                outs = {}
                for i in range(r):
                    for j in range(c):
                        o = pyrtl.Output(len(m[i, j]), 'o_%d_%d' % (i, j))
                        o <<= m[i, j]
                        outs[(i, j)] = o
                sim = pyrtl.Simulation()
                n = eff * r * c
                vals = [0, (1 << n) - 1, 0x9E3779B97F4A7C15F39CC0605CEDC834 % (1 << n), 1, 1 << (n - 1)]
                for x in vals:
                    sim.step({'a': x})
                    for (i, j), o in outs.items():
                        k = (r - 1 - i) * c + (c - 1 - j)
                        exp = (x >> (k * eff)) & ((1 << eff) - 1)
                        if sim.inspect(o.name) != exp or len(o) != eff:
                            return False, ((i, j), sim.inspect(o.name), len(o)), (exp, eff)
                return (m.bits, m.rows, m.columns) == (eff, r, c), (m.bits, m.rows, m.columns), (eff, r, c)
            return thunk
        for (r, c) in SHAPES[:7]:
            for bits, mb in ((1, None), (3, None), (8, 64), (5, 3), (17, None)):
                yield ('%dx%d bits=%d max_bits=%s' % (r, c, bits, mb), mk(r, c, bits, mb))


@register
class MatrixBitsSetter(Contract):
    """m.bits = b: PyrtlError iff b <= 0; otherwise every element keeps its low min(b, len) bits (truncation of the
    most significant bits, never an extension) and the element width is recorded.  Elements have arbitrary,
    mutually different widths (a matrix whose bits was shrunk keeps narrower wires)."""
    module, qualname, props = 'pyrtl.rtllib.matrix', 'Matrix.bits[setter]', ('C19',)
    hooks = property(lambda self: W.hooks())

    def cases(self):
        return ['1x1', '1x2', '2x1', '2x2']

    def setup(self, I, case):
        from pyvc.engine import SObj
        r, c = [int(x) for x in case.split('x')]
        elems = [[W.input_wire(I, 'e%d%d' % (i, j)) for j in range(c)] for i in range(r)]
        old = [[(W.bw_of(e), W.den_of(e)) for e in row] for row in elems]
        b = I.st.fresh_int('b')
        m = SObj('Matrix', dict(rows=r, columns=c, _matrix=[list(row) for row in elems], _bits=I.st.fresh_int('oldbits')))
        return NS(self=m, args=[b], b=b.t, r=r, c=c, old=old)

    def raises(self, ns):
        return [('PyrtlError', ns.b <= 0)]

    def post(self, ns):
        import z3
        from pyvc.engine import term, SObj
        rows = _elems(ns.self)
        F = z3.BoolVal(False)
        if rows is None or len(rows) != ns.r or any(len(x) != ns.c for x in rows):
            return [('the matrix keeps its shape', F)]
        cl = [('the element width is recorded', term(ns.self.fields['_bits']) == ns.b)]
        for i in range(ns.r):
            for j in range(ns.c):
                e = rows[i][j]
                if not isinstance(e, SObj) or e.fields.get('bitwidth') is None or e.fields.get('_den') is None:
                    cl.append(('element (%d,%d) is a driven wire' % (i, j), F))
                    continue
                ow, od = ns.old[i][j]
                nw = H.If(ns.b < ow, ns.b, ow)
                cl.append(('element (%d,%d) is at most the new width wide and never widened' % (i, j), W.bw_of(e) == nw))
                cl.append(('element (%d,%d) keeps exactly its low bits (the most significant bits are truncated)'
                           % (i, j), W.den_of(e) == H.mod(od, H.pow2(nw))))
        return cl

    def concrete(self, tier='quick'):
        def mk(r, c, bits, seq):
            def thunk():
                import pyrtl
                from pyrtl.rtllib.matrix import Matrix
                pyrtl.reset_working_block()
                a = pyrtl.Input(bits * r * c, 'a')
                m = Matrix(r, c, bits, value=a, max_bits=None)
                for b in seq:
                    m.bits = b
                outs = {}
                for i in range(r):
                    for j in range(c):
                        o = pyrtl.Output(len(m[i, j]), 'o_%d_%d' % (i, j))
                        o <<= m[i, j]
                        outs[(i, j)] = o
                wv = m.to_wirevector()
                ow = pyrtl.Output(len(wv), 'ow')
                ow <<= wv
                sim = pyrtl.Simulation()
                n = bits * r * c
                keep = min([bits] + list(seq))
                last = seq[-1]
                for x in (0, (1 << n) - 1, 0x9E3779B97F4A7C15F39CC0605CEDC834 % (1 << n), 0x5A5A5A5A5A5A5A5A5A % (1 << n)):
                    sim.step({'a': x})
                    tot = 0
                    for (i, j), o in outs.items():
                        k = (r - 1 - i) * c + (c - 1 - j)
                        exp = ((x >> (k * bits)) & ((1 << bits) - 1)) & ((1 << keep) - 1)
                        if sim.inspect(o.name) != exp:
                            return False, ((i, j), sim.inspect(o.name)), exp
                        tot |= exp << (k * last)
                    if sim.inspect('ow') != tot or len(wv) != last * r * c:
                        return False, ('to_wirevector', sim.inspect('ow'), len(wv)), (tot, last * r * c)
                return m.bits == last, m.bits, last
            return thunk
        for (r, c) in ((1, 1), (2, 2), (2, 3)):
            for bits, seq in ((4, (2,)), (4, (6,)), (5, (2, 6)), (6, (3, 8, 2, 7)), (3, (3,)), (8, (1, 8))):
                yield ('%dx%d bits=%d then %s' % (r, c, bits, list(seq)), mk(r, c, bits, seq))


@register
class MatrixToWire(Contract):
    """m.to_wirevector() for a matrix whose elements all have the element width (the state the constructor
    establishes): a wire of bits*rows*columns bits, element (i, j) in the field
    [k*bits, (k+1)*bits) with k = (rows-1-i)*columns + (columns-1-j) -- the inverse of the constructor's layout.
    Matrix.__getitem__ (index normalisation) is executed from the real source on the concrete indices."""
    module, qualname, props = 'pyrtl.rtllib.matrix', 'Matrix.to_wirevector', ('C19',)
    hooks = property(lambda self: W.hooks())

    def cases(self):
        return ['1x1', '1x2', '2x1', '2x2', '1x3']

    def setup(self, I, case):
        import z3
        from pyvc.engine import SObj, term
        r, c = [int(x) for x in case.split('x')]
        bits = I.st.fresh_int('bits')
        elems = [[W.input_wire(I, 'e%d%d' % (i, j)) for j in range(c)] for i in range(r)]
        for row in elems:
            for e in row:
                I.st.assume(W.bw_of(e) == bits.t)
        m = SObj('Matrix', dict(rows=r, columns=c, _matrix=[list(row) for row in elems], _bits=bits, signed=False,
                                max_bits=None))
        return NS(self=m, args=[], r=r, c=c, bits=bits.t, elems=elems)

    def post(self, ns):
        den = 0
        for i in range(ns.r):
            for j in range(ns.c):
                k = (ns.r - 1 - i) * ns.c + (ns.c - 1 - j)
                den = den + W.den_of(ns.elems[i][j]) * H.pow2(k * ns.bits)
        from contracts.wire import _shape
        return _shape(ns, ns.bits * (ns.r * ns.c), den)


@register
class MatrixTranspose(Contract):
    """m.transpose(): a columns x rows matrix of the same element width whose element (i, j) carries the value of
    m's element (j, i), for all element widths and values (Matrix.__getitem__ / __setitem__ / the constructor are
    executed from the real source on the concrete indices)."""
    module, qualname, props = 'pyrtl.rtllib.matrix', 'Matrix.transpose', ('C19',)
    hooks = property(lambda self: _hooks())

    def cases(self):
        return ['1x2', '2x2'] + (['2x1', '2x3'] if getattr(self, '_tier', 'quick') == 'thorough' else [])

    def setup(self, I, case):
        from pyvc.engine import SObj
        r, c = [int(x) for x in case.split('x')]
        bits = I.st.fresh_int('bits')
        I.st.assume(bits.t >= 1)
        elems = [[W.input_wire(I, 'e%d%d' % (i, j)) for j in range(c)] for i in range(r)]
        for row in elems:
            for e in row:
                I.st.assume(W.bw_of(e) == bits.t)
        m = SObj('Matrix', dict(rows=r, columns=c, _matrix=[list(row) for row in elems], _bits=bits, signed=False,
                                max_bits=None))
        return NS(self=m, args=[], r=r, c=c, bits=bits.t, elems=elems)

    def post(self, ns):
        import z3
        from pyvc.engine import SObj, term
        t = ns.result
        F = z3.BoolVal(False)
        if not isinstance(t, SObj) or t.cls != 'Matrix':
            return [('returns a Matrix', F)]
        rows = _elems(t)
        if rows is None or len(rows) != ns.c or any(len(x) != ns.r for x in rows):
            return [('the result is columns x rows', F)]
        cl = [('the result is columns x rows', z3.And(term(t.fields['rows']) == ns.c, term(t.fields['columns']) == ns.r)),
              ('same element width', term(t.fields['_bits']) == ns.bits)]
        for i in range(ns.c):
            for j in range(ns.r):
                e = rows[i][j]
                if not isinstance(e, SObj) or e.fields.get('bitwidth') is None or e.fields.get('_den') is None:
                    cl.append(('element (%d,%d) is a driven wire' % (i, j), F))
                    continue
                src = ns.elems[j][i]
                cl.append(('element (%d,%d) has the element width' % (i, j), W.bw_of(e) == ns.bits))
                cl.append(('element (%d,%d) carries element (%d,%d) of the source' % (i, j, j, i),
                           W.den_of(e) == W.den_of(src)))
        # the source is untouched
        same = all(ns.self.fields['_matrix'][i][j] is ns.elems[i][j] for i in range(ns.r) for j in range(ns.c))
        cl.append(('the source matrix is unchanged', z3.BoolVal(same)))
        return cl
