"""Contract for the flip-flop table of the BLIF importer (C12): for every cell name in the real
table `input_from_blif.extract_flop.flop_next`, the next-state logic it builds equals the next
state the Yosys cell-naming grammar assigns to that name, for all input/state values."""
from pyvc.contract import register
from pyvc import hl as H
from pyvc.hl import NS
from contracts import wiremodel as W
from contracts.wire import WireContract, _shape
import contracts.corecircuits   # noqa: F401  (select contract)


def yosys_next(name, d, e, s, r, q):
    """Next state from the cell NAME alone (Yosys internal cell library naming), over terms:
    $_DFF_P_, $_DFFE_P[NP]_, $_DFF_P[NP][01]_, $_DFFE_P[NP][01][NP]_, $_DFFSR_PPP, $_DFFSRE_PPP[NP]_,
    $_SDFF_P[NP][01]_ (sync reset), $_SDFFE_ (reset over enable), $_SDFFCE_ (enable over reset)."""
    body = name.strip('$_')
    kind, pol = body.split('_', 1)
    pol = pol.strip('_')

    def act(v, p):
        return (v == 1) if p == 'P' else (v == 0)
    If = H.If
    if kind == 'SDFFCE':
        c, rp, rv, ep = pol
        return If(act(e, ep), If(act(r, rp), int(rv), d), q)
    if kind == 'SDFFE':
        c, rp, rv, ep = pol
        return If(act(r, rp), int(rv), If(act(e, ep), d, q))
    if kind == 'SDFF':
        c, rp, rv = pol
        return If(act(r, rp), int(rv), d)
    if kind == 'DFFSRE':
        c, sp, rp, ep = pol
        return If(act(r, rp), 0, If(act(s, sp), 1, If(act(e, ep), d, q)))
    if kind == 'DFFSR':
        c, sp, rp = pol
        return If(act(r, rp), 0, If(act(s, sp), 1, d))
    if kind == 'DFFE':
        if len(pol) == 2:
            c, ep = pol
            return If(act(e, ep), d, q)
        c, rp, rv, ep = pol
        return If(act(r, rp), int(rv), If(act(e, ep), d, q))
    if kind == 'DFF':
        if len(pol) == 1:
            return d
        c, rp, rv = pol
        return If(act(r, rp), int(rv), d)
    raise KeyError(name)


def table_names():
    """cell names: the keys of the dict literal in the real source"""
    import ast
    from pyvc import engine as E
    node, mod, cls = E.locate('pyrtl.importexport', 'input_from_blif.extract_flop.flop_next')
    for n in ast.walk(node):
        if isinstance(n, ast.Dict) and n.keys and all(isinstance(k, ast.Constant) for k in n.keys):
            return [k.value for k in n.keys]
    return []


@register
class FlopNext(WireContract):
    module, qualname, props = 'pyrtl.importexport', 'input_from_blif.extract_flop.flop_next', ('C12',)

    def cases(self):
        return table_names()

    def setup(self, I, case):
        from pyvc.engine import SObj, Builtin, Frame, get_module

        def bit(h):
            w = W.input_wire(I, h)
            I.st.assume(W.bw_of(w) == 1)
            return w
        body = case.strip('$_')
        kind = body.split('_', 1)[0]
        d, q = bit('data'), bit('prev')
        e = bit('enable') if 'E' in kind[3:] or kind.endswith('E') else None
        s = bit('set') if 'SR' in kind else None
        r = bit('reset') if (len(body.split('_', 1)[1].strip('_')) >= 3 or 'SR' in kind) else None
        cmd = SObj('ParseResults', {})
        cmd.fields['getName'] = Builtin('command.getName', lambda I_, a, k: case)
        outer = Frame({'command': cmd}, get_module(self.module))
        v = lambda w: None if w is None else W.den_of(w)      # noqa: E731
        return NS(args=[d, e, s, r, q], outer=outer, name=case, vd=v(d), ve=v(e), vs=v(s), vr=v(r), vq=v(q))

    def post(self, ns):
        return _shape(ns, 1, yosys_next(ns.name, ns.vd, ns.ve, ns.vs, ns.vr, ns.vq))
