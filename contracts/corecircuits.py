"""Contracts for the gate-level generators synthesize() uses (C03) and the core helpers (C06),
over the builder model: `_one_bit_add`, `_add_helper` (induction on the operand length),
`_basic_add`, `_basic_sub`, `_basic_lt` (induction), `_basic_gt`."""
from pyvc.contract import register
from pyvc import hl as H
from pyvc.hl import NS
from contracts import wiremodel as W
from contracts.wire import WireContract, _shape      # noqa: F401  (also registers the operator contracts)


def _wire_or_bit(I, x):
    """(den, bw) of an operand that is a wire or the int 0 / 1"""
    from pyvc.engine import SObj, Sym, term, Unsupported
    if isinstance(x, SObj):
        return W.den_of(x), W.bw_of(x)
    if isinstance(x, bool):
        raise Unsupported('bool operand')
    if isinstance(x, int) and x in (0, 1):
        return x, 1
    raise Unsupported('carry operand %r' % (x,))


def _pair(ns):
    from pyvc.engine import SObj
    r = ns.result
    if not (isinstance(r, tuple) and len(r) == 2 and all(isinstance(x, SObj) for x in r)):
        return None
    if any(x.fields.get('bitwidth') is None or x.fields.get('_den') is None for x in r):
        return None
    return r


class _PairContract(WireContract):
    def result(self, I, ns):
        import z3
        n = next(I.st.n)
        return (W.new_wire(I, z3.Int('s_bw!%d' % n), z3.Int('s_den!%d' % n), hint='s'),
                W.new_wire(I, z3.Int('c_bw!%d' % n), z3.Int('c_den!%d' % n), hint='c'))


@register
class OneBitAdd(_PairContract):
    """_one_bit_add(a, b, cin) with one-bit operands: (sum, carry), sum + 2*carry == a + b + cin"""
    module, qualname, props = 'pyrtl.corecircuits', '_one_bit_add', ('C03',)

    def cases(self):
        return ['wire', '0', '1']

    def setup(self, I, case):
        a, b = W.input_wire(I, 'a'), W.input_wire(I, 'b')
        I.st.assume(W.bw_of(a) == 1)
        I.st.assume(W.bw_of(b) == 1)
        if case == 'wire':
            c = W.input_wire(I, 'cin')
            I.st.assume(W.bw_of(c) == 1)
        else:
            c = int(case)
        return self.bind(I, None, [a, b, c], {})

    def bind(self, I, selfobj, args, kwargs):
        a, b, c = args
        cv, cw = _wire_or_bit(I, c)
        return NS(args=[a, b, c], va=W.den_of(a), vb=W.den_of(b), vc=cv, wa=W.bw_of(a), wb=W.bw_of(b), wc=cw)

    def pre(self, ns):
        return [('operands are one bit wide', H.And(ns.wa == 1, ns.wb == 1, ns.wc == 1))]

    def post(self, ns):
        import z3
        r = _pair(ns)
        if r is None:
            return [('returns two driven wires', z3.BoolVal(False))]
        s, c = r
        return [('sum and carry are one bit', H.And(W.bw_of(s) == 1, W.bw_of(c) == 1)),
                ('sum + 2*carry == a + b + cin', W.den_of(s) + 2 * W.den_of(c) == ns.va + ns.vb + ns.vc),
                ('bits', H.And(W.den_of(s) >= 0, W.den_of(s) <= 1, W.den_of(c) >= 0, W.den_of(c) <= 1))]


@register
class AddHelper(_PairContract):
    """_add_helper(a, b, cin): (sumbits, carry_out) with len(sumbits) = L = max(len a, len b), a one-bit
    carry and sumbits + 2**L * carry == a + b + cin.  Induction on L (the function recurses on a[1:],
    b[1:])."""
    module, qualname, props = 'pyrtl.corecircuits', '_add_helper', ('C03',)
    recursive_ok = True

    def cases(self):
        return ['wire', '0', '1']

    def setup(self, I, case):
        a, b = W.input_wire(I, 'a'), W.input_wire(I, 'b')
        if case == 'wire':
            c = W.input_wire(I, 'cin')
            I.st.assume(W.bw_of(c) == 1)
        else:
            c = int(case)
        return self.bind(I, None, [a, b, c], {})

    def bind(self, I, selfobj, args, kwargs):
        a, b, c = args
        cv, cw = _wire_or_bit(I, c)
        wa, wb = W.bw_of(a), W.bw_of(b)
        return NS(args=[a, b, c], va=W.den_of(a), vb=W.den_of(b), vc=cv, wa=wa, wb=wb, wc=cw,
                  L=H.If(wa >= wb, wa, wb))

    def pre(self, ns):
        return [('carry in is one bit', ns.wc == 1)]

    def measure(self, ns):
        return ns.L

    def post(self, ns):
        import z3
        r = _pair(ns)
        if r is None:
            return [('returns two driven wires', z3.BoolVal(False))]
        s, c = r
        return [('len(sumbits) == max(len a, len b), carry is one bit',
                 H.And(W.bw_of(s) == ns.L, W.bw_of(c) == 1)),
                ('sumbits + 2**L * carry == a + b + cin',
                 W.den_of(s) + H.pow2(ns.L) * W.den_of(c) == ns.va + ns.vb + ns.vc),
                ('ranges', H.And(W.den_of(s) >= 0, W.den_of(s) < H.pow2(ns.L), W.den_of(c) >= 0, W.den_of(c) <= 1))]


_OR_STUB = 'op(assumed: OR of two one-bit wires)'


def _or_stub():
    """the `op` parameter while tree_reduce's own body is verified: assumed to be what the call sites
    are REQUIRED to pass (precondition `op is OR on one-bit wires`, checked at every call by running
    the caller's lambda on two arbitrary one-bit wires)"""
    import z3
    from pyvc.engine import Builtin, SObj

    def fn(I, args, kwargs):
        a, b = args
        ok = isinstance(a, SObj) and isinstance(b, SObj)
        I.st.vc('op is applied to one-bit wires',
                z3.And(W.bw_of(a) == 1, W.bw_of(b) == 1) if ok else z3.BoolVal(False), kind='callpre')
        return W.new_wire(I, 1, z3.If(W.den_of(a) + W.den_of(b) > 0, 1, 0), hint='or')
    return Builtin(_OR_STUB, fn)


@register
class TreeReduceOr(WireContract):
    """tree_reduce(op, vector) for a WireVector `vector` and an `op` that ORs two one-bit wires: a one-bit
    wire that is 1 iff the vector is non-zero.  Induction on len(vector) (the function recurses on the
    two halves).  The higher-order precondition is discharged at each call site by executing the passed
    callable on two arbitrary one-bit wires."""
    module, qualname, props = 'pyrtl.corecircuits', 'tree_reduce', ('C03',)
    recursive_ok = True

    def setup(self, I, case):
        v = W.input_wire(I, 'v')
        return self.bind(I, None, [_or_stub(), v], {})

    def bind(self, I, selfobj, args, kwargs):
        import z3
        from pyvc.engine import SObj, Builtin, Unsupported
        op, v = args
        if not isinstance(v, SObj) or v.fields.get('bitwidth') is None:
            raise Unsupported('tree_reduce over %r (contract covers WireVector arguments)' % (v,))
        if isinstance(op, Builtin) and op.name == _OR_STUB:
            ok = z3.BoolVal(True)
        else:
            st = I.st
            n = next(st.n)
            x, y = z3.Int('opx!%d' % n), z3.Int('opy!%d' % n)
            st.assume(z3.And(x >= 0, x <= 1, y >= 0, y <= 1))
            r = I.call(op, [W.new_wire(I, 1, x, hint='opx'), W.new_wire(I, 1, y, hint='opy')])
            if isinstance(r, SObj) and r.fields.get('bitwidth') is not None and r.fields.get('_den') is not None:
                ok = z3.And(W.bw_of(r) == 1, W.den_of(r) == z3.If(x + y > 0, 1, 0))
            else:
                ok = z3.BoolVal(False)
        return NS(args=[op, v], va=W.den_of(v), wa=W.bw_of(v), op_ok=ok)

    def pre(self, ns):
        return [('op is OR on one-bit wires', ns.op_ok)]

    def measure(self, ns):
        return ns.wa

    def raises(self, ns):
        return [('PyrtlError', ns.wa < 1)]

    def post(self, ns):
        return _shape(ns, 1, H.If(ns.va != 0, 1, 0))

    def concrete(self, tier='quick'):
        fn = self.qualname

        def mk(w):
            def thunk():
                import pyrtl
                from pyrtl import corecircuits as cc
                pyrtl.reset_working_block()
                a = pyrtl.Input(w, 'a')
                r = cc.or_all_bits(a) if fn == 'or_all_bits' else cc.tree_reduce(lambda x, y: x | y, a)
                o = pyrtl.Output(len(r), 'o')
                o <<= r
                sim = pyrtl.Simulation()
                vals = range(1 << w) if w <= 6 else [0] + [1 << i for i in range(w)] + [(1 << w) - 1]
                for x in vals:
                    sim.step({'a': x})
                    if sim.inspect('o') != int(x != 0) or len(r) != 1:
                        return False, (x, sim.inspect('o'), len(r)), (int(x != 0), 1)
                return True, 'ok', 'ok'
            return thunk
        for w in (1, 2, 3, 4, 5, 6, 7, 8, 11, 16, 17):
            yield ('w=%d' % w, mk(w))


@register
class OrAllBits(WireContract):
    """or_all_bits(v): one bit, 1 iff v != 0"""
    module, qualname, props = 'pyrtl.corecircuits', 'or_all_bits', ('C03',)

    def setup(self, I, case):
        return self.bind(I, None, [W.input_wire(I, 'v')], {})

    def bind(self, I, selfobj, args, kwargs):
        v = args[0]
        return NS(args=[v], va=W.den_of(v), wa=W.bw_of(v))

    def post(self, ns):
        return _shape(ns, 1, H.If(ns.va != 0, 1, 0))

    def concrete(self, tier='quick'):
        fn = self.qualname

        def mk(w):
            def thunk():
                import pyrtl
                from pyrtl import corecircuits as cc
                pyrtl.reset_working_block()
                a = pyrtl.Input(w, 'a')
                r = cc.or_all_bits(a) if fn == 'or_all_bits' else cc.tree_reduce(lambda x, y: x | y, a)
                o = pyrtl.Output(len(r), 'o')
                o <<= r
                sim = pyrtl.Simulation()
                vals = range(1 << w) if w <= 6 else [0] + [1 << i for i in range(w)] + [(1 << w) - 1]
                for x in vals:
                    sim.step({'a': x})
                    if sim.inspect('o') != int(x != 0) or len(r) != 1:
                        return False, (x, sim.inspect('o'), len(r)), (int(x != 0), 1)
                return True, 'ok', 'ok'
            return thunk
        for w in (1, 2, 3, 4, 5, 6, 7, 8, 11, 16, 17):
            yield ('w=%d' % w, mk(w))


class _Bin(WireContract):
    def setup(self, I, case):
        a, b = W.input_wire(I, 'a'), W.input_wire(I, 'b')
        return self.bind(I, None, [a, b], {})

    def bind(self, I, selfobj, args, kwargs):
        a, b = args
        wa, wb = W.bw_of(a), W.bw_of(b)
        return NS(args=[a, b], va=W.den_of(a), vb=W.den_of(b), wa=wa, wb=wb, L=H.If(wa >= wb, wa, wb))


@register
class BasicAdd(_Bin):
    """_basic_add(a, b): len L+1, value a + b exactly"""
    module, qualname, props = 'pyrtl.corecircuits', '_basic_add', ('C03',)

    def post(self, ns):
        return _shape(ns, ns.L + 1, ns.va + ns.vb)


@register
class BasicSub(_Bin):
    """_basic_sub(a, b): len L+1, value (a - b) mod 2**(L+1) - the documented '-' primitive"""
    module, qualname, props = 'pyrtl.corecircuits', '_basic_sub', ('C03',)

    def pre(self, ns):
        # synthesize applies it to the (equal-length) arguments of a '-' net
        return [('equal lengths', ns.wa == ns.wb)]

    def post(self, ns):
        return _shape(ns, ns.L + 1, H.mod(ns.va - ns.vb, H.pow2(ns.L + 1)))


@register
class BasicEq(_Bin):
    """_basic_eq(a, b): one bit, 1 iff a == b - the documented '=' primitive"""
    module, qualname, props = 'pyrtl.corecircuits', '_basic_eq', ('C03',)

    def pre(self, ns):
        return [('equal lengths', ns.wa == ns.wb)]

    def post(self, ns):
        return _shape(ns, 1, H.If(ns.va == ns.vb, 1, 0))

    def concrete(self, tier='quick'):
        def mk(w):
            def thunk():
                import pyrtl
                from pyrtl.corecircuits import _basic_eq
                pyrtl.reset_working_block()
                a, b = pyrtl.Input(w, 'a'), pyrtl.Input(w, 'b')
                r = _basic_eq(a, b)
                o = pyrtl.Output(len(r), 'o')
                o <<= r
                sim = pyrtl.Simulation()
                vals = range(1 << w) if w <= 4 else [0, 1, (1 << w) - 1, 1 << (w - 1), 5, 6]
                for x in vals:
                    for y in vals:
                        sim.step({'a': x, 'b': y})
                        if sim.inspect('o') != int(x == y) or len(r) != 1:
                            return False, ((x, y), sim.inspect('o'), len(r)), (int(x == y), 1)
                return True, 'ok', 'ok'
            return thunk
        for w in (1, 2, 3, 4, 5, 7, 8, 9):
            yield ('w=%d' % w, mk(w))


@register
class BasicLt(_Bin):
    """_basic_lt(a, b) on equal-length operands: one bit, 1 iff a < b.  Induction on the length."""
    module, qualname, props = 'pyrtl.corecircuits', '_basic_lt', ('C03',)
    recursive_ok = True

    def pre(self, ns):
        return [('equal lengths', ns.wa == ns.wb)]

    def measure(self, ns):
        return ns.wa

    def may_raise(self, ns):
        return []

    def post(self, ns):
        return _shape(ns, 1, H.If(ns.va < ns.vb, 1, 0))


@register
class BasicGt(_Bin):
    module, qualname, props = 'pyrtl.corecircuits', '_basic_gt', ('C03',)

    def pre(self, ns):
        return [('equal lengths', ns.wa == ns.wb)]

    def post(self, ns):
        return _shape(ns, 1, H.If(ns.va > ns.vb, 1, 0))


# ------------------------------------------------------------------------------ C14 helpers
@register
class Select(WireContract):
    """select(sel, truecase, falsecase): length max(len t, len f); truecase when sel == 1 else
    falsecase (operands zero-extended)."""
    module, qualname, props = 'pyrtl.corecircuits', 'select', ('C14', 'C06')

    def setup(self, I, case):
        s = W.input_wire(I, 'sel')
        t, f = W.input_wire(I, 't'), W.input_wire(I, 'f')
        return self.bind(I, None, [s, t, f], {})

    def bind(self, I, selfobj, args, kwargs):
        from pyvc.engine import SObj, Unsupported
        a = list(args) + [kwargs.get('truecase'), kwargs.get('falsecase')][len(args) - 1:] if len(args) < 3 else list(args)
        s, t, f = a[0], a[1], a[2]

        def view(x):
            # as_wires: an int operand becomes a Const of minimal width
            if isinstance(x, SObj):
                return W.den_of(x), W.bw_of(x)
            if isinstance(x, int) and not isinstance(x, bool) and x >= 0:
                return x, max(x.bit_length(), 1)
            raise Unsupported('select operand %r' % (x,))
        (vs, ws), (vt, wt), (vf, wf) = view(s), view(t), view(f)
        return NS(args=[s, t, f], vs=vs, ws=ws, vt=vt, wt=wt, vf=vf, wf=wf)

    def pre(self, ns):
        return [('select is one bit', ns.ws == 1)]

    def post(self, ns):
        L = H.If(ns.wt >= ns.wf, ns.wt, ns.wf)
        return _shape(ns, L, H.If(ns.vs == 0, ns.vf, ns.vt))


@register
class BitfieldUpdate(WireContract):
    """bitfield_update(w, start, end, newvalue, truncating): w with the bits of the Python slice
    [start:end] replaced by newvalue (zero-extended; truncated when truncating=True); an empty
    field or an over-long value without truncating is refused."""
    module, qualname, props = 'pyrtl.corecircuits', 'bitfield_update', ('C14',)
    parallel = True

    def cases(self):
        import os
        # an explicit end multiplies the slice-normalisation paths (about 70 s): thorough tier only
        ends = ('None', 'int') if os.environ.get('VERIF_TIER') == 'thorough' else ('None',)
        return ['%s,%s,%s' % (s, e, t) for s in ('None', 'int') for e in ends for t in ('F', 'T')]

    def setup(self, I, case):
        s, e, t = case.split(',')
        w, nv = W.input_wire(I, 'w'), W.input_wire(I, 'nv')
        lo = None if s == 'None' else I.st.fresh_int('start')
        hi = None if e == 'None' else I.st.fresh_int('end')
        return NS(args=[w, lo, hi, nv, t == 'T'], vw=W.den_of(w), ww=W.bw_of(w), vn=W.den_of(nv), wn=W.bw_of(nv),
                  lo=None if lo is None else lo.t, hi=None if hi is None else hi.t, trunc=(t == 'T'))

    def _field(self, ns):
        n = ns.ww

        def norm(b, dflt):
            if b is None:
                return dflt
            return H.If(b < 0, H.If(n + b < 0, 0, n + b), H.If(b > n, n, b))
        lo, hi = norm(ns.lo, 0), norm(ns.hi, n)
        return lo, H.If(hi > lo, hi - lo, 0)

    def raises(self, ns):
        lo, n = self._field(ns)
        if ns.trunc:
            return [('PyrtlError', n == 0)]
        return [('PyrtlError', H.Or(n == 0, ns.wn > n))]

    def post(self, ns):
        lo, n = self._field(ns)
        nv = H.mod(ns.vn, H.pow2(n))       # == vn when it fits
        den = H.mod(ns.vw, H.pow2(lo)) + nv * H.pow2(lo) + H.div(ns.vw, H.pow2(lo + n)) * H.pow2(lo + n)
        out = _shape(ns, ns.ww, den)
        if ns.hi is not None:
            # with an explicit end the value clause needs div/mod reasoning over three symbolic
            # powers that z3 does not finish within the budget: only length, range, refusal and the
            # well-formedness of every net are claimed for these cases (values: bounded family C14)
            out = [c for c in out if c[0] != 'exact value']
        return out

    def concrete(self, tier='quick'):
        def mk(ww, wn, s, e, trunc):
            def thunk():
                import pyrtl
                pyrtl.reset_working_block()
                w, nv = pyrtl.Input(ww, 'w'), pyrtl.Input(wn, 'nv')
                idx = list(range(ww))[s:e]
                try:
                    r = pyrtl.bitfield_update(w, s, e, nv, truncating=trunc)
                except pyrtl.PyrtlError:
                    ok = (not idx) or (wn > len(idx) and not trunc)
                    return ok, 'refused', 'accept'
                if not idx or (wn > len(idx) and not trunc):
                    return False, 'accepted', 'refuse'
                o = pyrtl.Output(len(r), 'o')
                o <<= r
                sim = pyrtl.Simulation()
                lo, n = idx[0], len(idx)
                for x in range(1 << ww):
                    for y in range(1 << wn):
                        sim.step({'w': x, 'nv': y})
                        exp = (x & ~(((1 << n) - 1) << lo)) | ((y & ((1 << n) - 1)) << lo)
                        if sim.inspect('o') != exp or len(r) != ww:
                            return False, ((x, y), sim.inspect('o'), len(r)), (exp, ww)
                return True, 'ok', 'ok'
            return thunk
        for ww in (1, 3, 4):
            for wn in (1, 2):
                for s in (None, 0, 1, -1, -2, 5):
                    for e in (None, 0, 1, 2, -1, 9):
                        for trunc in (False, True):
                            yield ('ww=%d wn=%d [%r:%r] trunc=%s' % (ww, wn, s, e, trunc), mk(ww, wn, s, e, trunc))


# ------------------------------------------------------------------------------ signed helpers (C06)
def sval(x, w):
    """two's-complement value of the w-bit pattern x (0 <= x < 2**w)"""
    return H.If(x >= H.pow2(w - 1), x - H.pow2(w), x)


@register
class SignedAdd(_Bin):
    """signed_add(a, b) on wires: length max(len)+1, and the result read as a signed number is
    the exact sum of the operands read as signed numbers."""
    module, qualname, props = 'pyrtl.corecircuits', 'signed_add', ('C06',)

    def post(self, ns):
        import z3
        r = ns.result
        from pyvc.engine import SObj
        if not isinstance(r, SObj) or r.fields.get('_den') is None:
            return [('returns a driven wire', z3.BoolVal(False))]
        bw, den = W.bw_of(r), W.den_of(r)
        return [('documented length', bw == ns.L + 1),
                ('value fits the length', H.And(den >= 0, den < H.pow2(bw))),
                ('signed(result) == signed(a) + signed(b)',
                 sval(den, ns.L + 1) == sval(ns.va, ns.wa) + sval(ns.vb, ns.wb))]


class _SignedCmp(_Bin):
    OP = None

    def post(self, ns):
        sa, sb = sval(ns.va, ns.wa), sval(ns.vb, ns.wb)
        c = {'<': sa < sb, '<=': sa <= sb, '>': sa > sb, '>=': sa >= sb}[self.OP]
        return _shape(ns, 1, H.If(c, 1, 0))


@register
class SignedLt(_SignedCmp):
    module, qualname, props, OP = 'pyrtl.corecircuits', 'signed_lt', ('C06',), '<'


# signed_le / signed_ge: the `| (a == b)` term needs injectivity of sign extension, which z3 does not
# find from the ground axioms within the budget - bounded family (C06 ops.binary) covers them


@register
class SignedGt(_SignedCmp):
    module, qualname, props, OP = 'pyrtl.corecircuits', 'signed_gt', ('C06',), '>'


# ------------------------------------------------------------------------------ coercion helpers (C06)
@register
class AsWires(WireContract):
    """as_wires(val, bitwidth, truncating): a wire is returned unchanged when no bitwidth is asked
    for or it already has it, zero-extended when shorter, truncated to the low bits when longer and
    truncating; an int becomes a constant of the requested / minimal width."""
    module, qualname, props = 'pyrtl.corecircuits', 'as_wires', ('C06',)
    inline_at_calls = True       # may return its argument itself: callers execute the real body

    def cases(self):
        return ['wire:none', 'wire:bw:T', 'wire:bw:F', 'int:none', 'int:bw']

    def setup(self, I, case):
        parts = case.split(':')
        trunc = parts[-1] != 'F'
        bw = I.st.fresh_int('bitwidth') if 'bw' in parts else None
        if bw is not None:
            I.st.assume(bw.t >= 1)
        if parts[0] == 'wire':
            v = W.input_wire(I, 'v')
            ns = NS(kind='wire', vv=W.den_of(v), wv=W.bw_of(v))
        else:
            v = I.st.fresh_int('k')
            ns = NS(kind='int', vv=v.t)
        ns.args, ns.bw, ns.trunc, ns.v = [v, None if bw is None else bw, trunc], None if bw is None else bw.t, trunc, v
        return ns

    def raises(self, ns):
        if ns.kind == 'int':
            if ns.bw is None:
                return [('PyrtlError', ns.vv < 0)]
            # Const(k, bitwidth): non-negative values must fit; negative ones are stored in two's complement
            return [('PyrtlError', H.Or(ns.vv >= H.pow2(ns.bw), ns.vv < -H.pow2(ns.bw - 1)))]
        return [('PyrtlError', False)]

    def post(self, ns):
        import z3
        if ns.kind == 'int':
            if ns.bw is None:
                return _shape(ns, H.If(ns.vv == 0, 1, H.bitlen(ns.vv)), ns.vv)
            return _shape(ns, ns.bw, H.mod(ns.vv, H.pow2(ns.bw)))
        if ns.bw is None:
            return [('the wire itself', z3.BoolVal(ns.result is ns.v))]
        ext = _shape(ns, ns.bw, ns.vv)
        if ns.trunc:
            want_len = ns.bw
            want_den = H.If(ns.bw >= ns.wv, ns.vv, H.mod(ns.vv, H.pow2(ns.bw)))
        else:
            want_len = H.If(ns.bw >= ns.wv, ns.bw, ns.wv)
            want_den = ns.vv
        return _shape(ns, want_len, want_den)


@register
class MatchBitwidth(WireContract):
    """match_bitwidth(a, b[, c], signed=...): every result has the maximal length; unsigned results
    carry the same value, signed results the same two's-complement value."""
    module, qualname, props = 'pyrtl.corecircuits', 'match_bitwidth', ('C06',)
    inline_at_calls = True

    def cases(self):
        return ['2:unsigned', '3:unsigned', '2:signed']

    def setup(self, I, case):
        n, sg = case.split(':')
        ws = [W.input_wire(I, 'w%d' % i) for i in range(int(n))]
        return NS(args=ws, kwargs=dict(signed=True) if sg == 'signed' else {}, signed=(sg == 'signed'),
                  views=[(W.den_of(w), W.bw_of(w)) for w in ws])

    def post(self, ns):
        import z3
        from pyvc.engine import SObj
        res = ns.result
        if isinstance(res, (list, tuple)):
            res = list(res)
        else:
            return [('returns one wire per argument', z3.BoolVal(False))]
        if len(res) != len(ns.views) or not all(isinstance(r, SObj) and r.fields.get('_den') is not None for r in res):
            return [('returns one driven wire per argument', z3.BoolVal(False))]
        L = ns.views[0][1]
        for _, b in ns.views[1:]:
            L = H.If(b > L, b, L)
        out = []
        for i, (r, (d, b)) in enumerate(zip(res, ns.views)):
            out.append(('result %d has the maximal length' % i, W.bw_of(r) == L))
            if ns.signed:
                out.append(('result %d keeps the signed value' % i, sval(W.den_of(r), L) == sval(d, b)))
            else:
                out.append(('result %d keeps the value' % i, W.den_of(r) == d))
        return out


@register
class Mux(WireContract):
    """mux(index, a0, ..., default=d): the input selected by the index value (missing inputs are the
    default), zero-extended to the longest input.  Index widths 1..3 (concrete), data widths and values
    symbolic; the recursion on the top index bit is handled by induction on len(index)."""
    module, qualname, props = 'pyrtl.corecircuits', 'mux', ('C14',)
    recursive_ok = True

    def cases(self):
        return ['1:2:n', '2:4:n', '2:3:d', '2:2:d', '3:8:n', '3:5:d', '3:7:d']

    def setup(self, I, case):
        import z3
        iw, n, d = case.split(':')
        iw, n = int(iw), int(n)
        idx = W.new_wire(I, iw, z3.Int('idx!%d' % next(I.st.n)), hint='idx')
        I.st.assume(z3.And(W.den_of(idx) >= 0, W.den_of(idx) < (1 << iw)))
        ins = [W.input_wire(I, 'd%d' % i) for i in range(n)]
        kw = {}
        if d == 'd':
            kw['default'] = W.input_wire(I, 'dflt')
        return self.bind(I, None, [idx] + ins, kw)

    def bind(self, I, selfobj, args, kwargs):
        import z3
        from pyvc.engine import SObj, Unsupported
        idx, ins = args[0], list(args[1:])
        if not isinstance(idx, SObj) or not all(isinstance(x, SObj) for x in ins):
            raise Unsupported('mux with non-wire operands')
        iw = z3.simplify(W.bw_of(idx))
        if z3.is_int_value(iw):
            iw = iw.as_long()
        else:
            # a width that is a fresh variable pinned by the path condition (result of a slice contract)
            for k in (1, 2, 3, 4):
                if I.st.prove_now(iw == k):
                    iw = k
                    break
            else:
                raise Unsupported('mux with a symbolic index width')
        extra = [k for k in kwargs if k != 'default']
        if extra:
            raise Unsupported('mux with predicate keywords')
        d = kwargs.get('default')
        if d is not None and not isinstance(d, SObj):
            raise Unsupported('mux default %r' % (d,))
        return NS(args=list(args), kwargs=dict(kwargs), iw=iw, vi=W.den_of(idx),
                  ins=[(W.den_of(x), W.bw_of(x)) for x in ins],
                  dflt=None if d is None else (W.den_of(d), W.bw_of(d)))

    def measure(self, ns):
        import z3
        return z3.IntVal(ns.iw)

    def raises(self, ns):
        n = len(ns.ins)
        full = 1 << ns.iw
        bad = n > full or (n < full and ns.dflt is None) or n == 0
        return [('PyrtlError', bad)]

    def post(self, ns):
        full = 1 << ns.iw
        table = list(ns.ins) + ([ns.dflt] * (full - len(ns.ins)) if ns.dflt is not None else [])
        L = table[0][1]
        for _, b in table[1:]:
            L = H.If(b > L, b, L)
        den = table[-1][0]
        for i in reversed(range(len(table) - 1)):
            den = H.If(ns.vi == i, table[i][0], den)
        return _shape(ns, L, den)
