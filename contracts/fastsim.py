"""Translation validation of FastSimulation's per-op Python emitters for ALL widths (C02):
the expression text built by the real `simple_func` templates of FastSimulation._compiled
(evaluated from the real source with placeholder operand names), followed by the real mask-elision
rule `len(dest) == _no_mask_bitwidth[op](net)`, computes the documented value of the primitive
truncated to the destination width - for every well-formed width combination and every operand
value.  The emitted text is parsed back with `ast` and evaluated symbolically (Python ints)."""
import ast


def _tables():
    """(simple_func dict node, module) from FastSimulation._compiled, _no_mask_bitwidth keys"""
    from pyvc import engine as E
    node, mod, cls = E.locate('pyrtl.simulation', 'FastSimulation._compiled')
    table = None
    for n in ast.walk(node):
        if isinstance(n, ast.Assign) and isinstance(n.targets[0], ast.Name) and n.targets[0].id == 'simple_func' \
                and isinstance(n.value, ast.Dict):
            table = n.value
    return table, mod


OPS2 = '&|^n+-*<>='


def vcs_for_op(op):
    """-> list of VCs for one op of the simple_func table"""
    import z3
    from pyvc import engine as E
    from pyvc import theory as T
    from contracts import wiremodel as W
    from contracts import models as M
    table, mod = _tables()
    lam = None
    for k, v in zip(table.keys, table.values):
        if isinstance(k, ast.Constant) and k.value == op:
            lam = v
    if lam is None:
        raise KeyError(op)
    nm_node, _, _ = E.locate('pyrtl.simulation', "FastSimulation._no_mask_bitwidth[%r]" % op)

    def run_path(st):
        I = E.Interp(st, contracts={}, hooks={})
        fr = E.Frame({}, mod)
        P = T.pow2
        nargs = {'w': 1, 'r': 1, '~': 1, 'x': 3}.get(op, 2)
        names = ['A', 'B', 'C'][:nargs]
        vals = [st.fresh_int(n) for n in names]
        wa = z3.Int('wa!%d' % next(st.n))
        dw = z3.Int('dw!%d' % next(st.n))
        st.assume(wa >= 1)
        st.assume(dw >= 1)
        # well-formed widths (WF_net, DESIGN A.2)
        if op == 'x':
            widths = [z3.IntVal(1), wa, wa]
        else:
            widths = [wa] * nargs
        for v, w in zip(vals, widths):
            st.assume(z3.And(v.t >= 0, v.t < P(w)))
        if op in 'wr~&|^n':
            st.assume(dw <= wa)
        elif op in '+-':
            st.assume(dw <= wa + 1)
        elif op == '*':
            st.assume(dw <= 2 * wa)
        elif op in '<>=':
            st.assume(dw == 1)
        elif op == 'x':
            st.assume(dw <= wa)
        st.vc('cover:pre', z3.BoolVal(False), kind='cover')
        # 1. the emitted text, from the real template
        text = I.call_function(E.FuncVal(lam, fr, mod, 'FastSimulation._compiled.simple_func[%r]' % op), names)
        if not isinstance(text, str):
            raise E.Unsupported('template did not produce a string')
        expr = ast.parse(text, mode='eval').body
        raw = I.eval(expr, E.Frame(dict(zip(names, vals)), mod))
        raw = E.term(raw)
        # 2. the real mask-elision rule
        wires = [E.SObj('WireVector', dict(bitwidth=E.Sym(w))) for w in widths]
        dest = E.SObj('WireVector', dict(bitwidth=E.Sym(dw)))
        net = M.net(op, None, tuple(wires), (dest,))
        nomask = I.call_function(E.FuncVal(nm_node, fr, mod, 'FastSimulation._no_mask_bitwidth[%r]' % op), [net])
        elide = I.truth(I.compare('Eq', E.Sym(dw), nomask))
        got = raw if elide else raw % P(dw)          # `mask & expr` with mask = 2**dw - 1
        if elide:
            dw = E.term(nomask)                      # equal on this path; keeps the power terms syntactic
        a = [v.t for v in vals]
        if op in 'wr':
            full = a[0]
        elif op == '~':
            full = -a[0] - 1                 # spec/netsem.py: two's complement inversion, then truncation
        elif op == '&':
            full = T.band(a[0], a[1])
        elif op == '|':
            full = T.bor(a[0], a[1])
        elif op == '^':
            full = T.bxor(a[0], a[1])
        elif op == 'n':
            full = -T.band(a[0], a[1]) - 1
        elif op == '+':
            full = a[0] + a[1]
        elif op == '-':
            full = a[0] - a[1]
        elif op == '*':
            full = a[0] * a[1]
        elif op == '<':
            full = z3.If(a[0] < a[1], z3.IntVal(1), z3.IntVal(0))
        elif op == '>':
            full = z3.If(a[0] > a[1], z3.IntVal(1), z3.IntVal(0))
        elif op == '=':
            full = z3.If(a[0] == a[1], z3.IntVal(1), z3.IntVal(0))
        else:
            full = z3.If(a[0] == 0, a[1], a[2])
        st.vc('emitted == documented value mod 2**len(dest)%s' % (' (mask elided)' if elide else ''),
              got == full % P(dw), kind='post')
        st.vc('emitted value in [0, 2**len(dest))', z3.And(got >= 0, got < P(dw)), kind='post')
    vcs, stats = E.explore(run_path)
    for v in vcs:
        v.name = 'FastSimulation._compiled.simple_func[%s]:%s' % (op, v.name)
    return vcs


def all_ops():
    table, _ = _tables()
    return [k.value for k in table.keys if isinstance(k, ast.Constant)]
