"""Symbolic models of PyRTL objects used by contract setups (type/safety invariants of inputs
go into these: a wire has bitwidth >= 1, a LogicNet has tuple args/dests, ...)."""


def wire(I, hint='w', cls='WireVector', symbolic_kind=False, cached_mask=None):
    import z3
    from pyvc.engine import SObj, Sym
    n = next(I.st.n)
    bw = z3.Int('%s_bw!%d' % (hint, n))
    oid = z3.Int('%s_id!%d' % (hint, n))
    I.st.assume(bw >= 1)
    I.st.assume(oid >= 0)
    kind = None
    c = cls
    if symbolic_kind:
        kind = z3.Int('%s_kind!%d' % (hint, n))
        I.st.assume(z3.And(kind >= 0, kind <= 5))
        c = None
    o = SObj(c, dict(bitwidth=Sym(bw)), oid=oid, kind=kind)
    if c is None:
        o.base_cls = 'WireVector'
    return o


def wire_seq(I, hint='args', min_len=1):
    """Symbolic-length tuple of wires: bitwidth / identity given by uninterpreted functions."""
    import z3
    from pyvc.engine import SObj, SSeq, Sym
    n = next(I.st.n)
    W = z3.Function('%s_W!%d' % (hint, n), z3.IntSort(), z3.IntSort())
    ID = z3.Function('%s_ID!%d' % (hint, n), z3.IntSort(), z3.IntSort())
    length = z3.Int('%s_len!%d' % (hint, n))
    I.st.assume(length >= min_len)
    cache = {}

    def elem(i):
        key = i.sexpr()        # (ids of temporary terms are recycled: key by text)
        if key not in cache:
            I.st.assume(W(i) >= 1)
            cache[key] = SObj('WireVector', dict(bitwidth=Sym(W(i))), oid=ID(i))
        return cache[key]
    s = SSeq(length, elem, 'tuple')
    s.W, s.ID = W, ID
    return s


def int_seq(I, hint='p', min_len=0):
    import z3
    from pyvc.engine import SSeq, Sym
    n = next(I.st.n)
    P = z3.Function('%s_P!%d' % (hint, n), z3.IntSort(), z3.IntSort())
    length = z3.Int('%s_len!%d' % (hint, n))
    I.st.assume(length >= min_len)
    s = SSeq(length, lambda i: Sym(P(i)), 'tuple')
    s.P = P
    return s


def net(op, op_param, args, dests):
    from pyvc.engine import SObj
    return SObj('LogicNet', dict(op=op, op_param=op_param, args=args, dests=dests))


def total_map(I, hint='value'):
    import z3
    from pyvc.engine import SMap
    return SMap(z3.Array('%s!%d' % (hint, next(I.st.n)), z3.IntSort(), z3.IntSort()))


def partial_map(I, hint='m'):
    import z3
    from pyvc.engine import SMap
    n = next(I.st.n)
    return SMap(z3.Array('%s!%d' % (hint, n), z3.IntSort(), z3.IntSort()),
                z3.Array('%s_dom!%d' % (hint, n), z3.IntSort(), z3.BoolSort()))


def nested_map(I, hint='memvalue'):
    import z3
    from pyvc.engine import SMap
    n = next(I.st.n)
    A = z3.ArraySort(z3.IntSort(), z3.IntSort())
    D = z3.ArraySort(z3.IntSort(), z3.BoolSort())
    return SMap(z3.Array('%s!%d' % (hint, n), z3.IntSort(), A),
                z3.Array('%s_dom!%d' % (hint, n), z3.IntSort(), z3.BoolSort()),
                dom2=z3.Array('%s_dom2!%d' % (hint, n), z3.IntSort(), D), inner=True)


def simulation(I):
    from pyvc.engine import SObj
    s = SObj('Simulation', dict(value=total_map(I, 'value'), regvalue=total_map(I, 'regvalue'),
                                memvalue=nested_map(I, 'memvalue'),
                                default_value=I.st.fresh_int('default')))
    return s


def in_range(v, w):
    """0 <= v < 2**w"""
    from pyvc.hl import pow2, And
    return And(v >= 0, v < pow2(w))
