"""Contracts for rtllib.libutils two's-complement helpers and helperfuncs.truncate (C16)."""
from pyvc.contract import Contract, register
from pyvc import hl as H
from pyvc.hl import NS


def iabs(v):
    return H.If(v >= 0, v, -v)


@register
class TwosComp(Contract):
    module, qualname, props = 'pyrtl.rtllib.libutils', 'twos_comp_repr', ('C16',)

    def setup(self, I, case):
        v, bw = I.st.fresh_int('val'), I.st.fresh_int('bitwidth')
        return NS(args=[v, bw], v=v.t, bw=bw.t)

    def raises(self, ns):
        return [('PyrtlError', ns.bw < H.bitlen(iabs(ns.v)) + 1)]

    def post(self, ns):
        from pyvc.engine import term
        r = term(ns.result)
        return [('result == val mod 2**bitwidth', r == H.mod(ns.v, H.pow2(ns.bw))),
                ('in range', H.And(r >= 0, r < H.pow2(ns.bw)))]

    def concrete(self, tier='quick'):
        def mk(v, bw):
            def thunk():
                import pyrtl
                from pyrtl.rtllib import libutils
                try:
                    r = libutils.twos_comp_repr(v, bw)
                except pyrtl.PyrtlError:
                    r = None
                exp = v % (1 << bw) if bw >= abs(v).bit_length() + 1 else None
                return r == exp, r, exp
            return thunk
        for bw in range(1, 8):
            for v in range(-(1 << bw) - 2, (1 << bw) + 3):
                yield ('v=%d,bw=%d' % (v, bw), mk(v, bw))


@register
class RevTwosComp(Contract):
    module, qualname, props = 'pyrtl.rtllib.libutils', 'rev_twos_comp_repr', ('C16',)

    def setup(self, I, case):
        v, bw = I.st.fresh_int('val'), I.st.fresh_int('bitwidth')
        return NS(args=[v, bw], v=v.t, bw=bw.t)

    def pre(self, ns):
        return [('val >= 0 and bitwidth >= 1', H.And(ns.v >= 0, ns.bw >= 1))]

    def raises(self, ns):
        return [('PyrtlError', H.Or(ns.bw < H.bitlen(ns.v), ns.v == H.pow2(ns.bw - 1)))]

    def post(self, ns):
        from pyvc.engine import term
        r = term(ns.result)
        P = H.pow2(ns.bw)
        return [('congruent to val modulo 2**bitwidth', H.Or(r == ns.v, r == ns.v - P)),
                ('symmetric range', H.And(r > -H.pow2(ns.bw - 1), r < H.pow2(ns.bw - 1))),
                ('signed reading', r == H.If(ns.v >= H.pow2(ns.bw - 1), ns.v - P, ns.v))]

    def concrete(self, tier='quick'):
        def mk(v, bw):
            def thunk():
                import pyrtl
                from pyrtl.rtllib import libutils
                try:
                    r = libutils.rev_twos_comp_repr(v, bw)
                except pyrtl.PyrtlError:
                    r = None
                ok = v.bit_length() <= bw and v != (1 << (bw - 1))
                exp = (v - (1 << bw) if v >= (1 << (bw - 1)) else v) if ok else None
                return r == exp, r, exp
            return thunk
        for bw in range(1, 8):
            for v in range(0, (1 << bw) + 3):
                yield ('v=%d,bw=%d' % (v, bw), mk(v, bw))


@register
class TruncateInt(Contract):
    module, qualname, props = 'pyrtl.helperfuncs', 'truncate', ('C16',)

    def setup(self, I, case):
        v, bw = I.st.fresh_int('x'), I.st.fresh_int('bitwidth')
        return NS(args=[v, bw], v=v.t, bw=bw.t)

    def raises(self, ns):
        return [('PyrtlError', ns.bw < 1)]

    def post(self, ns):
        from pyvc.engine import term
        r = term(ns.result)
        return [('x mod 2**bitwidth', r == H.mod(ns.v, H.pow2(ns.bw)))]

    def concrete(self, tier='quick'):
        def mk(v, bw):
            def thunk():
                import pyrtl
                r = pyrtl.truncate(v, bw)
                return r == v % (1 << bw), r, v % (1 << bw)
            return thunk
        for bw in (1, 2, 3, 8, 64):
            for v in list(range(-20, 40)) + [2 ** 64 + 3, -2 ** 65]:
                yield ('x=%d,bw=%d' % (v, bw), mk(v, bw))
