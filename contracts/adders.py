"""Contracts for rtllib adders (C13) over the builder model: half_adder, _one_bit_add_no_concat,
one_bit_add, ripple_half_add and ripple_add (induction on the operand length)."""
from pyvc.contract import register
from pyvc import hl as H
from pyvc.hl import NS
from contracts import wiremodel as W
from contracts.wire import WireContract, _shape
from contracts.corecircuits import _wire_or_bit, _pair, _PairContract


def _bitwire(I, hint):
    w = W.input_wire(I, hint)
    I.st.assume(W.bw_of(w) == 1)
    return w


@register
class HalfAdder(_PairContract):
    """half_adder(a, b) -> (cout, sum), sum + 2*cout == a + b"""
    module, qualname, props = 'pyrtl.rtllib.adders', 'half_adder', ('C13',)

    def setup(self, I, case):
        return self.bind(I, None, [_bitwire(I, 'a'), _bitwire(I, 'b')], {})

    def bind(self, I, selfobj, args, kwargs):
        a, b = args
        return NS(args=[a, b], va=W.den_of(a), vb=W.den_of(b), wa=W.bw_of(a), wb=W.bw_of(b))

    def pre(self, ns):
        return [('one-bit operands', H.And(ns.wa == 1, ns.wb == 1))]

    def post(self, ns):
        import z3
        r = _pair(ns)
        if r is None:
            return [('returns two driven wires', z3.BoolVal(False))]
        c, s = r
        return [('one bit each', H.And(W.bw_of(s) == 1, W.bw_of(c) == 1)),
                ('sum + 2*cout == a + b', W.den_of(s) + 2 * W.den_of(c) == ns.va + ns.vb),
                ('bits', H.And(W.den_of(s) >= 0, W.den_of(s) <= 1, W.den_of(c) >= 0, W.den_of(c) <= 1))]


@register
class OneBitAddNoConcat(_PairContract):
    """_one_bit_add_no_concat(a, b, cin) -> (cout, sum), sum + 2*cout == a + b + cin"""
    module, qualname, props = 'pyrtl.rtllib.adders', '_one_bit_add_no_concat', ('C13',)

    def cases(self):
        return ['wire', '0', '1']

    def setup(self, I, case):
        c = _bitwire(I, 'cin') if case == 'wire' else int(case)
        return self.bind(I, None, [_bitwire(I, 'a'), _bitwire(I, 'b'), c], {})

    def bind(self, I, selfobj, args, kwargs):
        a, b = args[0], args[1]
        c = args[2] if len(args) > 2 else kwargs.get('cin', 0)
        cv, cw = _wire_or_bit(I, c)
        return NS(args=[a, b, c], va=W.den_of(a), vb=W.den_of(b), vc=cv, wa=W.bw_of(a), wb=W.bw_of(b), wc=cw)

    def pre(self, ns):
        return [('one-bit operands', H.And(ns.wa == 1, ns.wb == 1, ns.wc == 1))]

    def post(self, ns):
        import z3
        r = _pair(ns)
        if r is None:
            return [('returns two driven wires', z3.BoolVal(False))]
        c, s = r
        return [('one bit each', H.And(W.bw_of(s) == 1, W.bw_of(c) == 1)),
                ('sum + 2*cout == a + b + cin', W.den_of(s) + 2 * W.den_of(c) == ns.va + ns.vb + ns.vc),
                ('bits', H.And(W.den_of(s) >= 0, W.den_of(s) <= 1, W.den_of(c) >= 0, W.den_of(c) <= 1))]


@register
class OneBitAdd(WireContract):
    """one_bit_add(a, b, cin): a two-bit wire holding a + b + cin"""
    module, qualname, props = 'pyrtl.rtllib.adders', 'one_bit_add', ('C13',)

    def cases(self):
        return ['wire', '0', '1']

    def setup(self, I, case):
        c = _bitwire(I, 'cin') if case == 'wire' else int(case)
        return self.bind(I, None, [_bitwire(I, 'a'), _bitwire(I, 'b'), c], {})

    def bind(self, I, selfobj, args, kwargs):
        a, b = args[0], args[1]
        c = args[2] if len(args) > 2 else kwargs.get('cin', 0)
        cv, cw = _wire_or_bit(I, c)
        return NS(args=[a, b, c], va=W.den_of(a), vb=W.den_of(b), vc=cv, wa=W.bw_of(a), wb=W.bw_of(b), wc=cw)

    def pre(self, ns):
        return [('one-bit operands', H.And(ns.wa == 1, ns.wb == 1, ns.wc == 1))]

    def post(self, ns):
        return _shape(ns, 2, ns.va + ns.vb + ns.vc)


@register
class RippleHalfAdd(WireContract):
    """ripple_half_add(a, cin): len(a) + 1 bits holding a + cin.  Induction on len(a)."""
    module, qualname, props = 'pyrtl.rtllib.adders', 'ripple_half_add', ('C13',)
    recursive_ok = True

    def cases(self):
        return ['wire', '0', '1']

    def setup(self, I, case):
        c = _bitwire(I, 'cin') if case == 'wire' else int(case)
        return self.bind(I, None, [W.input_wire(I, 'a'), c], {})

    def bind(self, I, selfobj, args, kwargs):
        a = args[0]
        c = args[1] if len(args) > 1 else kwargs.get('cin', 0)
        cv, cw = _wire_or_bit(I, c)
        return NS(args=[a, c], va=W.den_of(a), vc=cv, wa=W.bw_of(a), wc=cw)

    def pre(self, ns):
        return [('carry in is one bit', ns.wc == 1)]

    def measure(self, ns):
        return ns.wa

    def post(self, ns):
        return _shape(ns, ns.wa + 1, ns.va + ns.vc)


@register
class RippleAdd(WireContract):
    """ripple_add(a, b, cin): max(len a, len b) + 1 bits holding a + b + cin exactly.
    Induction on max(len a, len b)."""
    module, qualname, props = 'pyrtl.rtllib.adders', 'ripple_add', ('C13',)
    recursive_ok = True

    def cases(self):
        return ['wire', '0', '1']

    def setup(self, I, case):
        c = _bitwire(I, 'cin') if case == 'wire' else int(case)
        return self.bind(I, None, [W.input_wire(I, 'a'), W.input_wire(I, 'b'), c], {})

    def bind(self, I, selfobj, args, kwargs):
        a, b = args[0], args[1]
        c = args[2] if len(args) > 2 else kwargs.get('cin', 0)
        cv, cw = _wire_or_bit(I, c)
        wa, wb = W.bw_of(a), W.bw_of(b)
        return NS(args=[a, b, c], va=W.den_of(a), vb=W.den_of(b), vc=cv, wa=wa, wb=wb, wc=cw,
                  L=H.If(wa >= wb, wa, wb))

    def pre(self, ns):
        return [('carry in is one bit', ns.wc == 1)]

    def measure(self, ns):
        return ns.L

    def post(self, ns):
        return _shape(ns, ns.L + 1, ns.va + ns.vb + ns.vc)

    def concrete(self, tier='quick'):
        def mk(wa, wb, cin):
            def thunk():
                import pyrtl
                from pyrtl.rtllib import adders
                pyrtl.reset_working_block()
                a, b = pyrtl.Input(wa, 'a'), pyrtl.Input(wb, 'b')
                c = pyrtl.Input(1, 'c') if cin == 'wire' else cin
                r = adders.ripple_add(a, b, c)
                o = pyrtl.Output(len(r), 'o')
                o <<= r
                sim = pyrtl.Simulation()
                if len(r) != max(wa, wb) + 1:
                    return False, ('len', len(r)), ('len', max(wa, wb) + 1)
                for x in range(1 << wa):
                    for y in range(1 << wb):
                        for z in ((0, 1) if cin == 'wire' else (cin,)):
                            ins = {'a': x, 'b': y}
                            if cin == 'wire':
                                ins['c'] = z
                            sim.step(ins)
                            if sim.inspect('o') != x + y + z:
                                return False, ((x, y, z), sim.inspect('o')), x + y + z
                return True, 'ok', 'ok'
            return thunk
        for wa, wb in ((1, 1), (1, 3), (3, 1), (2, 2), (3, 4)):
            for cin in (0, 1, 'wire'):
                yield ('wa=%d wb=%d cin=%s' % (wa, wb, cin), mk(wa, wb, cin))
