"""Translation validation of the Verilog exporter's per-net `assign` emitters for ALL widths (C05):
the text printed by the real loop body of importexport._to_verilog_combinational for one net
(executed from the real source on a model net with placeholder wire names and SYMBOLIC widths),
read under the IEEE 1364-2001 expression width rules (context-determined operands are extended to
max(len(lhs), self-determined width of the rhs); comparisons and concatenations are self-determined;
the result is truncated to the declared width of the lhs), computes the documented value of the
primitive truncated to the destination width - for every well-formed width combination and every
operand value.  The emitted text is parsed with spec/vsem.py's expression parser and evaluated over
Python integers with symbolic widths (this file's `ev`), so the obligation is over the text that the
real code prints, not over a model of the emitter.

Dropped / assumed: declarations (`wire[w-1:0] x;`) are taken to declare each placeholder at the width of
the wire it stands for (the static clauses of the bounded family check the declared widths per design);
registers, memories and the testbench are outside this per-net obligation (bounded family)."""
import ast


def _loop_body():
    """body of `for net in _net_sorted(block.logic, varname):` in the real function"""
    from pyvc import engine as E
    node, mod, _ = E.locate('pyrtl.importexport', '_to_verilog_combinational')
    loops = [n for n in ast.walk(node) if isinstance(n, ast.For) and isinstance(n.target, ast.Name)
             and any(isinstance(c, ast.Attribute) and c.attr == 'op' for b in n.body for c in ast.walk(b))]
    if len(loops) != 1:
        raise E.Unsupported('_to_verilog_combinational: expected one loop over the nets, found %d '
                            '(function shape changed; contract needs re-anchoring)' % len(loops))
    return node, loops[0], mod


# ---- IEEE 1364-2001 expression semantics over Python integers with symbolic widths -------------
def _mx(a, b):
    import z3
    return z3.If(a >= b, a, b)


def self_width(e, widths):
    import z3
    k = e[0]
    if k == 'num':
        return z3.IntVal(e[2])
    if k == 'id':
        return widths[e[1]]
    if k == 'idx':
        return z3.IntVal(1)
    if k == '~':
        return self_width(e[1], widths)
    if k == 'bin':
        if e[1] in ('<', '>', '==', '<=', '>=', '!='):
            return z3.IntVal(1)
        return _mx(self_width(e[2], widths), self_width(e[3], widths))
    if k == '?:':
        return _mx(self_width(e[2], widths), self_width(e[3], widths))
    if k == 'cat':
        s = z3.IntVal(0)
        for x in e[1]:
            s = s + self_width(x, widths)
        return s
    from spec.vsem import VError
    raise VError(k)


def ev(e, Wc, env, widths):
    """value of e in a context of Wc bits (Wc >= its self-determined width), an int in [0, 2**Wc)"""
    import z3
    from pyvc import theory as T
    from spec.vsem import VError
    P = T.pow2
    k = e[0]
    if k == 'num':
        return z3.IntVal(e[1]) % P(Wc)
    if k == 'id':
        return env[e[1]]                       # zero extension: the value itself
    if k == 'idx':
        if e[2][0] != 'num':
            raise VError('non-constant bit select')
        return (env[e[1]] / P(z3.IntVal(e[2][1]))) % 2
    if k == '~':
        return P(Wc) - 1 - ev(e[1], Wc, env, widths)
    if k == 'bin':
        op = e[1]
        if op in ('<', '>', '==', '<=', '>=', '!='):
            w = _mx(self_width(e[2], widths), self_width(e[3], widths))
            a, b = ev(e[2], w, env, widths), ev(e[3], w, env, widths)
            c = {'<': a < b, '>': a > b, '==': a == b, '<=': a <= b, '>=': a >= b, '!=': a != b}[op]
            return z3.If(c, z3.IntVal(1), z3.IntVal(0))
        a, b = ev(e[2], Wc, env, widths), ev(e[3], Wc, env, widths)
        if op == '+':
            return (a + b) % P(Wc)
        if op == '-':
            return (a - b) % P(Wc)
        if op == '*':
            return (a * b) % P(Wc)
        if op == '&':
            return T.band(a, b)
        if op == '|':
            return T.bor(a, b)
        if op == '^':
            return T.bxor(a, b)
        raise VError(op)
    if k == '?:':
        c = ev(e[1], self_width(e[1], widths), env, widths)
        return z3.If(c != 0, ev(e[2], Wc, env, widths), ev(e[3], Wc, env, widths))
    if k == 'cat':
        v = z3.IntVal(0)
        for x in e[1]:
            w = self_width(x, widths)
            v = v * P(w) + ev(x, w, env, widths)
        return v
    raise VError(k)


CASES = [(op, None) for op in 'w~&|^+-*<>=x'] + \
        [('c', n) for n in (1, 2, 3)] + \
        [('s', p) for p in ((0,), (2,), (0, 1), (1, 0), (3, 1, 0), (1, 1), (0, 1, 2, 3))]


def case_name(c):
    return '%s%s' % (c[0], '' if c[1] is None else ':' + (str(c[1]) if isinstance(c[1], int)
                                                           else ','.join(map(str, c[1]))))


def vcs_for_case(case):
    import z3
    from pyvc import engine as E
    from pyvc import theory as T
    from contracts import models as M
    from spec import vsem
    op, par = case
    fn, loop, mod = _loop_body()

    def run_path(st):
        out = []
        I = E.Interp(st, contracts={}, hooks={'print': lambda I_, args, fr_: out.append(' '.join(str(a) for a in args))})
        P = T.pow2
        nargs = {'w': 1, '~': 1, 'x': 3, 's': 1, 'c': par if op == 'c' else 0}.get(op, 2)
        names = ['A', 'B', 'C'][:nargs]
        vals = [st.fresh_int(n) for n in names]
        wa = z3.Int('wa!%d' % next(st.n))
        dw = z3.Int('dw!%d' % next(st.n))
        st.assume(wa >= 1)
        # well-formed widths (WF_net = what sanity_check_net accepts, proved under C10)
        if op == 'x':
            widths = [z3.IntVal(1), wa, wa]
        elif op == 'c':
            widths = [z3.Int('w%d!%d' % (i, next(st.n))) for i in range(nargs)]
            for w in widths:
                st.assume(w >= 1)
        else:
            widths = [wa] * nargs
        for v, w in zip(vals, widths):
            st.assume(z3.And(v.t >= 0, v.t < P(w)))
        if op in 'w~&|^x':
            st.assume(dw == wa)
        elif op in '+-':
            st.assume(dw == wa + 1)
        elif op == '*':
            st.assume(dw == 2 * wa)
        elif op in '<>=':
            st.assume(dw == 1)
        elif op == 'c':
            tot = widths[0]
            for w in widths[1:]:
                tot = tot + w
            st.assume(dw == tot)
        elif op == 's':
            st.assume(dw == len(par))
            st.assume(wa > max(par))
        st.vc('cover:pre', z3.BoolVal(False), kind='cover')
        wires = [E.SObj('WireVector', dict(bitwidth=E.Sym(w), name=n)) for w, n in zip(widths, names)]
        dest = E.SObj('WireVector', dict(bitwidth=E.Sym(dw), name='D'))
        net = M.net(op, par if op == 's' else None, tuple(wires), (dest,))

        def varname(I_, args, kwargs):
            return args[0].fields['name']
        fr = E.Frame({'net': net, 'varname': E.Builtin('varname', varname), 'file': None}, mod)
        fr.func = None
        try:
            I.exec_block(loop.body, fr)
        except E.ContinueSig:
            pass            # `continue`: this iteration of the loop ends here
        lines = [ln.strip() for ln in out if ln.strip()]
        if len(lines) != 1:
            st.vc('one assign statement is printed for the net', z3.BoolVal(False), kind='post')
            return
        import re
        mm = re.match(r'assign\s+([A-Za-z_][\w$]*)\s*=\s*(.*);$', lines[0])
        if not mm or mm.group(1) != 'D':
            st.vc('the statement assigns the destination wire', z3.BoolVal(False), kind='post')
            return
        try:
            toks = vsem.tokenize(mm.group(2))
            e, j = vsem.parse_expr(toks)
            if j != len(toks):
                raise vsem.VError('trailing tokens')
            wd = dict(zip(names, widths))
            env = dict(zip(names, [v.t for v in vals]))
            Wc = _mx(dw, self_width(e, wd))
            got = ev(e, Wc, env, wd) % P(dw)
        except vsem.VError as ex:
            raise E.Unsupported('emitted expression outside the modelled Verilog subset: %s' % ex)
        a = [v.t for v in vals]
        if op == 'w':
            full = a[0]
        elif op == '~':
            full = -a[0] - 1
        elif op == '&':
            full = T.band(a[0], a[1])
        elif op == '|':
            full = T.bor(a[0], a[1])
        elif op == '^':
            full = T.bxor(a[0], a[1])
        elif op == '+':
            full = a[0] + a[1]
        elif op == '-':
            full = a[0] - a[1]
        elif op == '*':
            full = a[0] * a[1]
        elif op == '<':
            full = z3.If(a[0] < a[1], z3.IntVal(1), z3.IntVal(0))
        elif op == '>':
            full = z3.If(a[0] > a[1], z3.IntVal(1), z3.IntVal(0))
        elif op == '=':
            full = z3.If(a[0] == a[1], z3.IntVal(1), z3.IntVal(0))
        elif op == 'x':
            full = z3.If(a[0] == 0, a[1], a[2])
        elif op == 'c':
            full = z3.IntVal(0)
            for v, w in zip(a, widths):
                full = full * P(w) + v
        else:
            full = z3.IntVal(0)
            for k, i in enumerate(par):
                full = full + ((a[0] / P(z3.IntVal(i))) % 2) * (1 << k)
        st.vc('emitted assign == documented value mod 2**len(dest)', got == full % P(dw), kind='post')
    vcs, stats = E.explore(run_path)
    for v in vcs:
        v.name = '_to_verilog_combinational[%s]:%s' % (case_name(case), v.name)
    return vcs
