"""Contract for Block.sanity_check_net (C10) - DESIGN A.2: the per-net rule list accepts exactly
the well-formed nets of the LogicNet docstring table and refuses every other net with
PyrtlInternalError / PyrtlError (never another exception)."""
from pyvc.contract import Contract, register
from pyvc import hl as H
from pyvc.hl import NS
from contracts import models as M

OPS = 'w~&|^n+-*<>=xcsrm@'


def wf_net(op, param, args, dests):
    """WF_net of DESIGN A.2, written from the LogicNet docstring (core.py) - NOT from the code.
    args/dests: lists of dict(bw=z3 Int, kind=z3 Int, same_block=bool); param: a description dict.
    Returns a z3 Bool (or Python bool)."""
    K = dict(Input=1, Output=2, Const=3, Register=4)
    cl = []

    def _and(*xs):
        if all(isinstance(x, bool) for x in xs):
            return all(xs)
        import z3
        return z3.And(*xs)
    cl.append(all(w['same_block'] for w in args + dests))
    for d in dests:
        cl.append(_and(d['kind'] != K['Input'], d['kind'] != K['Const']))
    for a in args:
        cl.append(a['kind'] != K['Output'])
    if op not in OPS:
        return False
    arity = {'w': 1, '~': 1, 'r': 1, 's': 1, 'm': 1, 'x': 3, '@': 3}
    for o in '&|^n+-*<>=':
        arity[o] = 2
    if op in arity and len(args) != arity[op]:
        return False
    if op == 'c' and len(args) < 1:
        return False
    ndest = 0 if op == '@' else 1
    if len(dests) != ndest:
        return False
    bw = lambda w: w['bw']      # noqa: E731
    if op in '&|^n+-*<>=':
        cl.append(bw(args[0]) == bw(args[1]))
    if op == 'x':
        cl.append(bw(args[0]) == 1)
        cl.append(bw(args[1]) == bw(args[2]))
    # parameter
    if op in 'w~&|^n+-*<>=xcr':
        if param['kind'] != 'none':
            return False
    elif op == 's':
        if param['kind'] != 'ints':
            return False
        for p in param['vals']:
            cl.append(_and(p >= 0, p < bw(args[0])))
    else:
        if param['kind'] != 'mem':
            return False
        cl.append(param['memid'] == param['mem_id'])
        cl.append(bw(args[0]) == param['addrwidth'])
        if op == '@':
            cl.append(bw(args[1]) == param['bitwidth'])
            cl.append(bw(args[2]) == 1)
    # destination
    if dests:
        d = dests[0]
        if op in 'w~&|^nr':
            cl.append(bw(d) <= bw(args[0]))
        if op == 'r':
            cl.append(d['kind'] == K['Register'])
        if op in '+-':
            cl.append(bw(d) <= bw(args[0]) + 1)
        if op == '*':
            cl.append(bw(d) <= 2 * bw(args[0]))
        if op in '<>=':
            cl.append(bw(d) == 1)
        if op == 'x':
            cl.append(bw(d) <= bw(args[1]))
        if op == 'c':
            cl.append(bw(d) <= sum(bw(a) for a in args))
        if op == 's':
            cl.append(bw(d) <= len(param['vals']))
        if op == 'm':
            cl.append(bw(d) == param['bitwidth'])
    if any(c is False for c in cl):
        return False
    rest = [c for c in cl if c is not True]
    return _and(*rest) if rest else True


PARAMS = ['none', 'ints0', 'ints1', 'ints2', 'mem', 'mem_short', 'mem_strid', 'mem_notmem', 'int', 'list']


@register
class SanityCheckNet(Contract):
    module, qualname, props = 'pyrtl.core', 'Block.sanity_check_net', ('C10',)
    max_paths = 4000

    def cases(self):
        out = []
        for op in OPS + 'Z':
            want = {'w': 1, '~': 1, 'r': 1, 's': 1, 'm': 1, 'x': 3, '@': 3, 'c': 2, 'Z': 1}.get(op, 2)
            for na in range(0, 5):
                for nd in range(0, 3):
                    # all parameter kinds at the documented shape; wrong shapes with the parameter
                    # kinds that are legal for some op
                    ps = PARAMS if (na == want and nd == (0 if op == '@' else 1)) else \
                        ['none', 'ints1', 'mem']
                    if op == 'c' and nd == 1:
                        ps = PARAMS if na in (1, 2, 3) else ['none', 'ints1', 'mem']
                    for p in ps:
                        out.append('%s;%d;%d;%s;own' % (op, na, nd, p))
            out.append('%s;%d;%d;%s;foreign_arg' % (op, want, 0 if op == '@' else 1, 'none'))
            out.append('%s;%d;%d;%s;foreign_dest' % (op, want, 1, 'none'))
        return out

    def setup(self, I, case):
        import z3
        from pyvc.engine import SObj, Sym, Builtin
        st = I.st
        op, na, nd, pk, own = case.split(';')
        na, nd = int(na), int(nd)
        blk = SObj('Block', dict(legal_ops=set(OPS)))
        other = SObj('Block', {})
        blk.fields['sanity_check_wirevector'] = Builtin('Block.sanity_check_wirevector(valid wires assumed)',
                                                        lambda I_, a, k: None)

        def mk(hint, foreign=False):
            w = M.wire(I, hint, symbolic_kind=True)
            w.fields['_block'] = other if foreign else blk
            w.fields['name'] = hint
            return w
        args = [mk('a%d' % i, foreign=(own == 'foreign_arg' and i == 0)) for i in range(na)]
        dests = [mk('d%d' % i, foreign=(own == 'foreign_dest' and i == 0)) for i in range(nd)]
        blk.fields['wirevector_set'] = list(args) + list(dests)
        pdesc = dict(kind=pk)
        if pk == 'none':
            param = None
        elif pk.startswith('ints'):
            n = int(pk[4:])
            vals = [st.fresh_int('p%d' % i) for i in range(n)]
            param = tuple(vals)
            pdesc = dict(kind='ints', vals=[v.t for v in vals])
        elif pk.startswith('mem'):
            mem = SObj('MemBlock', dict(addrwidth=st.fresh_int('addrwidth'), bitwidth=st.fresh_int('membw'),
                                        id=st.fresh_int('mem_id')))
            st.assume(z3.And(mem.fields['addrwidth'].t >= 1, mem.fields['bitwidth'].t >= 1))
            memid = st.fresh_int('memid')
            if pk == 'mem':
                param = (memid, mem)
                pdesc = dict(kind='mem', memid=memid.t, mem_id=mem.fields['id'].t,
                             addrwidth=mem.fields['addrwidth'].t, bitwidth=mem.fields['bitwidth'].t)
            elif pk == 'mem_short':
                param = (memid,)          # a 1-tuple of an int: a legal select parameter
                pdesc = dict(kind='ints', vals=[memid.t])
            elif pk == 'mem_strid':
                param = ('0', mem)
                pdesc = dict(kind='bad')
            else:
                param = (memid, SObj('WireVector', dict(bitwidth=Sym(z3.IntVal(1))), oid=z3.IntVal(-5)))
                pdesc = dict(kind='bad')
        elif pk == 'int':
            param = st.fresh_int('param')
            pdesc = dict(kind='bad')
        else:
            param = [0]
            pdesc = dict(kind='bad')
        net = M.net(op, param, tuple(args), tuple(dests))

        def view(w, foreign):
            return dict(bw=w.fields['bitwidth'].t, kind=w.kind, same_block=not foreign)
        ns = NS(self=blk, args=[net], op=op, pdesc=pdesc,
                aviews=[view(w, own == 'foreign_arg' and i == 0) for i, w in enumerate(args)],
                dviews=[view(w, own == 'foreign_dest' and i == 0) for i, w in enumerate(dests)])
        return ns

    def raises(self, ns):
        wf = wf_net(ns.op, ns.pdesc, ns.aviews, ns.dviews)
        return [('PyrtlInternalError', H.Not(wf) if not isinstance(wf, bool) else (not wf))]

    def post(self, ns):
        return [('returns None', ns.result is None)]

    def concrete(self, tier='quick'):
        """the same biconditional on real LogicNets over small concrete widths / kinds"""
        import itertools

        def mk(op, abws, akinds, dbws, dkinds, pk, pvals):
            def thunk():
                import pyrtl
                pyrtl.reset_working_block()
                blk = pyrtl.working_block()
                cls = {0: pyrtl.WireVector, 1: pyrtl.Input, 2: pyrtl.Output, 4: pyrtl.Register}

                def w(kind, bw):
                    return pyrtl.Const(0, bw) if kind == 3 else cls[kind](bw)
                args = tuple(w(k_, b) for k_, b in zip(akinds, abws))
                dests = tuple(w(k_, b) for k_, b in zip(dkinds, dbws))
                pdesc = dict(kind=pk)
                if pk == 'none':
                    param = None
                elif pk == 'ints':
                    param = tuple(pvals)
                    pdesc = dict(kind='ints', vals=list(pvals))
                else:
                    mem = pyrtl.MemBlock(bitwidth=pvals[1], addrwidth=pvals[0], name='m')
                    memid = mem.id + pvals[2]
                    param = (memid, mem)
                    pdesc = dict(kind='mem', memid=memid, mem_id=mem.id, addrwidth=pvals[0], bitwidth=pvals[1])
                net = pyrtl.LogicNet(op, param, args, dests)
                want = wf_net(op, pdesc, [dict(bw=b, kind=k_, same_block=True) for k_, b in zip(akinds, abws)],
                              [dict(bw=b, kind=k_, same_block=True) for k_, b in zip(dkinds, dbws)])
                try:
                    blk.sanity_check_net(net)
                    got = True
                except (pyrtl.PyrtlError, pyrtl.PyrtlInternalError):
                    got = False
                return got == bool(want), 'accepted' if got else 'refused', 'accept' if want else 'refuse'
            return thunk
        arity = {'w': 1, '~': 1, 'r': 1, 's': 1, 'm': 1, 'x': 3, '@': 3, 'c': 2}
        for op in OPS:
            na = arity.get(op, 2)
            nd = 0 if op == '@' else 1
            if op == 's':
                plist = [('ints', v) for v in ((0,), (1,), (2,), (0, 1), (-1,), ())] + [('none', None)]
            elif op in 'm@':
                plist = [('mem', (1, 2, 0)), ('mem', (2, 2, 0)), ('mem', (1, 1, 0)), ('mem', (1, 2, 1)), ('none', None)]
            else:
                plist = [('none', None), ('ints', (0,))]
            for abws in itertools.product((1, 2), repeat=na):
                for dbws in itertools.product((1, 2, 3, 5), repeat=nd):
                    for pk, pv in plist:
                        for dk in ((0,), (4,), (1,), (3,), (2,))[:(5 if nd else 1)]:
                            yield ('%s a=%s d=%s dk=%s p=%s%s' % (op, abws, dbws, dk[:nd], pk, pv),
                                   mk(op, abws, (0,) * na, dbws, dk[:nd], pk, pv))
            # an Output used as an argument
            yield ('%s output-arg' % op, mk(op, (1,) * na, (2,) + (0,) * (na - 1), (1,) * nd, (0,) * nd,
                                             plist[0][0], plist[0][1]))
