"""Contracts for the constant-propagation folding rules (C04) - DESIGN 4/C04.
The nested function `_constant_prop_pass.constant_prop_check` decides, for one net, whether to
replace it; the contract states that every replacement computes the documented value of the net
(spec/netsem, restated here over the integer theory) for all widths and all values."""
from pyvc.contract import Contract, register
from pyvc import hl as H
from pyvc.hl import NS
from contracts import models as M


def _netsem2(op, a, b, w):
    """documented value of a two-operand bitwise net of width w (LogicNet docstring)"""
    import z3
    from pyvc import theory as T
    if op == '&':
        return T.band(a, b)
    if op == '|':
        return T.bor(a, b)
    if op == '^':
        return T.bxor(a, b)
    if op == 'n':
        return T.pow2(w) - 1 - T.band(a, b)
    raise KeyError(op)


@register
class ConstFold(Contract):
    module, qualname, props = 'pyrtl.passes', '_constant_prop_pass.constant_prop_check', ('C04',)

    def cases(self):
        out = []
        for op in '&|^n':
            out += ['%s:cc' % op, '%s:cw' % op, '%s:wc' % op, '%s:ww' % op]
        out += ['~:c', '~:w', 'r:c', 'r:w', 'w:c', 's:c', 'c:cc', 'm:c']
        return out

    @property
    def hooks(self):
        from pyvc.engine import SObj, Sym, term
        import z3

        def mk_const(I_, a, k):
            bw, val = k.get('bitwidth'), k.get('val')
            if a:
                val = a[0]
                if len(a) > 1:
                    bw = a[1]
            # Const.__init__ raises unless the value fits the bitwidth: precondition of the call
            I_.st.vc('call:Const.value fits bitwidth',
                     z3.And(term(val) >= 0, term(val) < H.pow2(term(bw))), kind='callpre')
            o = SObj('Const', dict(val=val if isinstance(val, Sym) else Sym(term(val)),
                                   bitwidth=bw if isinstance(bw, Sym) else Sym(term(bw))),
                     oid=z3.Int('newconst!%d' % next(I_.st.n)))
            o.fields['_new'] = True
            return o

        def mk_net(I_, a, k):
            names = ['op', 'op_param', 'args', 'dests']
            f = dict(zip(names, a))
            f.update(k)
            return SObj('LogicNet', f)
        return {'construct:Const': mk_const, 'construct:LogicNet': mk_net}

    def setup(self, I, case):
        import z3
        from pyvc.engine import SObj, Sym, outer_frame
        st = I.st
        op, kinds = case.split(':')
        args = []
        for i, kd in enumerate(kinds):
            if kd == 'c':
                w = M.wire(I, 'c%d' % i, cls='Const')
                v = st.fresh_int('cval%d' % i)
                st.assume(M.in_range(v.t, w.fields['bitwidth'].t))
                w.fields['val'] = v
            else:
                w = M.wire(I, 'w%d' % i, cls='WireVector')
            args.append(w)
        dest = M.wire(I, 'dest', cls='WireVector')
        # well-formedness of the net (sanity_check_net): bitwise ops have equal widths everywhere
        if op in '&|^n~r':
            for a in args:
                st.assume(a.fields['bitwidth'].t == dest.fields['bitwidth'].t)
        net = M.net(op, None, tuple(args), (dest,))
        g = dict(nets_to_remove=set(), nets_to_add=set(), wire_add_set=set(), new_wire_src={})
        extra = dict(g)
        extra.update(block=SObj('Block', {}), silence_unexpected_net_warnings=False)
        outer = outer_frame(I, self.module, '_constant_prop_pass', extra)
        return NS(args=[net], outer=outer, net=net, op=op, kinds=kinds, wires=args, dest=dest, g=g)

    def post(self, ns):
        """Whatever drives dest afterwards computes the documented value of the original net, for
        every value x of the non-constant operand."""
        import z3
        from pyvc.engine import term, SObj
        g, net, op, dest = ns.g, ns.net, ns.op, ns.dest
        removed = any(n is net for n in g['nets_to_remove'])
        consts = [w for w in ns.wires if w.cls == 'Const']
        others = [w for w in ns.wires if w.cls != 'Const']
        fold_expected = op in '&|^n~r' and len(consts) >= 1
        out = [('only foldable nets with a constant operand are replaced', z3.BoolVal(removed <= fold_expected))]
        if not removed:
            out.append(('nothing else was recorded', z3.BoolVal(
                not g['nets_to_add'] and not g['wire_add_set'] and not g['new_wire_src'])))
            if fold_expected and (len(others) == 0):
                out.append(('a net with only constant operands is folded', z3.BoolVal(False)))
            return out
        # symbolic value of every operand
        w = dest.fields['bitwidth'].t
        x = z3.Int('x!other')
        vals = {}
        for a in ns.wires:
            vals[id(a)] = term(a.fields['val']) if a.cls == 'Const' else x
        if op in '&|^n':
            want = _netsem2(op, vals[id(ns.wires[0])], vals[id(ns.wires[1])], w)
        elif op == '~':
            want = H.pow2(w) - 1 - vals[id(ns.wires[0])]
        else:           # 'r' with a constant next value: folded as the constant (sanctioned, C04)
            want = vals[id(ns.wires[0])]

        def value_of(wire):
            if wire.fields.get('_new'):
                return term(wire.fields['val']), wire.fields['bitwidth'].t
            for a in ns.wires:
                if a is wire:
                    return vals[id(a)], a.fields['bitwidth'].t
            return None, None
        # who drives dest now?
        new_src = [v for k_, v in g['new_wire_src'].items() if k_ is dest]
        new_nets = [n for n in g['nets_to_add'] if any(d is dest for d in n.fields['dests'])]
        if len(new_src) + len(new_nets) != 1:
            out.append(('dest has exactly one new driver', z3.BoolVal(False)))
            return out
        if new_src:
            got, gw = value_of(new_src[0])
        else:
            n = new_nets[0]
            av, gw = value_of(n.fields['args'][0])
            if n.fields['op'] == 'w':
                got = av
            elif n.fields['op'] == '~' and av is not None:
                got = H.pow2(gw) - 1 - av
            else:
                got = None
        if got is None:
            out.append(('the new driver is a known wire / w / ~ net', z3.BoolVal(False)))
            return out
        rng = z3.And(x >= 0, x < H.pow2(w))
        out.append(('replacement computes the documented value of the net for every operand value',
                    z3.Implies(rng, got == want)))
        out.append(('replacement has the width of the destination', gw == w))
        newc = [c for c in g['wire_add_set']]
        out.append(('every new constant is registered with the block',
                    z3.BoolVal(all((not wv.fields.get('_new')) or any(wv is c for c in newc)
                                   for wv in ([new_src[0]] if new_src else list(new_nets[0].fields['args']))))))
        return out

    def may_raise(self, ns):
        return []

    def raises(self, ns):
        # one constant with multi-bit wires is reported (not silenced in this setup)
        if ns.op in '&|^n' and sorted(ns.kinds) == ['c', 'w']:
            ws = [w.fields['bitwidth'].t for w in ns.wires] + [ns.dest.fields['bitwidth'].t]
            return [('PyrtlError', H.Or(*[b != 1 for b in ws]))]
        return [('PyrtlError', False)]

    def concrete(self, tier='quick'):
        def mk(op, lv, rv, w, lconst, rconst):
            def thunk():
                import pyrtl
                pyrtl.reset_working_block()
                a = pyrtl.Const(lv, w) if lconst else pyrtl.Input(w, 'a')
                b = pyrtl.Const(rv, w) if rconst else pyrtl.Input(w, 'b')
                o = pyrtl.Output(w, 'o')
                r = {'&': lambda: a & b, '|': lambda: a | b, '^': lambda: a ^ b, 'n': lambda: a.nand(b)}[op]()
                o <<= r
                pyrtl.constant_propagation(pyrtl.working_block())
                sim = pyrtl.Simulation()
                m = (1 << w) - 1
                bad = []
                for x in range(1 << w):
                    ins = {}
                    if not lconst:
                        ins['a'] = x
                    if not rconst:
                        ins['b'] = x
                    sim.step(ins)
                    la, rb = (lv if lconst else x), (rv if rconst else x)
                    exp = {'&': la & rb, '|': la | rb, '^': la ^ rb, 'n': ~(la & rb) & m}[op]
                    if sim.inspect('o') != exp:
                        bad.append((x, sim.inspect('o'), exp))
                return not bad, bad[:2], []
            return thunk
        for op in '&|^n':
            for w in (1, 2, 3):
                for lv in (0, (1 << w) - 1, 1):
                    for rv in (0, (1 << w) - 1):
                        yield ('%s w=%d %d,%d cc' % (op, w, lv, rv), mk(op, lv, rv, w, True, True))
                    if w == 1:
                        yield ('%s w=1 %d cw' % (op, lv), mk(op, lv, 0, w, True, False))
                        yield ('%s w=1 %d wc' % (op, lv), mk(op, 0, lv, w, False, True))


# ------------------------------------------------------------------------------ lowering rules (C09)
class _SynthRule(Contract):
    """A per-net rewrite rule run through transform.all_nets: either it keeps the net (returns a
    truthy value and builds nothing) or it drives the net's destination with new logic computing
    the documented value of the original net, and returns a falsy value (so net_transform drops
    the original net)."""
    module = 'pyrtl.passes'
    KEEP = ''
    REWRITE = ''

    @property
    def hooks(self):
        from contracts import wiremodel as W
        return W.hooks()

    def cases(self):
        # ':tied' = both arguments of a two-input gate are the SAME wire object
        return list(self.KEEP + self.REWRITE + '+') + [o + ':tied' for o in '&|^n' if o in self.KEEP + self.REWRITE]

    def setup(self, I, case):
        from contracts import wiremodel as W
        tied = case.endswith(':tied')
        case = case.split(':')[0]
        a = W.input_wire(I, 'a')
        b = a if tied else W.input_wire(I, 'b')
        dest = W.new_wire(I, W.bw_of(a), None, hint='dest')
        I.st.assume(W.bw_of(a) == W.bw_of(b))
        # the rules are applied to synthesized (one-bit) netlists; wider wires: bounded family
        I.st.assume(W.bw_of(a) == 1)
        nargs = {'~': 1, 'r': 1, 'w': 1, 's': 1, 'm': 1, '@': 3, 'c': 2}.get(case, 2)
        args = (a, b, a)[:nargs]
        net = M.net(case, None, args, (dest,))
        return NS(args=[net], op=case, a=a, b=b, dest=dest, va=W.den_of(a), vb=W.den_of(b), w=W.bw_of(a))

    def raises(self, ns):
        return [('PyrtlError', ns.op not in self.KEEP + self.REWRITE)]

    def post(self, ns):
        import z3
        from contracts import wiremodel as W
        blk_nets = W.block_of_nets(ns)
        if ns.op in self.KEEP:
            return [('kept nets return a truthy value', z3.BoolVal(ns.result is True)),
                    ('nothing is built for a kept net', z3.BoolVal(ns.dest.fields.get('_den') is None))]
        want = _netsem2(ns.op, ns.va, ns.vb, ns.w)
        if ns.dest.fields.get('_den') is None:
            return [('the destination is driven by the new logic', z3.BoolVal(False))]
        return [('returns a falsy value so the original net is removed', z3.BoolVal(not ns.result)),
                ('new logic computes the documented value of the net', W.den_of(ns.dest) == want)]


@register
class NandSynth(_SynthRule):
    qualname, props = 'nand_synth', ('C09',)
    KEEP, REWRITE = '~nrwcsm@', '&|^'

    def post(self, ns):
        out = _SynthRule.post(self, ns)
        return out + self._only_ops(ns, 'n~w')

    def _only_ops(self, ns, allowed):
        import z3
        from contracts import wiremodel as W
        ops = [n.fields['op'] for n in W.block_of(ns._I).fields['_nets']] if getattr(ns, '_I', None) else []
        return [('only %s nets are created' % allowed, z3.BoolVal(all(o in allowed for o in ops)))]

    def setup(self, I, case):
        ns = _SynthRule.setup(self, I, case)
        ns._I = I
        return ns


@register
class AndInverterSynth(NandSynth):
    qualname, props = 'and_inverter_synth', ('C09',)
    KEEP, REWRITE = '~&rwcsm@', '|^n'

    def post(self, ns):
        out = _SynthRule.post(self, ns)
        return out + self._only_ops(ns, '&~w')
