"""Abstract model of WireVector / LogicNet / Block for verifying the netlist *builders* with pyvc
(DESIGN A.5).  A wire is a record (bitwidth, den): `den` is the integer the wire carries as a term
over the symbolic input values, 0 <= den < 2**bitwidth.  The only modelled effect of building is
`working_block().add_net(net)`:

  * proof obligation (kind callpre): the net is well formed (WF_net of DESIGN A.2 - the same
    predicate `Block.sanity_check_net` is proved to decide, contracts/core.py);
  * effect: the destination's den becomes the documented value of the primitive (LogicNet
    docstring) of the argument dens, truncated to the destination width.

Everything else (operators, slicing, concat, extension, as_wires, ...) is the REAL code of
pyrtl/wire.py and pyrtl/corecircuits.py executed symbolically or summarised by its own contract.
"""


def _z3():
    import z3
    return z3


KIND = {'WireVector': 0, 'Input': 1, 'Output': 2, 'Const': 3, 'Register': 4}


def block_of(I):
    from pyvc.engine import SObj, Builtin
    b = getattr(I, '_wm_block', None)
    if b is None:
        b = SObj('Block', {})
        b.fields['add_net'] = Builtin('Block.add_net(model)', lambda I_, a, k: add_net(I_, a[0]))
        b.fields['_nets'] = []
        I._wm_block = b
    return b


def block_of_nets(ns):
    return None


def new_wire(I, bw, den=None, cls='WireVector', hint='w'):
    """bw: z3 Int / int / None; den: z3 Int / int / None"""
    z3 = _z3()
    from pyvc.engine import SObj, Sym, term
    o = SObj(cls, dict(bitwidth=None if bw is None else Sym(term(bw)),
                       _den=None if den is None else Sym(term(den)),
                       _block=block_of(I), name='%s%d' % (hint, next(I.st.n))),
             oid=z3.IntVal(100000 + next(I.st.n)))          # distinct objects have distinct identities
    if cls == 'Const' and den is not None:
        o.fields['val'] = Sym(term(den))
    return o


def input_wire(I, hint='a', cls='WireVector'):
    """a wire with symbolic width >= 1 carrying an arbitrary value of that width"""
    z3 = _z3()
    from pyvc import theory as T
    n = next(I.st.n)
    bw = z3.Int('%s_bw!%d' % (hint, n))
    v = z3.Int('%s_val!%d' % (hint, n))
    I.st.assume(bw >= 1)
    I.st.assume(z3.And(v >= 0, v < T.pow2(bw)))
    return new_wire(I, bw, v, cls=cls, hint=hint)


def bw_of(w):
    from pyvc.engine import term
    return term(w.fields['bitwidth'])


def den_of(w):
    from pyvc.engine import term, Unsupported
    d = w.fields.get('_den')
    if d is None:
        raise Unsupported('wire %s is read before it is driven (model)' % w.fields.get('name'))
    return term(d)


def _pow2(k):
    from pyvc import theory as T
    return T.pow2(k)


def trunc(I, x, w):
    """x mod 2**w, left as x when 0 <= x < 2**w is entailed by the path"""
    z3 = _z3()
    from pyvc import theory as T
    if I.st.prove_now(z3.And(x >= 0, x < T.pow2(w))):
        return x
    return x % T.pow2(w)


def bit(x, p):
    """bit p of x >= 0"""
    z3 = _z3()
    from pyvc import theory as T
    if isinstance(p, int):
        return (x / z3.IntVal(1 << p)) % 2 if p else x % 2
    return (x / T.pow2(p)) % 2


def netsem(I, op, param, args, dw):
    """documented value of the primitive (before truncation to the destination width dw).
    args: list of (den, bw)."""
    z3 = _z3()
    from pyvc import theory as T
    from pyvc.engine import SSeq, term, Unsupported
    P = T.pow2
    if op == 'w':
        return args[0][0]
    if op == '~':
        return P(args[0][1]) - 1 - args[0][0]
    if op == '&':
        return T.band(args[0][0], args[1][0])
    if op == '|':
        return T.bor(args[0][0], args[1][0])
    if op == '^':
        return T.bxor(args[0][0], args[1][0])
    if op == 'n':
        return P(args[0][1]) - 1 - T.band(args[0][0], args[1][0])
    if op == '+':
        return args[0][0] + args[1][0]
    if op == '-':
        return args[0][0] - args[1][0]           # truncation makes it two's complement
    if op == '*':
        return args[0][0] * args[1][0]
    if op == '<':
        return z3.If(args[0][0] < args[1][0], z3.IntVal(1), z3.IntVal(0))
    if op == '>':
        return z3.If(args[0][0] > args[1][0], z3.IntVal(1), z3.IntVal(0))
    if op == '=':
        return z3.If(args[0][0] == args[1][0], z3.IntVal(1), z3.IntVal(0))
    if op == 'x':
        return z3.If(args[0][0] == 0, args[1][0], args[2][0])
    if op == 'c':
        # args[0] is the most significant piece
        r, sh = None, None
        for den, bw in reversed(args):
            r = den if r is None else r + den * P(sh)
            sh = bw if sh is None else z3.simplify(sh + bw)
        return r
    if op == 's':
        a = args[0][0]
        if isinstance(param, SSeq):
            if param.const is not None:
                return bit(a, param.const if isinstance(param.const, int) else term(param.const)) * \
                    (P(param.length) - 1)
            if param.affine is not None:
                return (a / P(param.affine)) % P(param.length)
            raise Unsupported("'s' net with an unstructured symbolic index tuple")
        r = z3.IntVal(0)
        for i, p in enumerate(param):
            r = r + bit(a, p if isinstance(p, int) else term(p)) * z3.IntVal(1 << i)
        return r
    raise Unsupported('netsem of %r in the builder model' % op)


def add_net(I, net):
    """WF obligations + effect on the destination."""
    z3 = _z3()
    from pyvc.engine import SSeq, SObj, term, Unsupported, Sym
    from contracts.core import wf_net
    f = net.fields
    op, param, args, dests = f['op'], f['op_param'], f['args'], f['dests']
    if isinstance(args, SSeq) or isinstance(dests, SSeq):
        raise Unsupported('net with a symbolic number of arguments')
    if not isinstance(op, str):
        raise Unsupported('net with a symbolic op')
    for w in tuple(args) + tuple(dests):
        if not isinstance(w, SObj):
            I.st.vc('call:add_net.arguments and destinations are wires', z3.BoolVal(False), kind='callpre')
            raise Unsupported('net over a non-wire operand %r' % (w,))
        if w.fields.get('bitwidth') is None:
            I.st.vc('call:add_net.every wire of the net has a bitwidth', z3.BoolVal(False), kind='callpre')
            raise Unsupported('net over a wire without bitwidth')
    aviews = [dict(bw=bw_of(w), kind=KIND.get(w.cls, 0), same_block=True) for w in args]
    dviews = [dict(bw=bw_of(w), kind=KIND.get(w.cls, 0), same_block=True) for w in dests]
    if param is None:
        pdesc = dict(kind='none')
    elif isinstance(param, SSeq):
        if param.const is not None:
            c = param.const if isinstance(param.const, int) else term(param.const)
            inb = z3.And(c >= 0, c < bw_of(args[0])) if args else z3.BoolVal(False)
        elif param.affine is not None:
            inb = z3.And(param.affine >= 0, param.affine + param.length <= bw_of(args[0]))
        else:
            raise Unsupported('unstructured symbolic select tuple')
        pdesc = dict(kind='ints', vals=[], _len=param.length, _inb=inb)
    elif op in 'm@' and isinstance(param, tuple) and len(param) == 2 and isinstance(param[1], SObj) and \
            param[1].cls in ('MemBlock', 'RomBlock') and isinstance(param[0], (int, Sym)):
        mf = param[1].fields
        pdesc = dict(kind='mem', memid=term(param[0]), mem_id=term(mf['id']), addrwidth=term(mf['addrwidth']),
                     bitwidth=term(mf['bitwidth']))
    elif isinstance(param, tuple) and all(isinstance(p, (int, Sym)) and not isinstance(p, bool) for p in param):
        pdesc = dict(kind='ints', vals=[p if isinstance(p, int) else term(p) for p in param])
    else:
        pdesc = dict(kind='bad')
    if pdesc.get('_len') is not None and op == 's' and len(args) == 1 and len(dests) == 1:
        # symbolic-length select tuple: WF stated directly (indices in range, dest not wider)
        wf = z3.And(pdesc['_inb'], bw_of(dests[0]) <= pdesc['_len'],
                    z3.BoolVal(dviews[0]['kind'] not in (1, 3)), z3.BoolVal(aviews[0]['kind'] != 2))
    else:
        wf = wf_net(op, pdesc, aviews, dviews)
    I.st.vc('call:add_net.net is well formed (WF_net)', wf if not isinstance(wf, bool) else z3.BoolVal(wf),
            kind='callpre')
    I.st.assume(wf if not isinstance(wf, bool) else z3.BoolVal(wf))
    if isinstance(wf, bool) and not wf:
        raise Unsupported('ill-formed net added')
    block_of(I).fields['_nets'].append(net)
    if not dests:
        return None
    d = dests[0]
    if op == 'r':
        # a register keeps showing its stored value (den); the net defines its NEXT value
        if d.fields.get('_next') is not None:
            I.st.vc('call:add_net.destination has no other driver', z3.BoolVal(False), kind='callpre')
        d.fields['_next'] = Sym(trunc(I, den_of(args[0]), bw_of(d)))
        return None
    if d.fields.get('_den') is not None:
        I.st.vc('call:add_net.destination has no other driver', z3.BoolVal(False), kind='callpre')
    if op == 'm':
        # a read port: the word stored at the address (an uninterpreted function of memory and address)
        MEM = z3.Function('MEMWORD', z3.IntSort(), z3.IntSort(), z3.IntSort())
        word = MEM(term(param[0]), den_of(args[0]))
        I.st.assume(z3.And(word >= 0, word < _pow2(bw_of(d))))
        d.fields['_den'] = Sym(word)
        return None
    full = netsem(I, op, param, [(den_of(w), bw_of(w)) for w in args], bw_of(d))
    d.fields['_den'] = Sym(trunc(I, full, bw_of(d)))
    return None


def hooks(extra=None):
    """engine hooks installing the model"""
    from pyvc.engine import Builtin, Sym, SObj, RaiseSig, Unsupported, term
    z3 = _z3()

    def mk_wire(I_, a, k):
        names = ['bitwidth', 'name', 'block']
        kw = dict(zip(names, a))
        kw.update(k)
        bw = kw.get('bitwidth')
        if bw is not None:
            if isinstance(bw, bool) or not isinstance(bw, (int, Sym)):
                raise RaiseSig('PyrtlError')
            if not I_.truth(Sym(term(bw) >= 1)):
                raise RaiseSig('PyrtlError')          # _validate_bitwidth
        return new_wire(I_, bw, None)

    def mk_const(I_, a, k):
        names = ['val', 'bitwidth', 'name', 'signed', 'block']
        kw = dict(zip(names, a))
        kw.update(k)
        val, bw, signed = kw.get('val'), kw.get('bitwidth'), kw.get('signed', False)
        if isinstance(val, str) or isinstance(val, SObj):
            raise Unsupported('Const from %r in the builder model' % (val,))
        if bw is not None and not isinstance(bw, bool):
            if not I_.truth(Sym(term(bw) >= 1)):
                raise RaiseSig('PyrtlError')
        from pyvc.contract import REGISTRY
        import contracts.helperfuncs   # noqa: F401  (callee contracts)
        if isinstance(val, bool):
            num, b = REGISTRY[('pyrtl.helperfuncs', '_convert_bool')].apply(I_, None, [val, bw, signed], {})
        else:
            num, b = REGISTRY[('pyrtl.helperfuncs', '_convert_int')].apply(I_, None, [val, bw, signed], {})
        return new_wire(I_, term(b), term(num), cls='Const', hint='const')

    def mk_net(I_, a, k):
        names = ['op', 'op_param', 'args', 'dests']
        f = dict(zip(names, a))
        f.update(k)
        return SObj('LogicNet', f)

    def working_block(I_, a, k):
        return block_of(I_)
    h = {'construct:WireVector': mk_wire, 'construct:Const': mk_const, 'construct:LogicNet': mk_net,
         'global:working_block': Builtin('working_block(model)', working_block)}
    h.update(extra or {})
    return h
