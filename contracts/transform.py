"""Attribute-preservation contracts for the copying primitives (C11): clone_wire and
MemBlock._make_copy / RomBlock._make_copy construct an object of the same class carrying every
behaviour-relevant attribute of the original (bitwidth, name, Const value, Register reset value;
memory geometry, ports, asynchronous flag, ROM data and pad_with_zeros)."""
from pyvc.contract import Contract, register
from pyvc.hl import NS

WIRE_PARAMS = {'WireVector': ['bitwidth', 'name', 'block'], 'Input': ['bitwidth', 'name', 'block'],
               'Output': ['bitwidth', 'name', 'block'],
               'Register': ['bitwidth', 'name', 'reset_value', 'block'],
               'Const': ['val', 'bitwidth', 'name', 'signed', 'block']}
MEM_PARAMS = {'MemBlock': ['bitwidth', 'addrwidth', 'name', 'max_read_ports', 'max_write_ports',
                           'asynchronous', 'block'],
              'RomBlock': ['bitwidth', 'addrwidth', 'romdata', 'name', 'max_read_ports', 'build_new_roms',
                           'asynchronous', 'pad_with_zeros', 'block']}
DEFAULTS = dict(name='', block=None, reset_value=None, signed=False, max_read_ports=2, max_write_ports=1,
                asynchronous=False, build_new_roms=False, pad_with_zeros=False, bitwidth=None)


def _recorder(cls, params):
    def construct(I_, a, k):
        from pyvc.engine import SObj
        f = dict(zip(params, a))
        f.update(k)
        for p in params:
            f.setdefault(p, DEFAULTS.get(p))
        return SObj(cls, dict(_ctor=f, _new=True))
    return construct


def _hooks(extra=None):
    h = {}
    for cls, ps in list(WIRE_PARAMS.items()) + list(MEM_PARAMS.items()):
        h['construct:' + cls] = _recorder(cls, ps)
    h.update(extra or {})
    return h


def _same(I, a, b):
    """identity / equality of two engine values as a z3 Bool or Python bool"""
    import z3
    from pyvc.engine import Sym, term
    if isinstance(a, Sym) or isinstance(b, Sym):
        if a is None or b is None:
            return False
        return term(a) == term(b)
    return a is b or (isinstance(a, (int, str, bool)) and type(a) is type(b) and a == b)


@register
class CloneWire(Contract):
    module, qualname, props = 'pyrtl.transform', 'clone_wire', ('C11',)

    def cases(self):
        return ['%s:%s' % (c, r) for c in ('WireVector', 'Input', 'Output', 'Const')
                for r in ('-',)] + ['Register:none', 'Register:int']

    @property
    def hooks(self):
        from pyvc.engine import Builtin, SObj
        h = _hooks()
        return h

    def setup(self, I, case):
        from pyvc.engine import SObj, Builtin
        cls, rv = case.split(':')
        other_block = SObj('Block', dict(wirevector_by_name={}))
        here = SObj('Block', dict(wirevector_by_name={}))
        bw = I.st.fresh_int('bitwidth')
        w = SObj(cls, dict(bitwidth=bw, name='orig_name', _block=other_block))
        if cls == 'Const':
            w.fields['val'] = I.st.fresh_int('val')
        if cls == 'Register':
            w.fields['reset_value'] = None if rv == 'none' else I.st.fresh_int('reset_value')
        self._here = here
        ns = NS(args=[w], w=w, cls=cls, I=I)
        ns.hook_wb = Builtin('working_block(model)', lambda I_, a, k: here)
        I.hooks['global:working_block'] = ns.hook_wb
        return ns

    def post(self, ns):
        import z3
        from pyvc.engine import SObj
        r = ns.result
        if not isinstance(r, SObj) or not r.fields.get('_new'):
            return [('returns a newly constructed wire', z3.BoolVal(False))]
        f = r.fields['_ctor']
        w = ns.w.fields

        def B(x):
            return z3.BoolVal(x) if isinstance(x, bool) else x
        out = [('same class', z3.BoolVal(r.cls == ns.cls)),
               ('same bitwidth', B(_same(ns.I, f.get('bitwidth'), w['bitwidth']))),
               ('same name (none given)', z3.BoolVal(f.get('name') == 'orig_name'))]
        if ns.cls == 'Const':
            out.append(('same value', B(_same(ns.I, f.get('val'), w['val']))))
        if ns.cls == 'Register':
            rv0, rv1 = w['reset_value'], f.get('reset_value')
            out.append(('same reset_value (None stays None, 0 stays 0)',
                        z3.BoolVal(rv1 is None) if rv0 is None else B(_same(ns.I, rv1, rv0))))
        return out

    def concrete(self, tier='quick'):
        def mk(cls, kw):
            def thunk():
                import pyrtl
                pyrtl.reset_working_block()
                src = pyrtl.Block()
                with pyrtl.set_working_block(src, no_sanity_check=True):
                    w = getattr(pyrtl, cls)(**kw)
                c = pyrtl.transform.clone_wire(w)
                obs = (type(c).__name__, c.bitwidth, c.name, getattr(c, 'val', None), getattr(c, 'reset_value', None))
                exp = (cls, w.bitwidth, w.name, getattr(w, 'val', None), getattr(w, 'reset_value', None))
                return obs == exp, obs, exp
            return thunk
        yield ('WireVector', mk('WireVector', dict(bitwidth=3, name='w')))
        yield ('Input', mk('Input', dict(bitwidth=2, name='i')))
        yield ('Output', mk('Output', dict(bitwidth=2, name='o')))
        yield ('Const', mk('Const', dict(val=5, bitwidth=4, name='c')))
        for rv in (None, 0, 3):
            yield ('Register reset=%r' % rv, mk('Register', dict(bitwidth=2, name='r', reset_value=rv)))


class _MakeCopy(Contract):
    module = 'pyrtl.memory'
    CLS = 'MemBlock'
    ATTRS = ()

    @property
    def hooks(self):
        return _hooks()

    def setup(self, I, case):
        from pyvc.engine import SObj, Builtin
        here = SObj('Block', {})
        f = {}
        for a in self.ATTRS:
            f[a] = I.st.fresh_bool(a) if a in ('asynchronous', 'pad_with_zeros') else \
                ('mem_name' if a == 'name' else (SObj('romdata', {}) if a == 'data' else I.st.fresh_int(a)))
        m = SObj(self.CLS, f)
        I.hooks['global:working_block'] = Builtin('working_block(model)', lambda I_, a, k: here if not a or a[0] is None else a[0])
        return NS(self=m, args=[], m=m, I=I, here=here)

    def post(self, ns):
        import z3
        from pyvc.engine import SObj
        r = ns.result
        if not isinstance(r, SObj) or not r.fields.get('_new'):
            return [('returns a newly constructed memory', z3.BoolVal(False))]
        f = r.fields['_ctor']

        def B(x):
            return z3.BoolVal(x) if isinstance(x, bool) else x
        out = [('same class', z3.BoolVal(r.cls == self.CLS)),
               ('built in the working block', z3.BoolVal(f.get('block') is ns.here))]
        for a in self.ATTRS:
            ctor = 'romdata' if a == 'data' else a
            out.append(('same %s' % a, B(_same(ns.I, f.get(ctor), ns.m.fields[a]))))
        return out


def _sym_eq(a, b):
    return a is b


@register
class MemMakeCopy(_MakeCopy):
    qualname, props = 'MemBlock._make_copy', ('C11', 'C08')
    CLS = 'MemBlock'
    ATTRS = ('bitwidth', 'addrwidth', 'name', 'max_read_ports', 'max_write_ports', 'asynchronous')


@register
class RomMakeCopy(_MakeCopy):
    qualname, props = 'RomBlock._make_copy', ('C11', 'C08')
    CLS = 'RomBlock'
    ATTRS = ('bitwidth', 'addrwidth', 'data', 'name', 'max_read_ports', 'asynchronous', 'pad_with_zeros')
