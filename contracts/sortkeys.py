"""Contracts for the ordering helpers every exporter emits its lists with (C20: emitted text never depends on
the iteration order of a set): importexport._natural_sort_key, _name_sorted, _net_sorted.

    _natural_sort_key(key)            the result determines `key`: it is the string or a tuple / list holding it as
                                      a component (today: (chunks, key)), so equal keys imply equal strings
    _name_sorted(wires, name_mapper)  == sorted(wires, key=K)  with K(w) determining name_mapper(w)
    _net_sorted(logic, name_mapper)   == sorted(logic, key=K)  with K(n) determining name_mapper(n.dests[0]) for
                                         every net that is not a memory write
(Which order the key induces -- natural, plain, reversed -- is not part of C20 and not constrained.)

Lemma (order_is_schedule_independent, over these contracts): for items whose mapped names are pairwise
different, K is injective, so `sorted` -- which returns the one arrangement of its argument that is ascending in
K when the K values are pairwise different and totally ordered -- returns the same list for every iteration
order of the set it is given.

Model: strings are abstract objects (identity = string equality for the names handed in); `re.split` is an
external function returning a list of 1, 3 or 5 pieces (odd: one capture group), each with an arbitrary
`isdigit()`; `int(piece)` is an arbitrary integer; `sorted` is the builtin, recorded with its arguments."""
from pyvc.contract import Contract, register
from pyvc.hl import NS


def _determines(kv, nm):
    """equality of two such keys implies equality of the names: the key is the name or a tuple / list with a
    component that determines it"""
    if kv is nm:
        return True
    return isinstance(kv, (tuple, list)) and any(_determines(c, nm) for c in kv)


def _re_module(g):
    import z3
    from pyvc.engine import SObj, Builtin, Sym

    def split(I_, a, k):
        g['split_arg'] = a[1]
        out = []
        for i in range(g['npieces']):
            d = z3.Bool('isdigit!%d!%d' % (i, next(I_.st.n)))
            p = SObj('str', {}, oid=z3.Int('piece!%d!%d' % (i, next(I_.st.n))))
            p.fields['isdigit'] = Builtin('str.isdigit', lambda I2, a2, k2, d=d: Sym(d))
            p.fields['_isdigit'] = d
            out.append(p)
        g['pieces'] = out
        return out
    return SObj('module re', {'split': Builtin('re.split(external)', split)})


def _int_of(g):
    from pyvc.engine import Builtin, SObj

    def to_int(I_, a, k):
        v = I_.st.fresh_int('intof')
        g.setdefault('ints', {})[id(a[0])] = v
        return v
    return Builtin('int(str) (external: some integer)', to_int)


@register
class NaturalSortKey(Contract):
    module, qualname, props = 'pyrtl.importexport', '_natural_sort_key', ('C20',)

    def cases(self):
        return ['pieces:1', 'pieces:3', 'pieces:5']

    @property
    def hooks(self):
        return {'global:re': _re_module(self._g), 'global:int': _int_of(self._g)}

    def setup(self, I, case):
        import z3
        from pyvc.engine import SObj
        self._g.clear()
        self._g['npieces'] = int(case.split(':')[1])
        key = SObj('str', {}, oid=z3.Int('key!%d' % next(I.st.n)))
        return NS(args=[key], key=key, g=self._g)

    _g = {}

    # at a call site: the result is a pair whose last component is the argument (the chunks stay opaque)
    def bind(self, I, selfobj, args, kwargs):
        return NS(args=list(args), key=args[0], g={'applied': True})

    def result(self, I, ns):
        import z3
        from pyvc.engine import SObj
        return (SObj('list', {}, oid=z3.Int('chunks!%d' % next(I.st.n))), ns.key)

    def post(self, ns):
        import z3
        from pyvc.engine import SObj, Sym, term
        r = ns.result
        g = ns.g
        if g.get('applied'):
            return []
        return [('the sort key determines the string: it is, or contains as a component, the string itself (so '
                 'different names never tie)', z3.BoolVal(_determines(r, ns.key)))]

    def concrete(self, tier='quick'):
        names = ['a', 'a1', 'a01', 'a001', 'tmp4', 'tmp18', 'x1y2', 'x01y2', 'x1y02', '7', '07', '', 'a_b', 'A',
                 'a10b', 'a9b', 'mem[3]', 'mem[03]']

        def mk(a, b):
            def thunk():
                from pyrtl.importexport import _natural_sort_key as K
                ka, kb = K(a), K(b)
                if (ka == kb) != (a == b):
                    return False, (ka, kb), 'different names, different keys'
                lt, gt = ka < kb, kb < ka          # must not raise; exactly one unless equal
                return (lt != gt) or a == b, (lt, gt), 'total'
            return thunk
        for i, a in enumerate(names):
            for b in names[i:]:
                yield ('%r vs %r' % (a, b), mk(a, b))


def _int_may_fail(g):
    """int(str): an arbitrary integer, or ValueError (the callee decides which pieces are numerals)"""
    import z3
    from pyvc.engine import Builtin, RaiseSig

    def to_int(I_, a, k):
        ok = z3.Bool('int_ok!%d' % next(I_.st.n))
        if not I_.st.branch(ok):
            raise RaiseSig('ValueError')
        v = I_.st.fresh_int('intof')
        g.setdefault('ints', {})[id(a[0])] = v
        return v
    return Builtin('int(str) (external: some integer, or ValueError)', to_int)


@register
class TraceSortKey(NaturalSortKey):
    """simulation._trace_sort_key, the ordering of print_trace / print_vcd / the step_multiple report: same contract"""
    module, qualname, props = 'pyrtl.simulation', '_trace_sort_key', ('C20',)

    @property
    def hooks(self):
        return {'global:re': _re_module(self._g), 'global:int': _int_may_fail(self._g)}

    def cases(self):
        return ['pieces:1', 'pieces:3']

    def concrete(self, tier='quick'):
        names = ['a', 'a1', 'a01', 'a001', 'tmp4', 'tmp18', 'x1y2', 'x01y2', '7', '07', 'a_b', 'A', 'mem[3]', 'mem[03]']

        def mk(a, b):
            def thunk():
                from pyrtl.simulation import _trace_sort_key as K
                ka, kb = K(a), K(b)
                if (ka == kb) != (a == b):
                    return False, (ka, kb), 'different names, different keys'
                lt, gt = ka < kb, kb < ka
                return (lt != gt) or a == b, (lt, gt), 'total'
            return thunk
        for i, a in enumerate(names):
            for b in names[i:]:
                yield ('%r vs %r' % (a, b), mk(a, b))


class _Sorted(Contract):
    """shared: `sorted` is recorded; the key function handed to it is run on a fresh item"""
    module, props = 'pyrtl.importexport', ('C20',)
    _g = {}

    @property
    def hooks(self):
        from pyvc.engine import Builtin
        g = self._g

        def do_sorted(I_, a, k):
            g['sorted_args'] = (a, dict(k))
            return g['sorted_result']
        return {'global:sorted': Builtin('sorted(builtin, recorded)', do_sorted),
                'global:re': _re_module(g), 'global:int': _int_of(g)}

    def _begin(self, I):
        from pyvc.engine import SObj
        import z3
        g = self._g
        g.clear()
        g['npieces'] = 3
        g['sorted_result'] = SObj('list', {}, oid=z3.Int('sorted!%d' % next(I.st.n)))
        return g

    def _mapper(self, I, g):
        import z3
        from pyvc.engine import Builtin, SObj

        def mapper(I_, a, k):
            nm = SObj('str', {}, oid=z3.Int('mapped!%d' % next(I_.st.n)))
            g.setdefault('mapped', []).append((a[0], nm))
            return nm
        return Builtin('name_mapper(caller supplied)', mapper)

    def _key_clauses(self, I, ns, item, expect_of):
        """run the recorded key function on `item`; its last component must be the mapped name of expect_of"""
        import z3
        g = ns.g
        rec = g.get('sorted_args')
        F = z3.BoolVal(False)
        if rec is None:
            return [('the result is sorted(...)', F)]
        a, k = rec
        cl = [('the result is what sorted returns', z3.BoolVal(ns.result is g['sorted_result'])),
              ('the collection handed to sorted is the argument, unchanged', z3.BoolVal(len(a) == 1 and a[0] is ns.coll)),
              ('sorted is called with a key function', z3.BoolVal('key' in k and set(k) <= {'key', 'reverse'}))]
        if 'key' not in k:
            return cl
        g['mapped'] = []
        kv = I.call(k['key'], [item], {})
        ok = any(m[0] is expect_of and _determines(kv, m[1]) for m in g['mapped'])
        cl.append(('the key of an item determines its mapped name (different names, different keys)', z3.BoolVal(ok)))
        return cl


@register
class NameSorted(_Sorted):
    qualname = '_name_sorted'

    def setup(self, I, case):
        import z3
        from pyvc.engine import SObj
        g = self._begin(I)
        coll = SObj('set', {}, oid=z3.Int('wires!%d' % next(I.st.n)))
        self._I = I
        return NS(args=[coll, self._mapper(I, g)], coll=coll, g=g)

    def post(self, ns):
        import z3
        from pyvc.engine import SObj
        w = SObj('WireVector', {}, oid=z3.Int('w!%d' % next(self._I.st.n)))
        return self._key_clauses(self._I, ns, w, w)

    def concrete(self, tier='quick'):
        def thunk():
            import itertools
            import pyrtl
            from pyrtl.importexport import _name_sorted
            pyrtl.reset_working_block()
            ws = [pyrtl.WireVector(1, n) for n in ('a1', 'a01', 'a001', 'b', 'a10', 'a9')]
            first = None
            for perm in itertools.permutations(ws):
                got = [w.name for w in _name_sorted(list(perm))]
                if first is None:
                    first = got
                if got != first:
                    return False, got, first
            return True, first, first
        yield ('every permutation of names tying on the natural key', thunk)


@register
class NetSorted(_Sorted):
    qualname = '_net_sorted'

    def cases(self):
        return ['op:w', 'op:&', 'op:m', 'op:r']

    def setup(self, I, case):
        import z3
        from pyvc.engine import SObj
        g = self._begin(I)
        coll = SObj('set', {}, oid=z3.Int('logic!%d' % next(I.st.n)))
        self._I = I
        self._op = case.split(':')[1]
        return NS(args=[coll, self._mapper(I, g)], coll=coll, g=g)

    def post(self, ns):
        import z3
        from pyvc.engine import SObj
        I = self._I
        d = SObj('WireVector', {}, oid=z3.Int('d!%d' % next(I.st.n)))
        net = SObj('LogicNet', dict(op=self._op, op_param=None, args=(), dests=(d,)), oid=z3.Int('n!%d' % next(I.st.n)))
        return self._key_clauses(I, ns, net, d)

    def concrete(self, tier='quick'):
        def thunk():
            import itertools
            import pyrtl
            from pyrtl.importexport import _net_sorted
            pyrtl.reset_working_block()
            a = pyrtl.Input(1, 'a')
            outs = []
            for n in ('t1', 't01', 't001', 'u', 't10', 't9'):
                w = pyrtl.WireVector(1, n)
                w <<= a
                outs.append(w)
            nets = list(pyrtl.working_block().logic)
            first = None
            for perm in itertools.permutations(nets):
                got = [n.dests[0].name for n in _net_sorted(list(perm))]
                if first is None:
                    first = got
                if got != first:
                    return False, got, first
            return True, first, first
        yield ('every permutation of nets whose destinations tie on the natural key', thunk)


def order_is_schedule_independent():
    """Lemma over the contracts.  K(x) = (chunks(name(x)), name(x)) (post of _natural_sort_key / *_sorted).
    (1) name(x) != name(y) -> K(x) != K(y)                               [pair equality is componentwise]
    (2) two ascending arrangements of the same items under a strict total order on pairwise different keys
        agree at every position: stated for positions i of arrangements p, q (bijections onto the items):
        if both are strictly ascending and have the same image, the minimum is the same -- discharged here as
        the induction step `same remaining set -> same least element`, over an uninterpreted strict total order."""
    import z3
    from pyvc.engine import VC
    S = z3.DeclareSort('Str')
    C = z3.DeclareSort('Chunks')
    Pair = z3.Datatype('KeyPair')
    Pair.declare('mk', ('chunks', C), ('name', S))
    Pair = Pair.create()
    chunks = z3.Function('chunks_of', S, C)
    x, y = z3.Consts('x y', S)
    K = lambda s: Pair.mk(chunks(s), s)
    vcs = [VC('lemma:different names have different sort keys', [x != y], K(x) != K(y), 'post')]
    # least element of a set under a strict total order is unique
    It = z3.DeclareSort('Item')
    lt = z3.Function('key_lt', It, It, z3.BoolSort())
    mem = z3.Function('remaining', It, z3.BoolSort())
    a, b, c = z3.Consts('a b c', It)
    total = [z3.ForAll([a, b], z3.Implies(a != b, z3.Xor(lt(a, b), lt(b, a)))),
             z3.ForAll([a], z3.Not(lt(a, a))),
             z3.ForAll([a, b, c], z3.Implies(z3.And(lt(a, b), lt(b, c)), lt(a, c)))]
    m1, m2 = z3.Consts('m1 m2', It)
    least = lambda m: z3.And(mem(m), z3.ForAll([a], z3.Implies(z3.And(mem(a), a != m), lt(m, a))))
    vcs.append(VC('lemma:two ascending arrangements of one set start with the same item (induction step)',
                  total + [least(m1), least(m2)], m1 == m2, 'post'))
    return vcs
