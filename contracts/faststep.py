"""Contract for the input validation of FastSimulation.step (C15: an input value outside [0, 2**bitwidth) is
rejected with PyrtlError by every simulator rather than simulated): for provided inputs given by name or by
wire, PyrtlError is raised iff some value is negative or >= 2**bitwidth of its wire; otherwise the compiled
step function receives exactly the provided values under the wires' names (plus register / memory state),
and the trace receives the resulting context.

Model: `sim_func` (the exec-compiled step function) is a stub that records its argument; the block maps names
to wires of symbolic widths; no registers / memories in the model (their state is merged with dict.update)."""
from pyvc.contract import Contract, register
from pyvc import hl as H
from pyvc.hl import NS
from contracts import models as M


@register
class FastStepValidate(Contract):
    module, qualname, props = 'pyrtl.simulation', 'FastSimulation.step', ('C15',)

    def cases(self):
        return ['names:a', 'names:a,b', 'wire:a', 'wire:a,b', 'names:']

    @property
    def hooks(self):
        from pyvc.engine import Builtin
        return {'global:check_rtl_assertions': Builtin('check_rtl_assertions(stub: no assertions)',
                                                       lambda I_, a, k: None)}

    def setup(self, I, case):
        import z3
        from pyvc.engine import SObj, Builtin, RaiseSig
        st = I.st
        wires = {}
        for nm in ('a', 'b'):
            w = M.wire(I, nm, cls='Input')
            w.fields['name'] = nm
            wires[nm] = w
        st.assume(wires['a'].oid != wires['b'].oid)
        g = {}

        def by_name(I_, a, k):
            if a[0] not in wires:
                raise RaiseSig('PyrtlError')
            return wires[a[0]]
        blk = SObj('Block', dict(get_wirevector_by_name=Builtin('Block.get_wirevector_by_name', by_name)))

        def sim_func(I_, a, k):
            g['ins'] = dict(a[0])
            return ({}, {}, [])
        tracer = SObj('SimulationTrace', {})

        def add_fast_step(I_, a, k):
            g['traced_context'] = dict(a[0].fields['context'])
        tracer.fields['add_fast_step'] = Builtin('SimulationTrace.add_fast_step(ghost)', add_fast_step)
        sim = SObj('FastSimulation', dict(block=blk, regs={}, mems={}, outs={}, tracer=tracer,
                                          sim_func=Builtin('sim_func(stub: the exec-compiled step function)', sim_func)))
        kind, names = case.split(':')
        keys = [n for n in names.split(',') if n]
        prov, vals = {}, {}
        for n in keys:
            v = st.fresh_int('v_' + n)
            vals[n] = v.t
            prov[wires[n] if kind == 'wire' else n] = v
        return NS(self=sim, args=[prov], wires=wires, vals=vals, keys=keys, g=g)

    def raises(self, ns):
        import z3
        bad = []
        for n in ns.keys:
            bw = ns.wires[n].fields['bitwidth'].t
            bad.append(z3.Or(ns.vals[n] < 0, ns.vals[n] >= H.pow2(bw)))
        return [('PyrtlError', z3.Or(*bad) if bad else False)]

    def post(self, ns):
        import z3
        from pyvc.engine import term
        ins = ns.g.get('ins')
        if ins is None or sorted(ins) != sorted(ns.keys):
            return [('the step function is called with exactly the provided inputs, by name', z3.BoolVal(False))]
        ctx = ns.g.get('traced_context')
        cl = [('the step function receives the provided values', z3.And(*[term(ins[n]) == ns.vals[n] for n in ns.keys])
               if ns.keys else z3.BoolVal(True)),
              ('the trace receives a context holding the provided values',
               z3.BoolVal(ctx is not None and sorted(ctx) == sorted(ns.keys)) if True else None)]
        if ctx is not None and sorted(ctx) == sorted(ns.keys) and ns.keys:
            cl.append(('the traced context holds the provided values',
                       z3.And(*[term(ctx[n]) == ns.vals[n] for n in ns.keys])))
        return cl

    def concrete(self, tier='quick'):
        def mk(bw, v, by):
            def thunk():
                import pyrtl
                pyrtl.reset_working_block()
                a = pyrtl.Input(bw, 'a')
                o = pyrtl.Output(bw, 'o')
                o <<= a
                sim = pyrtl.FastSimulation()
                try:
                    sim.step({(a if by == 'wire' else 'a'): v})
                    got = sim.inspect('o')
                except pyrtl.PyrtlError:
                    got = None
                exp = v if 0 <= v < (1 << bw) else None
                return got == exp, got, exp
            return thunk
        for bw in (1, 2, 3, 8, 64, 65):
            for v in [-2, -1, 0, 1, (1 << bw) - 1, 1 << bw, (1 << bw) + 1, 1 << (bw + 3)]:
                for by in ('name', 'wire'):
                    yield ('bw=%d,v=%d,%s' % (bw, v, by), mk(bw, v, by))
