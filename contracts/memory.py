"""Contracts for pyrtl/memory.py (C01, C08)."""
from pyvc.contract import Contract, register
from pyvc import hl as H
from pyvc.hl import NS
from contracts import models as M


@register
class RomRead(Contract):
    """RomBlock._get_read_data(address): romdata[address] for list / dict / function data;
    PyrtlError for an address outside [0, 2**addrwidth), a failing lookup without
    pad_with_zeros, a failing data function, or a value outside [0, 2**bitwidth)."""
    module, qualname, props = 'pyrtl.memory', 'RomBlock._get_read_data', ('C01', 'C08')

    def cases(self):
        return ['func', 'list:pad', 'list:nopad', 'dict:pad', 'dict:nopad']

    def setup(self, I, case):
        import z3
        from pyvc.engine import SObj, Sym, SSeq, SMap, Builtin, RaiseSig
        st = I.st
        aw, bw = st.fresh_int('addrwidth'), st.fresh_int('bitwidth')
        st.assume(z3.And(aw.t >= 1, bw.t >= 1))
        addr = st.fresh_int('address')
        n = next(st.n)
        D = z3.Function('romdata!%d' % n, z3.IntSort(), z3.IntSort())
        pad = case.endswith(':pad')
        if case == 'func':
            F = z3.Function('fn_fails!%d' % n, z3.IntSort(), z3.BoolSort())

            def fn(I_, a, k):
                x = a[0]
                from pyvc.engine import term
                if I_.truth(Sym(F(term(x)))):
                    raise RaiseSig('Exception')
                return Sym(D(term(x)))
            data = Builtin('romdata_function', fn)
            missing = F(addr.t)
            value = D(addr.t)
        elif case.startswith('list'):
            L = z3.Int('romlen!%d' % n)
            st.assume(L >= 0)
            data = SSeq(L, lambda i: Sym(D(i)), 'list')
            missing = z3.And(addr.t >= L, not pad)
            value = z3.If(addr.t < L, D(addr.t), 0)
        else:
            dom = z3.Array('romdom!%d' % n, z3.IntSort(), z3.BoolSort())
            arr = z3.Array('romarr!%d' % n, z3.IntSort(), z3.IntSort())
            data = SMap(arr, dom)
            missing = z3.And(z3.Not(z3.Select(dom, addr.t)), not pad)
            value = z3.If(z3.Select(dom, addr.t), z3.Select(arr, addr.t), 0)
        rom = SObj('RomBlock', dict(addrwidth=aw, bitwidth=bw, data=data, pad_with_zeros=pad))
        return NS(self=rom, args=[addr], addr=addr.t, aw=aw.t, bw=bw.t, missing=missing,
                  value=value)

    def bind(self, I, selfobj, args, kwargs):
        from pyvc.engine import term
        f = selfobj.fields
        a = term(args[0])
        return NS(self=selfobj, args=list(args), addr=a, aw=term(f['addrwidth']),
                  bw=term(f['bitwidth']), missing=f['_rombad'](a), value=f['_romfn'](a),
                  abstract=True)

    def pre(self, ns):
        return [('widths>=1', H.And(ns.aw >= 1, ns.bw >= 1))]

    def raises(self, ns):
        oob = H.Or(ns.addr < 0, ns.addr >= H.pow2(ns.aw))
        if getattr(ns, 'abstract', False):
            return [('PyrtlError', H.Or(oob, ns.missing))]
        badval = H.Or(ns.value < 0, ns.value >= H.pow2(ns.bw))
        return [('PyrtlError', H.Or(oob, ns.missing, badval))]

    def post(self, ns):
        from pyvc.engine import term
        r = term(ns.result)
        return [('result == romdata[address]', r == ns.value),
                ('result in range', H.And(r >= 0, r < H.pow2(ns.bw)))]

    def concrete(self, tier='quick'):
        def mk(kind, pad, addr):
            def thunk():
                import pyrtl
                pyrtl.reset_working_block()
                table = {0: 3, 1: 0, 2: 9, 5: 2, 6: -1}
                if kind == 'list':
                    data = [3, 0, 9, 7, -1]
                    look = lambda a: data[a] if a < len(data) else None    # noqa: E731
                elif kind == 'dict':
                    data = dict(table)
                    look = lambda a: table.get(a)                            # noqa: E731
                else:
                    def data(a):
                        if a == 4:
                            raise ValueError('boom')
                        return table.get(a, 1)
                    look = lambda a: None if a == 4 else table.get(a, 1)     # noqa: E731
                rom = pyrtl.RomBlock(bitwidth=3, addrwidth=3, romdata=data, name='r',
                                     pad_with_zeros=pad)
                exp = None
                if 0 <= addr < 8:
                    v = look(addr)
                    if v is None and pad and kind != 'func':
                        v = 0
                    if v is not None and 0 <= v < 8:
                        exp = v
                try:
                    got = rom._get_read_data(addr)
                except pyrtl.PyrtlError:
                    got = None
                return got == exp, got, exp
            return thunk
        for kind in ('list', 'dict', 'func'):
            for pad in (True, False):
                for addr in range(-1, 10):
                    yield ('%s pad=%s addr=%d' % (kind, pad, addr), mk(kind, pad, addr))


# ------------------------------------------------------------------------------ port builders (C08)
def _mem_model(I, max_read=None, max_write=None):
    """a MemBlock record with symbolic geometry and port counters"""
    import z3
    from pyvc.engine import SObj
    st = I.st
    m = SObj('MemBlock', dict(id=st.fresh_int('memid'), bitwidth=st.fresh_int('membw'),
                              addrwidth=st.fresh_int('memaw'), name='m',
                              num_read_ports=st.fresh_int('nrp'), num_write_ports=st.fresh_int('nwp'),
                              max_read_ports=max_read, max_write_ports=max_write,
                              readport_nets=[], writeport_nets=[]))
    f = m.fields
    st.assume(z3.And(f['bitwidth'].t >= 1, f['addrwidth'].t >= 1, f['num_read_ports'].t >= 0,
                     f['num_write_ports'].t >= 0))
    return m


class _PortContract(Contract):
    module = 'pyrtl.memory'

    @property
    def hooks(self):
        from contracts import wiremodel as W
        from pyvc.engine import ClassVal
        return W.hooks({'classattr:MemBlock.EnabledWrite': ClassVal('EnabledWrite')})


@register
class BuildReadPort(_PortContract):
    """MemBlock._build_read_port(addr): adds exactly one well-formed 'm' net (memid = the memory's id,
    the memory itself, the given address wire) whose destination is a new wire of the memory's
    bitwidth, records it, counts the port; refuses when the port limit is exceeded."""
    qualname, props = 'MemBlock._build_read_port', ('C08',)

    def cases(self):
        return ['unlimited', 'limited']

    def setup(self, I, case):
        from contracts import wiremodel as W
        lim = None if case == 'unlimited' else I.st.fresh_int('max_read_ports')
        m = _mem_model(I, max_read=lim)
        a = W.input_wire(I, 'addr')
        I.st.assume(W.bw_of(a) == m.fields['addrwidth'].t)
        return NS(self=m, args=[a], m=m, a=a, lim=None if lim is None else lim.t,
                  n0=m.fields['num_read_ports'].t, I=I)

    def raises(self, ns):
        if ns.lim is None:
            return [('PyrtlError', False)]
        return [('PyrtlError', ns.n0 + 1 > ns.lim)]

    def post(self, ns):
        import z3
        from contracts import wiremodel as W
        from pyvc.engine import SObj, term
        r, m = ns.result, ns.m
        nets = W.block_of(ns.I).fields['_nets']
        out = [('exactly one net is added', z3.BoolVal(len(nets) == 1))]
        if len(nets) != 1 or not isinstance(r, SObj):
            return out
        f = nets[0].fields
        out += [('it is a read port of this memory', z3.BoolVal(f['op'] == 'm' and f['op_param'][1] is m and
                                                                 len(f['args']) == 1 and f['args'][0] is ns.a and
                                                                 len(f['dests']) == 1 and f['dests'][0] is r)),
                ('memid is the memory id', term(f['op_param'][0]) == m.fields['id'].t),
                ('data wire has the memory bitwidth', W.bw_of(r) == m.fields['bitwidth'].t),
                ('the port is recorded', z3.BoolVal(len(m.fields['readport_nets']) == 1 and
                                                    m.fields['readport_nets'][0] is nets[0]))]
        if ns.lim is not None:
            out.append(('the port is counted', term(m.fields['num_read_ports']) == ns.n0 + 1))
        return out


@register
class MemAssignment(_PortContract):
    """MemBlock._assignment(item, val, is_conditional=False): one well-formed '@' net
    (address, data, enable) for this memory; address / data zero-extended to the memory geometry;
    a plain value is written with enable 1; over-wide address / data and a multi-bit enable are
    refused, as is exceeding the write-port limit."""
    qualname, props = 'MemBlock._assignment', ('C08',)
    parallel = True

    def cases(self):
        return ['plain', 'enabled', 'enabled_limited']

    def setup(self, I, case):
        from contracts import wiremodel as W
        from pyvc.engine import SObj
        lim = I.st.fresh_int('max_write_ports') if case.endswith('limited') else None
        m = _mem_model(I, max_write=lim)
        a, d = W.input_wire(I, 'addr'), W.input_wire(I, 'data')
        if case == 'plain':
            val, en = d, None
        else:
            en = W.input_wire(I, 'enable')
            val = SObj('EnabledWrite', dict(data=d, enable=en))
        return NS(self=m, args=[a, val, False], m=m, a=a, d=d, en=en, I=I,
                  lim=None if lim is None else lim.t, n0=m.fields['num_write_ports'].t)

    def raises(self, ns):
        from contracts import wiremodel as W
        f = ns.m.fields
        bad = H.Or(W.bw_of(ns.a) > f['addrwidth'].t, W.bw_of(ns.d) > f['bitwidth'].t)
        if ns.en is not None:
            bad = H.Or(bad, W.bw_of(ns.en) != 1)
        if ns.lim is not None:
            bad = H.Or(bad, ns.n0 + 1 > ns.lim)
        return [('PyrtlError', bad)]

    def post(self, ns):
        import z3
        from contracts import wiremodel as W
        from pyvc.engine import term
        m = ns.m
        nets = [n for n in W.block_of(ns.I).fields['_nets'] if n.fields['op'] == '@']
        out = [('exactly one write port is added', z3.BoolVal(len(nets) == 1))]
        if len(nets) != 1:
            return out
        f = nets[0].fields
        if len(f['args']) != 3 or f['dests'] != ():
            return out + [('shape (addr, data, enable) -> ()', z3.BoolVal(False))]
        a, d, e = f['args']
        out += [('it belongs to this memory', z3.BoolVal(f['op_param'][1] is m)),
                ('memid is the memory id', term(f['op_param'][0]) == m.fields['id'].t),
                ('address: memory addrwidth, same value', H.And(W.bw_of(a) == m.fields['addrwidth'].t,
                                                                 W.den_of(a) == W.den_of(ns.a))),
                ('data: memory bitwidth, same value', H.And(W.bw_of(d) == m.fields['bitwidth'].t,
                                                             W.den_of(d) == W.den_of(ns.d))),
                ('enable: one bit, the given enable or constant 1',
                 H.And(W.bw_of(e) == 1, W.den_of(e) == (W.den_of(ns.en) if ns.en is not None else 1))),
                ('the port is recorded', z3.BoolVal(len(m.fields['writeport_nets']) == 1))]
        return out
