"""Contracts for pyrtl/memory.py (C01, C08)."""
from pyvc.contract import Contract, register
from pyvc import hl as H
from pyvc.hl import NS
from contracts import models as M


@register
class RomRead(Contract):
    """RomBlock._get_read_data(address): romdata[address] for list / dict / function data;
    PyrtlError for an address outside [0, 2**addrwidth), a failing lookup without
    pad_with_zeros, a failing data function, or a value outside [0, 2**bitwidth)."""
    module, qualname, props = 'pyrtl.memory', 'RomBlock._get_read_data', ('C01', 'C08')

    def cases(self):
        return ['func', 'list:pad', 'list:nopad', 'dict:pad', 'dict:nopad']

    def setup(self, I, case):
        import z3
        from pyvc.engine import SObj, Sym, SSeq, SMap, Builtin, RaiseSig
        st = I.st
        aw, bw = st.fresh_int('addrwidth'), st.fresh_int('bitwidth')
        st.assume(z3.And(aw.t >= 1, bw.t >= 1))
        addr = st.fresh_int('address')
        n = next(st.n)
        D = z3.Function('romdata!%d' % n, z3.IntSort(), z3.IntSort())
        pad = case.endswith(':pad')
        if case == 'func':
            F = z3.Function('fn_fails!%d' % n, z3.IntSort(), z3.BoolSort())

            def fn(I_, a, k):
                x = a[0]
                from pyvc.engine import term
                if I_.truth(Sym(F(term(x)))):
                    raise RaiseSig('Exception')
                return Sym(D(term(x)))
            data = Builtin('romdata_function', fn)
            missing = F(addr.t)
            value = D(addr.t)
        elif case.startswith('list'):
            L = z3.Int('romlen!%d' % n)
            st.assume(L >= 0)
            data = SSeq(L, lambda i: Sym(D(i)), 'list')
            missing = z3.And(addr.t >= L, not pad)
            value = z3.If(addr.t < L, D(addr.t), 0)
        else:
            dom = z3.Array('romdom!%d' % n, z3.IntSort(), z3.BoolSort())
            arr = z3.Array('romarr!%d' % n, z3.IntSort(), z3.IntSort())
            data = SMap(arr, dom)
            missing = z3.And(z3.Not(z3.Select(dom, addr.t)), not pad)
            value = z3.If(z3.Select(dom, addr.t), z3.Select(arr, addr.t), 0)
        rom = SObj('RomBlock', dict(addrwidth=aw, bitwidth=bw, data=data, pad_with_zeros=pad))
        return NS(self=rom, args=[addr], addr=addr.t, aw=aw.t, bw=bw.t, missing=missing,
                  value=value)

    def bind(self, I, selfobj, args, kwargs):
        from pyvc.engine import term
        f = selfobj.fields
        a = term(args[0])
        return NS(self=selfobj, args=list(args), addr=a, aw=term(f['addrwidth']),
                  bw=term(f['bitwidth']), missing=f['_rombad'](a), value=f['_romfn'](a),
                  abstract=True)

    def pre(self, ns):
        return [('widths>=1', H.And(ns.aw >= 1, ns.bw >= 1))]

    def raises(self, ns):
        oob = H.Or(ns.addr < 0, ns.addr >= H.pow2(ns.aw))
        if getattr(ns, 'abstract', False):
            return [('PyrtlError', H.Or(oob, ns.missing))]
        badval = H.Or(ns.value < 0, ns.value >= H.pow2(ns.bw))
        return [('PyrtlError', H.Or(oob, ns.missing, badval))]

    def post(self, ns):
        from pyvc.engine import term
        r = term(ns.result)
        return [('result == romdata[address]', r == ns.value),
                ('result in range', H.And(r >= 0, r < H.pow2(ns.bw)))]

    def concrete(self, tier='quick'):
        def mk(kind, pad, addr):
            def thunk():
                import pyrtl
                pyrtl.reset_working_block()
                table = {0: 3, 1: 0, 2: 9, 5: 2, 6: -1}
                if kind == 'list':
                    data = [3, 0, 9, 7, -1]
                    look = lambda a: data[a] if a < len(data) else None    # noqa: E731
                elif kind == 'dict':
                    data = dict(table)
                    look = lambda a: table.get(a)                            # noqa: E731
                else:
                    def data(a):
                        if a == 4:
                            raise ValueError('boom')
                        return table.get(a, 1)
                    look = lambda a: None if a == 4 else table.get(a, 1)     # noqa: E731
                rom = pyrtl.RomBlock(bitwidth=3, addrwidth=3, romdata=data, name='r',
                                     pad_with_zeros=pad)
                exp = None
                if 0 <= addr < 8:
                    v = look(addr)
                    if v is None and pad and kind != 'func':
                        v = 0
                    if v is not None and 0 <= v < 8:
                        exp = v
                try:
                    got = rom._get_read_data(addr)
                except pyrtl.PyrtlError:
                    got = None
                return got == exp, got, exp
            return thunk
        for kind in ('list', 'dict', 'func'):
            for pad in (True, False):
                for addr in range(-1, 10):
                    yield ('%s pad=%s addr=%d' % (kind, pad, addr), mk(kind, pad, addr))
