"""Contracts for pyrtl/simulation.py (C01, C08, C15) - see DESIGN Appendix A.3."""
from pyvc.contract import Contract, register, ForInv
from pyvc import hl as H
from pyvc.hl import NS
from contracts import models as M
import contracts.memory  # noqa: F401  (RomBlock._get_read_data is a callee of _execute)


# --------------------------------------------------------------------------- WireVector.bitmask
@register
class Bitmask(Contract):
    module, qualname, props = 'pyrtl.wire', 'WireVector.bitmask', ('C01',)

    def cases(self):
        return ['uncached', 'cached']

    def setup(self, I, case):
        from pyvc.engine import Sym
        w = M.wire(I, 'self')
        if case == 'cached':
            # object invariant (assumption, listed in evidence): a cached mask equals 2**bw - 1
            w.fields['_bitmask'] = Sym(H.pow2(w.fields['bitwidth'].t) - 1)
        return NS(self=w, args=[], bw=w.fields['bitwidth'].t)

    def bind(self, I, selfobj, args, kwargs):
        from pyvc.engine import term
        return NS(self=selfobj, args=[], bw=term(selfobj.fields['bitwidth']))

    def pre(self, ns):
        return [('bitwidth>=1', ns.bw >= 1)]

    def result(self, I, ns):
        from pyvc.engine import Sym
        return Sym(H.pow2(ns.bw) - 1, mask_of=ns.bw)

    def post(self, ns):
        from pyvc.engine import term
        return [('result==2**bw-1', term(ns.result) == H.pow2(ns.bw) - 1)]

    def concrete(self, tier='quick'):
        def mk(bw):
            def thunk():
                import pyrtl
                pyrtl.reset_working_block()
                w = pyrtl.WireVector(bw)
                got = w.bitmask
                return got == (1 << bw) - 1 and w.bitmask == got, got, (1 << bw) - 1
            return thunk
        for bw in list(range(1, 9)) + [63, 64, 65, 130]:
            yield ('bw=%d' % bw, mk(bw))


# --------------------------------------------------------------------------- simple_func table
RAW = {  # documented un-truncated meaning (LogicNet docstring) of each simple op
    'w': lambda a: a[0],
    '~': lambda a: -a[0] - 1,
    '&': lambda a: H.band(a[0], a[1]),
    '|': lambda a: H.bor(a[0], a[1]),
    '^': lambda a: H.bxor(a[0], a[1]),
    'n': lambda a: -H.band(a[0], a[1]) - 1,
    '+': lambda a: a[0] + a[1],
    '-': lambda a: a[0] - a[1],
    '*': lambda a: a[0] * a[1],
    '<': lambda a: H.b2i(a[0] < a[1]),
    '>': lambda a: H.b2i(a[0] > a[1]),
    '=': lambda a: H.b2i(a[0] == a[1]),
    'x': lambda a: H.If(a[0] == 0, a[1], a[2]),
}
ARITY = {'w': 1, '~': 1, 'x': 3}


def _mk_simple(op):
    class SimpleFunc(Contract):
        module, props = 'pyrtl.simulation', ('C01',)
        qualname = "Simulation.simple_func[%r]" % op
        _op = op

        def setup(self, I, case):
            n = ARITY.get(op, 2)
            args = [I.st.fresh_int('a%d' % i) for i in range(n)]
            return NS(args=args, a=[x.t for x in args])

        def bind(self, I, selfobj, args, kwargs):
            from pyvc.engine import term
            return NS(args=list(args), a=[term(x) for x in args])

        def post(self, ns):
            from pyvc.engine import term
            return [('equals-documented-op', term(ns.result) == RAW[op](ns.a))]

        def concrete(self, tier='quick'):
            def mk(vals):
                def thunk():
                    import pyrtl
                    got = pyrtl.Simulation.simple_func[op](*vals)
                    exp = RAW[op](list(vals))
                    return (got == exp and isinstance(got, int)), got, exp
                return thunk
            import itertools
            n = ARITY.get(op, 2)
            rng = range(0, 6) if n < 3 else range(0, 4)
            for vals in itertools.product(rng, repeat=n):
                yield ('args=%r' % (vals,), mk(vals))
    SimpleFunc.__name__ = 'SimpleFunc_%s' % op
    return SimpleFunc


for _op in RAW:
    register(_mk_simple(_op))


# --------------------------------------------------------------------------- _sanitize
@register
class Sanitize(Contract):
    module, qualname, props = 'pyrtl.simulation', 'Simulation._sanitize', ('C01',)

    def setup(self, I, case):
        w = M.wire(I, 'wirevector')
        v = I.st.fresh_int('val')
        return NS(args=[v, w], val=v.t, bw=w.fields['bitwidth'].t)

    def bind(self, I, selfobj, args, kwargs):
        from pyvc.engine import term
        return NS(args=list(args), val=term(args[0]), bw=term(args[1].fields['bitwidth']))

    def pre(self, ns):
        return [('bitwidth>=1', ns.bw >= 1)]

    def post(self, ns):
        from pyvc.engine import term
        r = term(ns.result)
        return [('val mod 2**bw', r == H.mod(ns.val, H.pow2(ns.bw))),
                ('in range', H.And(r >= 0, r < H.pow2(ns.bw)))]

    def concrete(self, tier='quick'):
        def mk(v, bw):
            def thunk():
                import pyrtl
                pyrtl.reset_working_block()
                got = pyrtl.Simulation._sanitize(v, pyrtl.WireVector(bw))
                return got == v % (1 << bw), got, v % (1 << bw)
            return thunk
        for bw in (1, 2, 3, 5, 64, 65):
            for v in list(range(-9, 40)) + [2 ** 64 - 1, 2 ** 64, 2 ** 65 + 3, -2 ** 64]:
                yield ('val=%d,bw=%d' % (v, bw), mk(v, bw))


# --------------------------------------------------------------------------- _execute
SIMPLE_OPS = list(RAW)


def _wf_widths(op, ws, wd):
    """Well-formedness (spec A.2) of operand / destination widths for simple ops."""
    if op in 'w~':
        return [wd <= ws[0]]
    if op in '&|^n':
        return [ws[0] == ws[1], wd <= ws[0]]
    if op in '+-':
        return [ws[0] == ws[1], wd <= ws[0] + 1]
    if op == '*':
        return [ws[0] == ws[1], wd <= 2 * ws[0]]
    if op in '<>=':
        return [ws[0] == ws[1], wd == 1]
    if op == 'x':
        return [ws[0] == 1, ws[1] == ws[2], wd <= ws[1]]
    raise KeyError(op)


def _c_inv(I, fr, k):
    """concat loop: after k arguments  result == C(k)  and result >= 0"""
    from pyvc.engine import term
    g = I.st.ghost
    C, W, V = g['C'], g['W'], g['V']
    import z3
    # instances of the recursive definition of the spec function C at k
    I.st.assume(C(z3.IntVal(0)) == 0)
    I.st.assume(z3.Implies(k >= 0, C(k + 1) == C(k) * H.pow2(W(k)) + V(k)))
    I.st.assume(z3.Implies(k >= 0, z3.And(V(k) >= 0, V(k) < H.pow2(W(k)), W(k) >= 1)))
    r = term(fr.lookup('result'))
    return [('result==concat_spec(args[:k])', r == C(k)), ('result>=0', r >= 0)]


def _s_inv(I, fr, k):
    """select loop over op_param[::-1]: result * 2**(n-k) + S(n-k) == S(n), result >= 0"""
    from pyvc.engine import term
    import z3
    g = I.st.ghost
    S, P, n, src = g['S'], g['P'], g['n'], g['src']
    j = n - k - 1
    I.st.assume(S(z3.IntVal(0)) == 0)
    # definition instance at j:  S(j+1) = S(j) + bit(src, P(j)) * 2**j
    bit = (src / H.pow2(P(j))) % 2
    I.st.assume(z3.Implies(z3.And(j >= 0), S(j + 1) == S(j) + bit * H.pow2(j)))
    r = term(fr.lookup('result'))
    return [('result*2**(n-k)+S(n-k)==S(n)', r * H.pow2(n - k) + S(n - k) == S(n)),
            ('result>=0', r >= 0)]


@register
class Execute(Contract):
    module, qualname, props = 'pyrtl.simulation', 'Simulation._execute', ('C01', 'C08')
    invariants = {('Simulation._execute', 0): ForInv(_c_inv),
                  ('Simulation._execute', 1): ForInv(_s_inv)}

    def cases(self):
        return SIMPLE_OPS + ['r', '@', 'c', 's', 'm:mem', 'm:rom', 'unknown-op']

    def setup(self, I, case):
        import z3
        from pyvc.engine import Sym, term, SObj
        st = I.st
        sim = M.simulation(I)
        val = sim.fields['value']
        ns = NS(self=sim, case=case)
        dest = M.wire(I, 'dest')
        ns.dest, ns.wd = dest, dest.fields['bitwidth'].t
        if case in SIMPLE_OPS:
            n = ARITY.get(case, 2)
            args = tuple(M.wire(I, 'arg%d' % i) for i in range(n))
            ws = [a.fields['bitwidth'].t for a in args]
            for c in _wf_widths(case, ws, ns.wd):
                st.assume(c)
            ns.a = [z3.Select(val.arr, a.oid) for a in args]
            for v, w in zip(ns.a, ws):
                st.assume(M.in_range(v, w))
            net = M.net(case, None, args, (dest,))
            ns.expected = H.mod(RAW[case](ns.a), H.pow2(ns.wd))
        elif case in ('r', '@'):
            args = tuple(M.wire(I, 'arg%d' % i) for i in range(1 if case == 'r' else 3))
            net = M.net(case, None, args, (dest,) if case == 'r' else ())
            ns.expected = None
        elif case == 'c':
            seq = M.wire_seq(I, 'args', min_len=1)
            C = z3.Function('concat_spec!%d' % next(st.n), z3.IntSort(), z3.IntSort())
            V = lambda i: z3.Select(ns.old_value, seq.ID(i))      # noqa: E731
            st.ghost.update(C=C, W=seq.W, V=V)
            net = M.net('c', None, seq, (dest,))
            ns.expected_fn = lambda: H.mod(C(seq.length), H.pow2(ns.wd))
            ns.seq = seq
        elif case == 's':
            src_w = M.wire(I, 'src')
            prm = M.int_seq(I, 'op_param', min_len=1)
            S = z3.Function('sel_spec!%d' % next(st.n), z3.IntSort(), z3.IntSort())
            src = z3.Select(val.arr, src_w.oid)
            st.assume(M.in_range(src, src_w.fields['bitwidth'].t))
            # WF: every parameter is a bit index of the source
            q = z3.Int('q!%d' % next(st.n))
            st.assume(z3.ForAll([q], z3.Implies(z3.And(q >= 0, q < prm.length),
                                                z3.And(prm.P(q) >= 0,
                                                       prm.P(q) < src_w.fields['bitwidth'].t))))
            st.assume(ns.wd <= prm.length)
            st.ghost.update(S=S, P=prm.P, n=prm.length, src=src)
            net = M.net('s', prm, (src_w,), (dest,))
            ns.expected = H.mod(S(prm.length), H.pow2(ns.wd))
        elif case in ('m:mem', 'm:rom'):
            addr_w = M.wire(I, 'addr')
            addr = z3.Select(val.arr, addr_w.oid)
            memid = st.fresh_int('memid')
            mem = SObj('RomBlock' if case == 'm:rom' else 'MemBlock',
                       dict(id=memid, bitwidth=dest.fields['bitwidth'],
                            addrwidth=addr_w.fields['bitwidth']))
            ns.rombad = None
            st.assume(M.in_range(addr, addr_w.fields['bitwidth'].t))
            net = M.net('m', (memid, mem), (addr_w,), (dest,))
            mv = sim.fields['memvalue']
            if case == 'm:mem':
                st.assume(z3.Select(mv.dom, memid.t))        # _initialize creates every memid
                inner = z3.Select(mv.arr, memid.t)
                indom = z3.Select(z3.Select(mv.dom2, memid.t), addr)
                raw = z3.If(indom, z3.Select(inner, addr), term(sim.fields['default_value']))
                ns.expected = H.mod(raw, H.pow2(ns.wd))
            else:
                ns.rom = z3.Function('romdata!%d' % next(st.n), z3.IntSort(), z3.IntSort())
                bad = z3.Function('rombad!%d' % next(st.n), z3.IntSort(), z3.BoolSort())
                mem.fields['_romfn'], mem.fields['_rombad'] = ns.rom, bad
                ns.rombad = bad(addr)
                ns.expected = H.mod(ns.rom(addr), H.pow2(ns.wd))
        else:
            net = M.net('?', None, (M.wire(I, 'a'),), (dest,))
            ns.expected = None
        ns.net = net
        ns.args = [net]
        return ns

    def snapshot(self, I, ns):
        s = ns.self.fields
        ns.old_value = s['value'].arr
        ns.old_reg = s['regvalue'].arr
        ns.old_mem = s['memvalue'].arr

    def raises(self, ns):
        r = [('PyrtlInternalError', ns.case == 'unknown-op')]
        if ns.case == 'm:rom':
            r.append(('PyrtlError', ns.rombad))     # invalid ROM data is refused, not simulated
        return r

    def post(self, ns):
        import z3
        s = ns.self.fields
        out = [('regvalue unchanged', s['regvalue'].arr == ns.old_reg),
               ('memvalue unchanged', s['memvalue'].arr == ns.old_mem)]
        if ns.case in ('r', '@'):
            out.append(('value unchanged', s['value'].arr == ns.old_value))
        else:
            exp = ns.expected_fn() if ns.case == 'c' else ns.expected
            out.append(('value == old.set(dest, netsem(net))',
                        s['value'].arr == z3.Store(ns.old_value, ns.dest.oid, exp)))
            out.append(('dest in range', M.in_range(z3.Select(s['value'].arr, ns.dest.oid), ns.wd)))
        return out

    hooks = {}


def _rom_read_hook(I, o, name):
    """RomBlock._get_read_data is under its own contract (memory.py); here: rom(addr)."""
    return NotImplemented


@register
class MemUpdate(Contract):
    module, qualname, props = 'pyrtl.simulation', 'Simulation._mem_update', ('C01', 'C08')

    def cases(self):
        return ['@', 'other']

    def setup(self, I, case):
        import z3
        from pyvc.engine import SObj
        st = I.st
        sim = M.simulation(I)
        a, d, e = (M.wire(I, n) for n in ('addr', 'data', 'en'))
        memid = st.fresh_int('memid')
        mem = SObj('MemBlock', dict(id=memid))
        net = M.net('@' if case == '@' else 'w', (memid, mem), (a, d, e), ())
        val = sim.fields['value'].arr
        mv = sim.fields['memvalue']
        st.assume(z3.Select(mv.dom, memid.t))
        return NS(self=sim, args=[net], case=case, memid=memid.t,
                  addr=z3.Select(val, a.oid), data=z3.Select(val, d.oid), en=z3.Select(val, e.oid))

    def snapshot(self, I, ns):
        s = ns.self.fields
        ns.old_value, ns.old_reg = s['value'].arr, s['regvalue'].arr
        ns.old_mem, ns.old_dom2 = s['memvalue'].arr, s['memvalue'].dom2

    def raises(self, ns):
        return [('PyrtlInternalError', ns.case != '@')]

    def post(self, ns):
        import z3
        s = ns.self.fields
        inner = z3.Select(ns.old_mem, ns.memid)
        newmem = z3.If(ns.en != 0, z3.Store(ns.old_mem, ns.memid, z3.Store(inner, ns.addr, ns.data)),
                       ns.old_mem)
        idom = z3.Select(ns.old_dom2, ns.memid)
        newdom = z3.If(ns.en != 0, z3.Store(ns.old_dom2, ns.memid, z3.Store(idom, ns.addr, True)),
                       ns.old_dom2)
        return [('memvalue == old[memid][addr:=data] iff enable', s['memvalue'].arr == newmem),
                ('written address becomes defined, nothing else', s['memvalue'].dom2 == newdom),
                ('value unchanged', s['value'].arr == ns.old_value),
                ('regvalue unchanged', s['regvalue'].arr == ns.old_reg)]


# --------------------------------------------------------------------------- concrete side
def _mk_sim(values, memvalue=None, default=0):
    import pyrtl
    sim = pyrtl.Simulation.__new__(pyrtl.Simulation)
    sim.value = dict(values)
    sim.regvalue = {}
    sim.memvalue = memvalue if memvalue is not None else {}
    sim.default_value = default
    sim.block = pyrtl.working_block()
    return sim


def _execute_cases(tier):
    """(label, op, op_param-builder, arg widths, dest width, arg values, mem)"""
    import itertools
    wmax = 3 if tier == 'quick' else 4
    for op in SIMPLE_OPS:
        n = ARITY.get(op, 2)
        for w in range(1, wmax + 1):
            ws = [1, w, w] if op == 'x' else [w] * n
            dmax = {'+': w + 1, '-': w + 1, '*': 2 * w}.get(op, w)
            dws = [1] if op in '<>=' else sorted(set([1, dmax, max(1, dmax - 1)]))
            for dw in dws:
                for vals in itertools.product(*[range(2 ** x) for x in ws]):
                    yield ('%s ws=%r dw=%d vals=%r' % (op, ws, dw, vals), op, None, ws, dw, vals)
    for ws in [(1,), (2, 1), (1, 2, 2), (3, 1, 1, 2)]:
        for dw in sorted(set([sum(ws), max(1, sum(ws) - 1)])):
            for vals in itertools.product(*[range(2 ** x) for x in ws]):
                yield ('c ws=%r dw=%d vals=%r' % (ws, dw, vals), 'c', None, list(ws), dw, vals)
    for prm in [(0,), (2, 0), (1, 1, 2), (2, 1, 0), (0, 1, 2), (2, 2, 2, 0)]:
        for dw in sorted(set([len(prm), max(1, len(prm) - 1)])):
            for v in range(8):
                yield ('s prm=%r dw=%d v=%d' % (prm, dw, v), 's', prm, [3], dw, (v,))


class _ExecuteConcrete(object):
    def concrete(self, tier='quick'):
        def mk(op, prm, ws, dw, vals):
            def thunk():
                import pyrtl
                from spec.netsem import netsem_int
                pyrtl.reset_working_block()
                args = tuple(pyrtl.WireVector(w) for w in ws)
                dest = pyrtl.WireVector(dw)
                other = pyrtl.WireVector(4)
                net = pyrtl.LogicNet(op, prm, args, (dest,))
                vals0 = {a: v for a, v in zip(args, vals)}
                vals0[dest] = 0
                vals0[other] = 9
                sim = _mk_sim(vals0)
                sim._execute(net)
                exp = dict(vals0)
                exp[dest] = netsem_int(op, prm, list(vals), ws, dw)
                ok = sim.value == exp and sim.regvalue == {} and sim.memvalue == {}
                return ok, sim.value.get(dest), exp[dest]
            return thunk
        for (label, op, prm, ws, dw, vals) in _execute_cases(tier):
            yield (label, mk(op, prm, ws, dw, vals))

        def mkmem(content, addr, default, dw):
            def thunk():
                import pyrtl
                pyrtl.reset_working_block()
                m = pyrtl.MemBlock(bitwidth=dw, addrwidth=2, name='m')
                a = pyrtl.WireVector(2)
                d = pyrtl.WireVector(dw)
                net = pyrtl.LogicNet('m', (m.id, m), (a,), (d,))
                sim = _mk_sim({a: addr, d: 0}, {m.id: dict(content)}, default)
                sim._execute(net)
                exp = content.get(addr, default) % (2 ** dw)
                return (sim.value[d] == exp and sim.memvalue == {m.id: dict(content)}), sim.value[d], exp
            return thunk
        for content in ({}, {0: 3}, {1: 2, 3: 1}):
            for addr in range(4):
                for default in (0, 1, 7):
                    yield ('m content=%r addr=%d default=%d' % (content, addr, default),
                           mkmem(content, addr, default, 2))

        def mkrom(data, addr):
            def thunk():
                import pyrtl
                pyrtl.reset_working_block()
                m = pyrtl.RomBlock(bitwidth=3, addrwidth=2, romdata=data, name='r',
                                   pad_with_zeros=True)
                a = pyrtl.WireVector(2)
                d = pyrtl.WireVector(3)
                net = pyrtl.LogicNet('m', (m.id, m), (a,), (d,))
                sim = _mk_sim({a: addr, d: 0})
                sim._execute(net)
                exp = (data[addr] if addr < len(data) else 0)
                return sim.value[d] == exp, sim.value[d], exp
            return thunk
        for data in ([1, 2, 3, 4], [7, 0], [5]):
            for addr in range(4):
                yield ('rom data=%r addr=%d' % (data, addr), mkrom(data, addr))

        def mknoop(op):
            def thunk():
                import pyrtl
                pyrtl.reset_working_block()
                a = pyrtl.WireVector(2)
                r = pyrtl.Register(2)
                en = pyrtl.WireVector(1)
                m = pyrtl.MemBlock(bitwidth=2, addrwidth=2, name='m')
                net = pyrtl.LogicNet('r', None, (a,), (r,)) if op == 'r' else \
                    pyrtl.LogicNet('@', (m.id, m), (a, a, en), ())
                v0 = {a: 1, r: 2, en: 1}
                sim = _mk_sim(v0, {m.id: {}})
                sim._execute(net)
                return sim.value == v0 and sim.memvalue == {m.id: {}}, sim.value.get(r), 2
            return thunk
        yield ('r is a no-op', mknoop('r'))
        yield ('@ is a no-op', mknoop('@'))


Execute.concrete = _ExecuteConcrete.concrete


def _memupdate_concrete(self, tier='quick'):
    def mk(content, addr, data, en):
        def thunk():
            import pyrtl
            pyrtl.reset_working_block()
            m = pyrtl.MemBlock(bitwidth=2, addrwidth=2, name='m')
            m2 = pyrtl.MemBlock(bitwidth=2, addrwidth=2, name='m2')
            a, d, e = pyrtl.WireVector(2), pyrtl.WireVector(2), pyrtl.WireVector(1)
            net = pyrtl.LogicNet('@', (m.id, m), (a, d, e), ())
            v0 = {a: addr, d: data, e: en}
            sim = _mk_sim(v0, {m.id: dict(content), m2.id: {1: 1}})
            sim._mem_update(net)
            exp = dict(content)
            if en:
                exp[addr] = data
            ok = sim.memvalue == {m.id: exp, m2.id: {1: 1}} and sim.value == v0
            return ok, sim.memvalue[m.id], exp
        return thunk
    for content in ({}, {0: 3}, {1: 2, 3: 1}):
        for addr in range(4):
            for data in (0, 3):
                for en in (0, 1):
                    yield ('content=%r addr=%d data=%d en=%d' % (content, addr, data, en),
                           mk(content, addr, data, en))


MemUpdate.concrete = _memupdate_concrete
