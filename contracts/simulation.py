"""Contracts for pyrtl/simulation.py (C01, C08, C15) - see DESIGN Appendix A.3."""
from pyvc.contract import Contract, register, ForInv
from pyvc import hl as H
from pyvc.hl import NS
from contracts import models as M
import contracts.memory  # noqa: F401  (RomBlock._get_read_data is a callee of _execute)


# --------------------------------------------------------------------------- WireVector.bitmask
@register
class Bitmask(Contract):
    module, qualname, props = 'pyrtl.wire', 'WireVector.bitmask', ('C01',)

    def cases(self):
        return ['uncached', 'cached']

    def setup(self, I, case):
        from pyvc.engine import Sym
        w = M.wire(I, 'self')
        if case == 'cached':
            # object invariant (assumption, listed in evidence): a cached mask equals 2**bw - 1
            w.fields['_bitmask'] = Sym(H.pow2(w.fields['bitwidth'].t) - 1)
        return NS(self=w, args=[], bw=w.fields['bitwidth'].t)

    def bind(self, I, selfobj, args, kwargs):
        from pyvc.engine import term
        return NS(self=selfobj, args=[], bw=term(selfobj.fields['bitwidth']))

    def pre(self, ns):
        return [('bitwidth>=1', ns.bw >= 1)]

    def result(self, I, ns):
        from pyvc.engine import Sym
        return Sym(H.pow2(ns.bw) - 1, mask_of=ns.bw)

    def post(self, ns):
        from pyvc.engine import term
        return [('result==2**bw-1', term(ns.result) == H.pow2(ns.bw) - 1)]

    def concrete(self, tier='quick'):
        def mk(bw):
            def thunk():
                import pyrtl
                pyrtl.reset_working_block()
                w = pyrtl.WireVector(bw)
                got = w.bitmask
                return got == (1 << bw) - 1 and w.bitmask == got, got, (1 << bw) - 1
            return thunk
        for bw in list(range(1, 9)) + [63, 64, 65, 130]:
            yield ('bw=%d' % bw, mk(bw))


# --------------------------------------------------------------------------- simple_func table
RAW = {  # documented un-truncated meaning (LogicNet docstring) of each simple op
    'w': lambda a: a[0],
    '~': lambda a: -a[0] - 1,
    '&': lambda a: H.band(a[0], a[1]),
    '|': lambda a: H.bor(a[0], a[1]),
    '^': lambda a: H.bxor(a[0], a[1]),
    'n': lambda a: -H.band(a[0], a[1]) - 1,
    '+': lambda a: a[0] + a[1],
    '-': lambda a: a[0] - a[1],
    '*': lambda a: a[0] * a[1],
    '<': lambda a: H.b2i(a[0] < a[1]),
    '>': lambda a: H.b2i(a[0] > a[1]),
    '=': lambda a: H.b2i(a[0] == a[1]),
    'x': lambda a: H.If(a[0] == 0, a[1], a[2]),
}
ARITY = {'w': 1, '~': 1, 'x': 3}


def _mk_simple(op):
    class SimpleFunc(Contract):
        module, props = 'pyrtl.simulation', ('C01',)
        qualname = "Simulation.simple_func[%r]" % op
        _op = op

        def setup(self, I, case):
            n = ARITY.get(op, 2)
            args = [I.st.fresh_int('a%d' % i) for i in range(n)]
            return NS(args=args, a=[x.t for x in args])

        def bind(self, I, selfobj, args, kwargs):
            from pyvc.engine import term
            return NS(args=list(args), a=[term(x) for x in args])

        def post(self, ns):
            from pyvc.engine import term
            return [('equals-documented-op', term(ns.result) == RAW[op](ns.a))]

        def concrete(self, tier='quick'):
            def mk(vals):
                def thunk():
                    import pyrtl
                    got = pyrtl.Simulation.simple_func[op](*vals)
                    exp = RAW[op](list(vals))
                    return (got == exp and isinstance(got, int)), got, exp
                return thunk
            import itertools
            n = ARITY.get(op, 2)
            rng = range(0, 6) if n < 3 else range(0, 4)
            for vals in itertools.product(rng, repeat=n):
                yield ('args=%r' % (vals,), mk(vals))
    SimpleFunc.__name__ = 'SimpleFunc_%s' % op
    return SimpleFunc


for _op in RAW:
    register(_mk_simple(_op))


# --------------------------------------------------------------------------- _sanitize
@register
class Sanitize(Contract):
    module, qualname, props = 'pyrtl.simulation', 'Simulation._sanitize', ('C01',)

    def setup(self, I, case):
        w = M.wire(I, 'wirevector')
        v = I.st.fresh_int('val')
        return NS(args=[v, w], val=v.t, bw=w.fields['bitwidth'].t)

    def bind(self, I, selfobj, args, kwargs):
        from pyvc.engine import term
        return NS(args=list(args), val=term(args[0]), bw=term(args[1].fields['bitwidth']))

    def pre(self, ns):
        return [('bitwidth>=1', ns.bw >= 1)]

    def post(self, ns):
        from pyvc.engine import term
        r = term(ns.result)
        return [('val mod 2**bw', r == H.mod(ns.val, H.pow2(ns.bw))),
                ('in range', H.And(r >= 0, r < H.pow2(ns.bw)))]

    def concrete(self, tier='quick'):
        def mk(v, bw):
            def thunk():
                import pyrtl
                pyrtl.reset_working_block()
                got = pyrtl.Simulation._sanitize(v, pyrtl.WireVector(bw))
                return got == v % (1 << bw), got, v % (1 << bw)
            return thunk
        for bw in (1, 2, 3, 5, 64, 65):
            for v in list(range(-9, 40)) + [2 ** 64 - 1, 2 ** 64, 2 ** 65 + 3, -2 ** 64]:
                yield ('val=%d,bw=%d' % (v, bw), mk(v, bw))


# --------------------------------------------------------------------------- _execute
SIMPLE_OPS = list(RAW)


def _wf_widths(op, ws, wd):
    """Well-formedness (spec A.2) of operand / destination widths for simple ops."""
    if op in 'w~':
        return [wd <= ws[0]]
    if op in '&|^n':
        return [ws[0] == ws[1], wd <= ws[0]]
    if op in '+-':
        return [ws[0] == ws[1], wd <= ws[0] + 1]
    if op == '*':
        return [ws[0] == ws[1], wd <= 2 * ws[0]]
    if op in '<>=':
        return [ws[0] == ws[1], wd == 1]
    if op == 'x':
        return [ws[0] == 1, ws[1] == ws[2], wd <= ws[1]]
    raise KeyError(op)


def _c_inv(I, fr, k):
    """concat loop: after k arguments  result == C(k)  and result >= 0"""
    from pyvc.engine import term
    g = I.st.ghost
    C, W, V = g['C'], g['W'], g['V']
    import z3
    # instances of the recursive definition of the spec function C at k
    I.st.assume(C(z3.IntVal(0)) == 0)
    I.st.assume(z3.Implies(k >= 0, C(k + 1) == C(k) * H.pow2(W(k)) + V(k)))
    I.st.assume(z3.Implies(k >= 0, z3.And(V(k) >= 0, V(k) < H.pow2(W(k)), W(k) >= 1)))
    r = term(fr.lookup('result'))
    return [('result==concat_spec(args[:k])', r == C(k)), ('result>=0', r >= 0)]


def _s_inv(I, fr, k):
    """select loop over op_param[::-1]: result * 2**(n-k) + S(n-k) == S(n), result >= 0"""
    from pyvc.engine import term
    import z3
    g = I.st.ghost
    S, P, n, src = g['S'], g['P'], g['n'], g['src']
    j = n - k - 1
    I.st.assume(S(z3.IntVal(0)) == 0)
    # definition instance at j:  S(j+1) = S(j) + bit(src, P(j)) * 2**j
    bit = (src / H.pow2(P(j))) % 2
    I.st.assume(z3.Implies(z3.And(j >= 0), S(j + 1) == S(j) + bit * H.pow2(j)))
    r = term(fr.lookup('result'))
    return [('result*2**(n-k)+S(n-k)==S(n)', r * H.pow2(n - k) + S(n - k) == S(n)),
            ('result>=0', r >= 0)]


@register
class Execute(Contract):
    module, qualname, props = 'pyrtl.simulation', 'Simulation._execute', ('C01', 'C08')
    invariants = {('Simulation._execute', 0): ForInv(_c_inv),
                  ('Simulation._execute', 1): ForInv(_s_inv)}

    def cases(self):
        return SIMPLE_OPS + ['r', '@', 'c', 's', 'm:mem', 'm:rom', 'unknown-op']

    def setup(self, I, case):
        import z3
        from pyvc.engine import Sym, term, SObj
        st = I.st
        sim = M.simulation(I)
        val = sim.fields['value']
        ns = NS(self=sim, case=case)
        dest = M.wire(I, 'dest')
        ns.dest, ns.wd = dest, dest.fields['bitwidth'].t
        if case in SIMPLE_OPS:
            n = ARITY.get(case, 2)
            args = tuple(M.wire(I, 'arg%d' % i) for i in range(n))
            ws = [a.fields['bitwidth'].t for a in args]
            for c in _wf_widths(case, ws, ns.wd):
                st.assume(c)
            ns.a = [z3.Select(val.arr, a.oid) for a in args]
            for v, w in zip(ns.a, ws):
                st.assume(M.in_range(v, w))
            net = M.net(case, None, args, (dest,))
            ns.expected = H.mod(RAW[case](ns.a), H.pow2(ns.wd))
        elif case in ('r', '@'):
            args = tuple(M.wire(I, 'arg%d' % i) for i in range(1 if case == 'r' else 3))
            net = M.net(case, None, args, (dest,) if case == 'r' else ())
            ns.expected = None
        elif case == 'c':
            seq = M.wire_seq(I, 'args', min_len=1)
            C = z3.Function('concat_spec!%d' % next(st.n), z3.IntSort(), z3.IntSort())
            V = lambda i: z3.Select(ns.old_value, seq.ID(i))      # noqa: E731
            st.ghost.update(C=C, W=seq.W, V=V)
            net = M.net('c', None, seq, (dest,))
            ns.expected_fn = lambda: H.mod(C(seq.length), H.pow2(ns.wd))
            ns.seq = seq
        elif case == 's':
            src_w = M.wire(I, 'src')
            prm = M.int_seq(I, 'op_param', min_len=1)
            S = z3.Function('sel_spec!%d' % next(st.n), z3.IntSort(), z3.IntSort())
            src = z3.Select(val.arr, src_w.oid)
            st.assume(M.in_range(src, src_w.fields['bitwidth'].t))
            # WF: every parameter is a bit index of the source
            q = z3.Int('q!%d' % next(st.n))
            st.assume(z3.ForAll([q], z3.Implies(z3.And(q >= 0, q < prm.length),
                                                z3.And(prm.P(q) >= 0,
                                                       prm.P(q) < src_w.fields['bitwidth'].t))))
            st.assume(ns.wd <= prm.length)
            st.ghost.update(S=S, P=prm.P, n=prm.length, src=src)
            net = M.net('s', prm, (src_w,), (dest,))
            ns.expected = H.mod(S(prm.length), H.pow2(ns.wd))
        elif case in ('m:mem', 'm:rom'):
            addr_w = M.wire(I, 'addr')
            addr = z3.Select(val.arr, addr_w.oid)
            memid = st.fresh_int('memid')
            mem = SObj('RomBlock' if case == 'm:rom' else 'MemBlock',
                       dict(id=memid, bitwidth=dest.fields['bitwidth'],
                            addrwidth=addr_w.fields['bitwidth']))
            ns.rombad = None
            st.assume(M.in_range(addr, addr_w.fields['bitwidth'].t))
            net = M.net('m', (memid, mem), (addr_w,), (dest,))
            mv = sim.fields['memvalue']
            if case == 'm:mem':
                st.assume(z3.Select(mv.dom, memid.t))        # _initialize creates every memid
                inner = z3.Select(mv.arr, memid.t)
                indom = z3.Select(z3.Select(mv.dom2, memid.t), addr)
                raw = z3.If(indom, z3.Select(inner, addr), term(sim.fields['default_value']))
                ns.expected = H.mod(raw, H.pow2(ns.wd))
            else:
                ns.rom = z3.Function('romdata!%d' % next(st.n), z3.IntSort(), z3.IntSort())
                bad = z3.Function('rombad!%d' % next(st.n), z3.IntSort(), z3.BoolSort())
                mem.fields['_romfn'], mem.fields['_rombad'] = ns.rom, bad
                ns.rombad = bad(addr)
                ns.expected = H.mod(ns.rom(addr), H.pow2(ns.wd))
        else:
            net = M.net('?', None, (M.wire(I, 'a'),), (dest,))
            ns.expected = None
        ns.net = net
        ns.args = [net]
        return ns

    def bind(self, I, selfobj, args, kwargs):
        net = args[0]
        if '_abs_idx' not in net.fields:
            from pyvc.engine import Unsupported
            raise Unsupported('Simulation._execute contract applied to a concrete net')
        g = selfobj.fields['_ghost']
        return NS(self=selfobj, args=list(args), case='abstract', j=net.fields['_abs_idx'], g=g)

    def havoc(self, I, ns):
        import z3
        v = ns.self.fields['value']
        v.arr = z3.Const('value_after_execute!%d' % next(I.st.n), v.arr.sort())

    def snapshot(self, I, ns):
        s = ns.self.fields
        ns.old_value = s['value'].arr
        ns.old_reg = s['regvalue'].arr
        ns.old_mem = s['memvalue'].arr

    def raises(self, ns):
        if ns.case == 'abstract':
            return []
        r = [('PyrtlInternalError', ns.case == 'unknown-op')]
        if ns.case == 'm:rom':
            r.append(('PyrtlError', ns.rombad))     # invalid ROM data is refused, not simulated
        return r

    def post(self, ns):
        import z3
        s = ns.self.fields
        out = [('regvalue unchanged', s['regvalue'].arr == ns.old_reg),
               ('memvalue unchanged', s['memvalue'].arr == ns.old_mem)]
        if ns.case == 'abstract':
            g, j = ns.g, ns.j
            out.append(('value == old.set(dest_j, SEM_j(old value, memvalue)) unless op in r@',
                        s['value'].arr == z3.If(g['RQ'](j), ns.old_value,
                                                z3.Store(ns.old_value, g['D'](j),
                                                         g['SEM'](j, ns.old_value, ns.old_mem)))))
            return out
        if ns.case in ('r', '@'):
            out.append(('value unchanged', s['value'].arr == ns.old_value))
        else:
            exp = ns.expected_fn() if ns.case == 'c' else ns.expected
            out.append(('value == old.set(dest, netsem(net))',
                        s['value'].arr == z3.Store(ns.old_value, ns.dest.oid, exp)))
            out.append(('dest in range', M.in_range(z3.Select(s['value'].arr, ns.dest.oid), ns.wd)))
        return out

    hooks = {}


def _rom_read_hook(I, o, name):
    """RomBlock._get_read_data is under its own contract (memory.py); here: rom(addr)."""
    return NotImplemented


@register
class MemUpdate(Contract):
    module, qualname, props = 'pyrtl.simulation', 'Simulation._mem_update', ('C01', 'C08')

    def cases(self):
        return ['@', 'other']

    def setup(self, I, case):
        import z3
        from pyvc.engine import SObj
        st = I.st
        sim = M.simulation(I)
        a, d, e = (M.wire(I, n) for n in ('addr', 'data', 'en'))
        memid = st.fresh_int('memid')
        mem = SObj('MemBlock', dict(id=memid))
        net = M.net('@' if case == '@' else 'w', (memid, mem), (a, d, e), ())
        val = sim.fields['value'].arr
        mv = sim.fields['memvalue']
        st.assume(z3.Select(mv.dom, memid.t))
        return NS(self=sim, args=[net], case=case, memid=memid.t,
                  addr=z3.Select(val, a.oid), data=z3.Select(val, d.oid), en=z3.Select(val, e.oid))

    def bind(self, I, selfobj, args, kwargs):
        import z3
        net = args[0]
        if '_abs_idx' not in net.fields:
            from pyvc.engine import Unsupported
            raise Unsupported('Simulation._mem_update contract applied to a concrete net')
        g = selfobj.fields['_ghost']
        j = net.fields['_abs_idx']
        val = selfobj.fields['value'].arr
        return NS(self=selfobj, args=list(args), case='@', memid=g['MID'](j),
                  addr=z3.Select(val, g['MA'](j)), data=z3.Select(val, g['MD'](j)),
                  en=z3.Select(val, g['ME'](j)))

    def pre(self, ns):
        import z3
        mv = ns.self.fields['memvalue']
        return [('memid present (created by _initialize)', z3.Select(mv.dom, ns.memid))]

    def havoc(self, I, ns):
        import z3
        mv = ns.self.fields['memvalue']
        mv.arr = z3.Const('mem_after_update!%d' % next(I.st.n), mv.arr.sort())
        mv.dom2 = z3.Const('memdom2_after_update!%d' % next(I.st.n), mv.dom2.sort())

    def snapshot(self, I, ns):
        s = ns.self.fields
        ns.old_value, ns.old_reg = s['value'].arr, s['regvalue'].arr
        ns.old_mem, ns.old_dom2 = s['memvalue'].arr, s['memvalue'].dom2

    def raises(self, ns):
        return [('PyrtlInternalError', ns.case != '@')]

    def post(self, ns):
        import z3
        s = ns.self.fields
        inner = z3.Select(ns.old_mem, ns.memid)
        newmem = z3.If(ns.en != 0, z3.Store(ns.old_mem, ns.memid, z3.Store(inner, ns.addr, ns.data)),
                       ns.old_mem)
        idom = z3.Select(ns.old_dom2, ns.memid)
        newdom = z3.If(ns.en != 0, z3.Store(ns.old_dom2, ns.memid, z3.Store(idom, ns.addr, True)),
                       ns.old_dom2)
        return [('memvalue == old[memid][addr:=data] iff enable', s['memvalue'].arr == newmem),
                ('written address becomes defined, nothing else', s['memvalue'].dom2 == newdom),
                ('value unchanged', s['value'].arr == ns.old_value),
                ('regvalue unchanged', s['regvalue'].arr == ns.old_reg)]


# --------------------------------------------------------------------------- concrete side
def _mk_sim(values, memvalue=None, default=0):
    import pyrtl
    sim = pyrtl.Simulation.__new__(pyrtl.Simulation)
    sim.value = dict(values)
    sim.regvalue = {}
    sim.memvalue = memvalue if memvalue is not None else {}
    sim.default_value = default
    sim.block = pyrtl.working_block()
    return sim


def _execute_cases(tier):
    """(label, op, op_param-builder, arg widths, dest width, arg values, mem)"""
    import itertools
    wmax = 3 if tier == 'quick' else 4
    for op in SIMPLE_OPS:
        n = ARITY.get(op, 2)
        for w in range(1, wmax + 1):
            ws = [1, w, w] if op == 'x' else [w] * n
            dmax = {'+': w + 1, '-': w + 1, '*': 2 * w}.get(op, w)
            dws = [1] if op in '<>=' else sorted(set([1, dmax, max(1, dmax - 1)]))
            for dw in dws:
                for vals in itertools.product(*[range(2 ** x) for x in ws]):
                    yield ('%s ws=%r dw=%d vals=%r' % (op, ws, dw, vals), op, None, ws, dw, vals)
    for ws in [(1,), (2, 1), (1, 2, 2), (3, 1, 1, 2)]:
        for dw in sorted(set([sum(ws), max(1, sum(ws) - 1)])):
            for vals in itertools.product(*[range(2 ** x) for x in ws]):
                yield ('c ws=%r dw=%d vals=%r' % (ws, dw, vals), 'c', None, list(ws), dw, vals)
    for prm in [(0,), (2, 0), (1, 1, 2), (2, 1, 0), (0, 1, 2), (2, 2, 2, 0)]:
        for dw in sorted(set([len(prm), max(1, len(prm) - 1)])):
            for v in range(8):
                yield ('s prm=%r dw=%d v=%d' % (prm, dw, v), 's', prm, [3], dw, (v,))


class _ExecuteConcrete(object):
    def concrete(self, tier='quick'):
        def mk(op, prm, ws, dw, vals):
            def thunk():
                import pyrtl
                from spec.netsem import netsem_int
                pyrtl.reset_working_block()
                args = tuple(pyrtl.WireVector(w) for w in ws)
                dest = pyrtl.WireVector(dw)
                other = pyrtl.WireVector(4)
                net = pyrtl.LogicNet(op, prm, args, (dest,))
                vals0 = {a: v for a, v in zip(args, vals)}
                vals0[dest] = 0
                vals0[other] = 9
                sim = _mk_sim(vals0)
                sim._execute(net)
                exp = dict(vals0)
                exp[dest] = netsem_int(op, prm, list(vals), ws, dw)
                ok = sim.value == exp and sim.regvalue == {} and sim.memvalue == {}
                return ok, sim.value.get(dest), exp[dest]
            return thunk
        for (label, op, prm, ws, dw, vals) in _execute_cases(tier):
            yield (label, mk(op, prm, ws, dw, vals))

        def mkmem(content, addr, default, dw):
            def thunk():
                import pyrtl
                pyrtl.reset_working_block()
                m = pyrtl.MemBlock(bitwidth=dw, addrwidth=2, name='m')
                a = pyrtl.WireVector(2)
                d = pyrtl.WireVector(dw)
                net = pyrtl.LogicNet('m', (m.id, m), (a,), (d,))
                sim = _mk_sim({a: addr, d: 0}, {m.id: dict(content)}, default)
                sim._execute(net)
                exp = content.get(addr, default) % (2 ** dw)
                return (sim.value[d] == exp and sim.memvalue == {m.id: dict(content)}), sim.value[d], exp
            return thunk
        for content in ({}, {0: 3}, {1: 2, 3: 1}):
            for addr in range(4):
                for default in (0, 1, 7):
                    yield ('m content=%r addr=%d default=%d' % (content, addr, default),
                           mkmem(content, addr, default, 2))

        def mkrom(data, addr):
            def thunk():
                import pyrtl
                pyrtl.reset_working_block()
                m = pyrtl.RomBlock(bitwidth=3, addrwidth=2, romdata=data, name='r',
                                   pad_with_zeros=True)
                a = pyrtl.WireVector(2)
                d = pyrtl.WireVector(3)
                net = pyrtl.LogicNet('m', (m.id, m), (a,), (d,))
                sim = _mk_sim({a: addr, d: 0})
                sim._execute(net)
                exp = (data[addr] if addr < len(data) else 0)
                return sim.value[d] == exp, sim.value[d], exp
            return thunk
        for data in ([1, 2, 3, 4], [7, 0], [5]):
            for addr in range(4):
                yield ('rom data=%r addr=%d' % (data, addr), mkrom(data, addr))

        def mknoop(op):
            def thunk():
                import pyrtl
                pyrtl.reset_working_block()
                a = pyrtl.WireVector(2)
                r = pyrtl.Register(2)
                en = pyrtl.WireVector(1)
                m = pyrtl.MemBlock(bitwidth=2, addrwidth=2, name='m')
                net = pyrtl.LogicNet('r', None, (a,), (r,)) if op == 'r' else \
                    pyrtl.LogicNet('@', (m.id, m), (a, a, en), ())
                v0 = {a: 1, r: 2, en: 1}
                sim = _mk_sim(v0, {m.id: {}})
                sim._execute(net)
                return sim.value == v0 and sim.memvalue == {m.id: {}}, sim.value.get(r), 2
            return thunk
        yield ('r is a no-op', mknoop('r'))
        yield ('@ is a no-op', mknoop('@'))


Execute.concrete = _ExecuteConcrete.concrete


def _memupdate_concrete(self, tier='quick'):
    def mk(content, addr, data, en):
        def thunk():
            import pyrtl
            pyrtl.reset_working_block()
            m = pyrtl.MemBlock(bitwidth=2, addrwidth=2, name='m')
            m2 = pyrtl.MemBlock(bitwidth=2, addrwidth=2, name='m2')
            a, d, e = pyrtl.WireVector(2), pyrtl.WireVector(2), pyrtl.WireVector(1)
            net = pyrtl.LogicNet('@', (m.id, m), (a, d, e), ())
            v0 = {a: addr, d: data, e: en}
            sim = _mk_sim(v0, {m.id: dict(content), m2.id: {1: 1}})
            sim._mem_update(net)
            exp = dict(content)
            if en:
                exp[addr] = data
            ok = sim.memvalue == {m.id: exp, m2.id: {1: 1}} and sim.value == v0
            return ok, sim.memvalue[m.id], exp
        return thunk
    for content in ({}, {0: 3}, {1: 2, 3: 1}):
        for addr in range(4):
            for data in (0, 3):
                for en in (0, 1):
                    yield ('content=%r addr=%d data=%d en=%d' % (content, addr, data, en),
                           mk(content, addr, data, en))


MemUpdate.concrete = _memupdate_concrete


# --------------------------------------------------------------------------- Simulation.step
class _StepBase(Contract):
    module, qualname = 'pyrtl.simulation', 'Simulation.step'

    @property
    def hooks(self):
        from pyvc.engine import Builtin

        def subset(I_, a, k):
            raise RuntimeError('unbound')
        def chk(I_, a, k):
            # no assertion is registered in the model; what is recorded is WHEN the check runs
            sim = a[0] if a else None
            g = getattr(sim, 'fields', {}).get('_ghost') if sim is not None else None
            if isinstance(g, dict):
                g['at_assert'] = (sim.fields['regvalue'].arr, sim.fields['memvalue'].arr, sim.fields['value'].arr)
        return {'global:check_rtl_assertions': Builtin('check_rtl_assertions(stub: no assertions; records the state it sees)',
                                                       chk)}


def _block_model(I, wires, inputs_fn):
    """Block with a finite universe of named wires; wirevector_subset(Input) -> FSet."""
    from pyvc.engine import SObj, FSet, Builtin, Sym
    import z3
    blk = SObj('Block', dict(wirevector_by_name={w.fields['name']: w for w in wires}))

    def wirevector_subset(I_, a, k):
        names = [getattr(c, 'name', None) for c in (a[0] if isinstance(a[0], tuple) else (a[0],))]
        if names != ['Input']:
            from pyvc.engine import Unsupported
            raise Unsupported('wirevector_subset(%r) in the step model' % names)
        return FSet(wires, {id(w): inputs_fn(w) for w in wires})
    blk.fields['wirevector_subset'] = Builtin('Block.wirevector_subset', wirevector_subset)
    return blk


@register
class StepValidate(_StepBase):
    """Input validation of Simulation.step (C15, C01-S1): with a block whose wires are a, b, c of
    symbolic kinds and widths, PyrtlError is raised iff a provided wire is not an Input, a provided
    value is outside [0, 2**bitwidth), or an Input of the block has no value; otherwise the value
    map holds exactly the provided values for the provided wires (no nets in this case)."""
    props = ('C15', 'C01')
    qualname = 'Simulation.step'
    variant = 'validate'

    def cases(self):
        return ['names:a', 'names:a,b', 'wire:a', 'names:']

    @property
    def hooks(self):
        h = dict(_StepBase.hooks.fget(self))
        h['fset_universe'] = lambda: self._wires
        return h

    def setup(self, I, case):
        import z3
        from pyvc.engine import SSeq, Sym, SObj, Unsupported
        st = I.st
        wires = []
        for nm in ('a', 'b', 'c'):
            w = M.wire(I, nm, symbolic_kind=True)
            w.fields['name'] = nm
            wires.append(w)
        self._wires = wires
        sim = M.simulation(I)
        is_in = lambda w: w.kind == 1      # noqa: E731   (kind code of Input)
        sim.fields['block'] = _block_model(I, wires, is_in)
        empty = SSeq(z3.IntVal(0), lambda i: None, 'tuple')
        sim.fields.update(ordered_nets=empty, mem_update_nets=empty, reg_update_nets=empty, tracer=None)
        # no register in this model: regvalue is empty
        sim.fields['regvalue'] = M.partial_map(I, 'regvalue')
        st.assume(sim.fields['regvalue'].dom == z3.K(z3.IntSort(), False))
        kind, names = case.split(':')
        keys = [n for n in names.split(',') if n]
        byname = {w.fields['name']: w for w in wires}
        prov = {}
        vals = {}
        for n in keys:
            v = st.fresh_int('v_' + n)
            vals[n] = v.t
            prov[byname[n] if kind == 'wire' else n] = v
        # the three wires are distinct objects
        st.assume(z3.Distinct(*[w.oid for w in wires]))
        return NS(self=sim, args=[prov], wires=byname, vals=vals, keys=keys, is_in=is_in)

    def snapshot(self, I, ns):
        ns.old_value = ns.self.fields['value'].arr

    def raises(self, ns):
        import z3
        bad = []
        for n in ns.keys:
            w = ns.wires[n]
            bw = w.fields['bitwidth'].t
            bad.append(z3.Not(ns.is_in(w)))
            bad.append(z3.Or(ns.vals[n] < 0, ns.vals[n] >= H.pow2(bw)))
        for n, w in ns.wires.items():
            if n not in ns.keys:
                bad.append(ns.is_in(w))       # an Input without a value
        return [('PyrtlError', z3.Or(*bad) if bad else False)]

    def post(self, ns):
        import z3
        exp = ns.old_value
        for n in ns.keys:
            exp = z3.Store(exp, ns.wires[n].oid, ns.vals[n])
        return [('value == old value with the provided inputs stored', ns.self.fields['value'].arr == exp)]

    def concrete(self, tier='quick'):
        def mk(bw, v):
            def thunk():
                import pyrtl
                pyrtl.reset_working_block()
                a = pyrtl.Input(bw, 'a')
                o = pyrtl.Output(bw, 'o')
                o <<= a
                sim = pyrtl.Simulation()
                try:
                    sim.step({'a': v})
                    got = sim.inspect('o')
                except pyrtl.PyrtlError:
                    got = None
                exp = v if 0 <= v < (1 << bw) else None
                return got == exp, got, exp
            return thunk
        for bw in (1, 2, 3, 8, 64, 65):
            for v in [-2, -1, 0, 1, (1 << bw) - 1, 1 << bw, (1 << bw) + 1, 1 << (bw + 3)]:
                yield ('bw=%d,v=%d' % (bw, v), mk(bw, v))


def _nets_inv(I, fr, k):
    """loop over ordered_nets: every net already executed holds its equation on the current value
    map, wires that are no combinational destination are untouched, state maps are untouched."""
    import z3
    sim = fr.lookup('self')
    g = sim.fields['_ghost']
    val = sim.fields['value'].arr
    if z3.is_int_value(k) and k.as_long() == 0:
        g['V0'] = val
    j, o = z3.Int('j!inv'), z3.Int('o!inv')
    return [
        ('executed nets hold their equation',
         z3.ForAll([j], z3.Implies(z3.And(0 <= j, j < k, z3.Not(g['RQ'](j))),
                                   z3.Select(val, g['D'](j)) == g['SEM'](j, val, g['oldmem'])))),
        ('non-destination wires untouched',
         z3.ForAll([o], z3.Implies(g['ND'](o), z3.Select(val, o) == z3.Select(g['V0'], o)))),
        ('memvalue untouched', sim.fields['memvalue'].arr == g['oldmem']),
        ('regvalue untouched', sim.fields['regvalue'].arr == g['oldreg']),
    ]


def _mems_inv(I, fr, k):
    import z3
    sim = fr.lookup('self')
    g = sim.fields['_ghost']
    val = sim.fields['value'].arr
    mv = sim.fields['memvalue']
    if z3.is_int_value(k) and k.as_long() == 0:
        g['V1'] = val
    MW, MW2 = g['MW'], g['MW2']
    I.st.assume(MW(z3.IntVal(0)) == g['oldmem'])
    I.st.assume(MW2(z3.IntVal(0)) == g['olddom2'])
    V1 = g['V1']
    en = z3.Select(V1, g['ME'](k))
    mid, addr, data = g['MID'](k), z3.Select(V1, g['MA'](k)), z3.Select(V1, g['MD'](k))
    I.st.assume(z3.Implies(k >= 0, MW(k + 1) == z3.If(
        en != 0, z3.Store(MW(k), mid, z3.Store(z3.Select(MW(k), mid), addr, data)), MW(k))))
    I.st.assume(z3.Implies(k >= 0, MW2(k + 1) == z3.If(
        en != 0, z3.Store(MW2(k), mid, z3.Store(z3.Select(MW2(k), mid), addr, True)), MW2(k))))
    return [('memvalue == writes 0..k-1 applied in order to the old memory', mv.arr == MW(k)),
            ('defined addresses follow the writes', mv.dom2 == MW2(k)),
            ('value untouched by memory writes', val == V1),
            ('every written memid exists', mv.dom == g['memdom'])]


def _regs_inv(I, fr, k):
    import z3
    sim = fr.lookup('self')
    g = sim.fields['_ghost']
    val = sim.fields['value'].arr
    rv = sim.fields['regvalue']
    RG, RGD = g['RG'], g['RGD']
    I.st.assume(RG(z3.IntVal(0)) == g['oldreg'])
    I.st.assume(RGD(z3.IntVal(0)) == g['regdom'])
    nxt = z3.Select(g['V1'], g['RA'](k)) % H.pow2(g['RW'](k))
    I.st.assume(z3.Implies(k >= 0, RG(k + 1) == z3.Store(RG(k), g['R'](k), nxt)))
    I.st.assume(z3.Implies(k >= 0, RGD(k + 1) == z3.Store(RGD(k), g['R'](k), True)))
    I.st.assume(z3.Implies(k >= 0, g['RW'](k) >= 1))
    return [('regvalue == captures 0..k-1 of value[next] mod 2**len', rv.arr == RG(k)),
            ('regvalue keys', rv.dom == RGD(k)),
            ('value untouched by register capture', val == g['V1'])]


@register
class StepPhase(_StepBase):
    """Phase lemma of Simulation.step over a symbolic well-formed netlist (C01 S1-S6):
    registers show the stored value; every combinational net holds its documented equation on the
    final value map, reading the memory content from before this cycle's writes; memory writes
    and next-register values are computed from the settled values; the trace receives exactly the
    final value map."""
    props = ('C01', 'C08')
    qualname = 'Simulation.step'
    variant = 'phase'
    invariants = {('Simulation.step', 2): ForInv(_nets_inv, heap=lambda I, fr: [fr.lookup('self').fields['value']]),
                  ('Simulation.step', 3): ForInv(_mems_inv, heap=lambda I, fr: [fr.lookup('self').fields['memvalue']]),
                  ('Simulation.step', 4): ForInv(_regs_inv, heap=lambda I, fr: [fr.lookup('self').fields['regvalue']])}

    def cases(self):
        return ['phase']

    @property
    def hooks(self):
        h = dict(_StepBase.hooks.fget(self))
        h['fset_universe'] = lambda: self._wires
        return h

    def setup(self, I, case):
        import z3
        from pyvc.engine import SSeq, Sym, SObj, Builtin
        st = I.st
        Int, Bool = z3.IntSort(), z3.BoolSort()
        A = z3.ArraySort(Int, Int)
        AA = z3.ArraySort(Int, A)
        AB = z3.ArraySort(Int, z3.ArraySort(Int, Bool))
        n = next(st.n)
        a = M.wire(I, 'a', cls='Input')
        a.fields['name'] = 'a'
        self._wires = [a]
        sim = M.simulation(I)
        sim.fields['regvalue'] = M.partial_map(I, 'regvalue')
        sim.fields['block'] = _block_model(I, [a], lambda w: z3.BoolVal(True))
        g = dict(
            SEM=z3.Function('SEM!%d' % n, Int, A, AA, Int), D=z3.Function('D!%d' % n, Int, Int),
            RQ=z3.Function('RQ!%d' % n, Int, Bool), ARGS=z3.Function('ARGS!%d' % n, Int, Int, Bool),
            ND=z3.Function('ND!%d' % n, Int, Bool),
            MA=z3.Function('MA!%d' % n, Int, Int), MD=z3.Function('MD!%d' % n, Int, Int),
            ME=z3.Function('ME!%d' % n, Int, Int), MID=z3.Function('MID!%d' % n, Int, Int),
            MW=z3.Function('MW!%d' % n, Int, AA), MW2=z3.Function('MW2!%d' % n, Int, AB),
            RA=z3.Function('RA!%d' % n, Int, Int), R=z3.Function('R!%d' % n, Int, Int),
            RW=z3.Function('RW!%d' % n, Int, Int), RG=z3.Function('RG!%d' % n, Int, A),
            RGD=z3.Function('RGD!%d' % n, Int, z3.ArraySort(Int, Bool)))
        N, NM, NR = z3.Int('N!%d' % n), z3.Int('NM!%d' % n), z3.Int('NR!%d' % n)
        st.assume(z3.And(N >= 0, NM >= 0, NR >= 0))
        g.update(N=N, NM=NM, NR=NR)
        sim.fields['_ghost'] = g

        def absnet(i):
            return SObj('LogicNet', {'_abs_idx': i})

        def regnet(i):
            src = SObj('WireVector', dict(bitwidth=Sym(z3.IntVal(1))), oid=g['RA'](i))
            dst = SObj('Register', dict(bitwidth=Sym(g['RW'](i))), oid=g['R'](i))
            return SObj('LogicNet', dict(op='r', args=(src,), dests=(dst,)))
        sim.fields['ordered_nets'] = SSeq(N, absnet, 'tuple')
        sim.fields['mem_update_nets'] = SSeq(NM, absnet, 'tuple')
        sim.fields['reg_update_nets'] = SSeq(NR, regnet, 'tuple')
        tracer = SObj('SimulationTrace', {})

        def add_step(I_, args, k):
            g['traced'] = args[0].arr
        tracer.fields['add_step'] = Builtin('SimulationTrace.add_step(ghost)', add_step)
        sim.fields['tracer'] = tracer
        # ---- well-formedness of the netlist as established by sanity_check / Block.__iter__ (C10)
        i, j, o, x, y = z3.Ints('i!wf j!wf o!wf x!wf y!wf')
        v = z3.Const('v!wf', A)
        m = z3.Const('m!wf', AA)
        D, RQ, ARGS, ND, SEM = g['D'], g['RQ'], g['ARGS'], g['ND'], g['SEM']
        st.assume(z3.ForAll([i, j], z3.Implies(z3.And(0 <= i, i < j, j < N, z3.Not(RQ(i)), z3.Not(RQ(j))),
                                               D(i) != D(j))))                       # single driver
        st.assume(z3.ForAll([i, j], z3.Implies(z3.And(0 <= j, j <= i, i < N, z3.Not(RQ(i))),
                                               z3.Not(ARGS(j, D(i))))))              # producers first
        st.assume(z3.ForAll([j, v, x, y, m], z3.Implies(z3.Not(ARGS(j, x)),
                                                        SEM(j, z3.Store(v, x, y), m) == SEM(j, v, m))))
        st.assume(z3.ForAll([o, j], z3.Implies(z3.And(ND(o), 0 <= j, j < N, z3.Not(RQ(j))), D(j) != o)))
        regdom = sim.fields['regvalue'].dom
        st.assume(z3.ForAll([o], z3.Implies(z3.Select(regdom, o), ND(o))))     # registers are no comb. dests
        st.assume(ND(a.oid))                                                  # nor are Inputs
        st.assume(z3.Not(z3.Select(regdom, a.oid)))
        mv = sim.fields['memvalue']
        st.assume(z3.ForAll([j], z3.Implies(z3.And(0 <= j, j < NM), z3.Select(mv.dom, g['MID'](j)))))
        va = st.fresh_int('v_a')
        st.assume(M.in_range(va.t, a.fields['bitwidth'].t))
        return NS(self=sim, args=[{'a': va}], a=a, va=va.t, g=g)

    def snapshot(self, I, ns):
        s = ns.self.fields
        g = ns.g
        g['oldmem'], g['olddom2'], g['memdom'] = s['memvalue'].arr, s['memvalue'].dom2, s['memvalue'].dom
        g['oldreg'], g['regdom'] = s['regvalue'].arr, s['regvalue'].dom
        ns.old_value = s['value'].arr

    def post(self, ns):
        import z3
        s, g = ns.self.fields, ns.g
        val = s['value'].arr
        j, o = z3.Int('j!post'), z3.Int('o!post')
        return [
            ('S1 input holds the provided value', z3.Select(val, ns.a.oid) == ns.va),
            ('S2 every register shows its stored value',
             z3.ForAll([o], z3.Implies(z3.Select(g['regdom'], o), z3.Select(val, o) == z3.Select(g['oldreg'], o)))),
            ('S3 every combinational net holds its equation on the final values, reading the old memory',
             z3.ForAll([j], z3.Implies(z3.And(0 <= j, j < g['N'], z3.Not(g['RQ'](j))),
                                       z3.Select(val, g['D'](j)) == g['SEM'](j, val, g['oldmem'])))),
            ('S4 memory == old memory with the enabled writes evaluated on the final values',
             z3.And(s['memvalue'].arr == g['MW'](g['NM']), g['V1'] == val)),
            ('S5 next register values captured from the final values, truncated',
             s['regvalue'].arr == g['RG'](g['NR'])),
            ('S6 the trace receives exactly the final value map', g.get('traced') == val),
            ('S7 rtl assertions are checked on the completed cycle (after the memory writes and the register capture)',
             z3.BoolVal(False) if g.get('at_assert') is None else
             z3.And(g['at_assert'][0] == s['regvalue'].arr, g['at_assert'][1] == s['memvalue'].arr,
                    g['at_assert'][2] == val)),
        ]


# ------------------------------------------------------------------------------ _initialize
def _init_ghost(sim):
    return sim.fields['_ghost']


def _exp_reg(g, o):
    """documented priority: register_value_map > reset_value > default_value"""
    import z3
    return z3.If(z3.Select(g['rvm_dom'], o), z3.Select(g['rvm'], o),
                 z3.If(g['HASRESET'](o), g['RESET'](o), g['default']))


def _init_common(sim, g, o, regs_done, consts_done, others_done):
    """value / regvalue after the first `regs_done` registers, `consts_done` constants and the
    first `others_done` wires of the final sweep have been handled (wires are 0..NW-1)."""
    import z3
    val, reg = sim.fields['value'], sim.fields['regvalue']
    inw = z3.And(0 <= o, o < g['NW'])
    isreg = z3.And(inw, g['KIND'](o) == 4)
    isconst = z3.And(inw, g['KIND'](o) == 3)
    rdone = z3.And(isreg, g['RIDX'](o) < regs_done)
    cdone = z3.And(isconst, g['CIDX'](o) < consts_done)
    odone = z3.And(inw, o < others_done)
    return [
        ('value is defined exactly on the handled wires',
         z3.ForAll([o], z3.Select(val.dom, o) == z3.Or(rdone, cdone, odone))),
        ('handled registers hold map > reset > default in value and regvalue',
         z3.ForAll([o], z3.Implies(rdone, z3.And(z3.Select(val.arr, o) == _exp_reg(g, o),
                                                 z3.Select(reg.arr, o) == _exp_reg(g, o))))),
        ('regvalue is defined exactly on the handled registers',
         z3.ForAll([o], z3.Select(reg.dom, o) == rdone)),
        ('handled constants hold their value',
         z3.ForAll([o], z3.Implies(cdone, z3.Select(val.arr, o) == g['CVAL'](o)))),
        ('other handled wires hold the default',
         z3.ForAll([o], z3.Implies(z3.And(odone, z3.Not(isreg), z3.Not(isconst)),
                                   z3.Select(val.arr, o) == g['default']))),
    ]


def _init_regs_inv(I, fr, k):
    import z3
    sim = fr.lookup('self')
    return _init_common(sim, _init_ghost(sim), z3.Int('o!inv'), k, z3.IntVal(0), z3.IntVal(0))


def _init_consts_inv(I, fr, k):
    import z3
    sim = fr.lookup('self')
    g = _init_ghost(sim)
    return _init_common(sim, g, z3.Int('o!inv'), g['NR'], k, z3.IntVal(0))


def _init_all_inv(I, fr, k):
    import z3
    sim = fr.lookup('self')
    g = _init_ghost(sim)
    return _init_common(sim, g, z3.Int('o!inv'), g['NR'], g['NC'], k)


@register
class Initialize(Contract):
    """Simulation._initialize over a block with symbolically many wires (C01 initial state):
    every Register starts at register_value_map[r] if present, else its reset_value if it has one,
    else default_value (in both `value` and `regvalue`); every Const holds its val; every other
    wire holds default_value; the tracer receives (default_value, regvalue, memvalue).
    The block of this contract has no memories (memory initialisation: bounded families)."""
    module, qualname, props = 'pyrtl.simulation', 'Simulation._initialize', ('C01',)
    invariants = {
        ('Simulation._initialize', 0): ForInv(_init_regs_inv, heap=lambda I, fr: [
            fr.lookup('self').fields['value'], fr.lookup('self').fields['regvalue']]),
        ('Simulation._initialize', 1): ForInv(_init_consts_inv, heap=lambda I, fr: [
            fr.lookup('self').fields['value']]),
        ('Simulation._initialize', 5): ForInv(_init_all_inv, heap=lambda I, fr: [
            fr.lookup('self').fields['value']]),
    }

    @property
    def hooks(self):
        from pyvc.engine import Builtin, Sym, SMap

        def getattr_hook(I_, o, name):
            if name == 'reset_value' and '_oid_reset' in o.fields:
                g = o.fields['_oid_reset']
                if I_.st.branch(g['HASRESET'](o.oid)):
                    return Sym(g['RESET'](o.oid))
                return None
            return NotImplemented

        def deepcopy(I_, a, k):
            x = a[0]
            return x.copy() if isinstance(x, SMap) else x
        return {'getattr': getattr_hook, 'import:copy.deepcopy': Builtin('copy.deepcopy', deepcopy),
                'iter': lambda I_, o: iter(())}

    def setup(self, I, case):
        import z3
        from pyvc.engine import SSeq, Sym, SObj, Builtin, Unsupported
        st = I.st
        Int, Bool = z3.IntSort(), z3.BoolSort()
        n = next(st.n)
        g = dict(KIND=z3.Function('KIND!%d' % n, Int, Int), RIDX=z3.Function('RIDX!%d' % n, Int, Int),
                 CIDX=z3.Function('CIDX!%d' % n, Int, Int), REGSEQ=z3.Function('REGSEQ!%d' % n, Int, Int),
                 CONSTSEQ=z3.Function('CONSTSEQ!%d' % n, Int, Int),
                 HASRESET=z3.Function('HASRESET!%d' % n, Int, Bool),
                 RESET=z3.Function('RESET!%d' % n, Int, Int), CVAL=z3.Function('CVAL!%d' % n, Int, Int),
                 NW=z3.Int('NW!%d' % n), NR=z3.Int('NR!%d' % n), NC=z3.Int('NC!%d' % n))
        NW, NR, NC = g['NW'], g['NR'], g['NC']
        st.assume(z3.And(NW >= 0, NR >= 0, NC >= 0))
        i, j = z3.Ints('i!wf j!wf')
        KIND, RIDX, CIDX, REGSEQ, CONSTSEQ = g['KIND'], g['RIDX'], g['CIDX'], g['REGSEQ'], g['CONSTSEQ']
        # wirevector_subset(cls) enumerates exactly the wires of that class, each once
        for (K, IDX, SEQ, N_) in ((4, RIDX, REGSEQ, NR), (3, CIDX, CONSTSEQ, NC)):
            st.assume(z3.ForAll([i], z3.Implies(z3.And(0 <= i, i < NW, KIND(i) == K),
                                                z3.And(0 <= IDX(i), IDX(i) < N_, SEQ(IDX(i)) == i))))
            st.assume(z3.ForAll([j], z3.Implies(z3.And(0 <= j, j < N_),
                                                z3.And(0 <= SEQ(j), SEQ(j) < NW, KIND(SEQ(j)) == K,
                                                       IDX(SEQ(j)) == j))))
        sim = M.simulation(I)
        sim.fields['value'] = M.partial_map(I, 'value')
        sim.fields['regvalue'] = M.partial_map(I, 'regvalue')
        st.assume(sim.fields['value'].dom == z3.K(Int, False))       # __init__: self.value = {}
        st.assume(sim.fields['regvalue'].dom == z3.K(Int, False))
        st.assume(sim.fields['memvalue'].dom == z3.K(Int, False))
        g['default'] = sim.fields['default_value'].t
        rvm = M.partial_map(I, 'register_value_map')
        g['rvm'], g['rvm_dom'] = rvm.arr, rvm.dom
        sim.fields['_ghost'] = g

        def reg(jx):
            return SObj('Register', {'_oid_reset': g}, oid=REGSEQ(jx))

        def const(jx):
            o = CONSTSEQ(jx)
            return SObj('Const', dict(val=Sym(g['CVAL'](o))), oid=o)

        def anywire(ix):
            return SObj('WireVector', {}, oid=ix)
        blk = SObj('Block', {})

        def wirevector_subset(I_, a, k):
            names = [getattr(c, 'name', None) for c in (a[0] if isinstance(a[0], tuple) else (a[0],))]
            if names == ['Register']:
                return SSeq(NR, reg, 'set')
            if names == ['Const']:
                return SSeq(NC, const, 'set')
            raise Unsupported('wirevector_subset(%r) in the _initialize model' % names)
        blk.fields['wirevector_subset'] = Builtin('Block.wirevector_subset', wirevector_subset)
        blk.fields['wirevector_set'] = SSeq(NW, anywire, 'set')
        blk.fields['logic_subset'] = Builtin('Block.logic_subset(no memories, no nets)', lambda I_, a, k: ())
        sim.fields['block'] = blk
        tracer = SObj('SimulationTrace', {})

        def set_initial(I_, args, k):
            g['traced'] = (args[0], args[1], args[2])
        tracer.fields['_set_initial_values'] = Builtin('SimulationTrace._set_initial_values(ghost)', set_initial)
        sim.fields['tracer'] = tracer
        return NS(self=sim, args=[rvm, {}], g=g)

    def post(self, ns):
        import z3
        from pyvc.engine import term
        sim, g = ns.self, ns.g
        val, reg = sim.fields['value'], sim.fields['regvalue']
        o = z3.Int('o!post')
        inw = z3.And(0 <= o, o < g['NW'])
        isreg = z3.And(inw, g['KIND'](o) == 4)
        isconst = z3.And(inw, g['KIND'](o) == 3)
        tr = g.get('traced')
        return [
            ('every wire of the block has a value', z3.ForAll([o], z3.Implies(inw, z3.Select(val.dom, o)))),
            ('registers: register_value_map > reset_value > default_value',
             z3.ForAll([o], z3.Implies(isreg, z3.And(z3.Select(val.arr, o) == _exp_reg(g, o),
                                                     z3.Select(reg.arr, o) == _exp_reg(g, o),
                                                     z3.Select(reg.dom, o))))),
            ('regvalue holds registers only', z3.ForAll([o], z3.Implies(z3.Select(reg.dom, o), isreg))),
            ('constants hold their val', z3.ForAll([o], z3.Implies(isconst, z3.Select(val.arr, o) == g['CVAL'](o)))),
            ('all other wires hold default_value',
             z3.ForAll([o], z3.Implies(z3.And(inw, z3.Not(isreg), z3.Not(isconst)),
                                       z3.Select(val.arr, o) == g['default']))),
            ('the trace receives default_value and a copy of regvalue',
             z3.BoolVal(False) if tr is None else
             z3.And(term(tr[0]) == g['default'], tr[1].arr == reg.arr, tr[1].dom == reg.dom)),
        ]

    def concrete(self, tier='quick'):
        def mk(mapped, reset, default):
            def thunk():
                import pyrtl
                pyrtl.reset_working_block()
                r = pyrtl.Register(3, 'r', reset_value=reset)
                i = pyrtl.Input(3, 'i')
                w = pyrtl.WireVector(3, 'w')
                w <<= i + 1
                r.next <<= w
                c = [x for x in pyrtl.working_block().wirevector_subset(pyrtl.Const)][0]
                rvm = {} if mapped is None else {r: mapped}
                sim = pyrtl.Simulation(register_value_map=rvm, default_value=default)
                exp = mapped if mapped is not None else (reset if reset is not None else default)
                obs = (sim.value[r], sim.regvalue[r], sim.value[c], sim.value[w], sim.value[i],
                       sim.tracer.init_regvalue.get(r), sim.tracer.default_value)
                want = (exp, exp, c.val, default, default, exp, default)
                return obs == want, obs, want
            return thunk
        for mapped in (None, 0, 5):
            for reset in (None, 0, 2):
                for default in (0, 3):
                    yield ('map=%r,reset=%r,default=%r' % (mapped, reset, default), mk(mapped, reset, default))
