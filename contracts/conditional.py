"""Contract for conditional._finalize (C07): the (predicate, rhs) list of every conditionally
assigned target is folded into a select chain whose value is

    FOLD(0) = default (0 for a wire, the register's own value, or the `defaults` entry)
    FOLD(k+1) = rhs_k if predicate_k else FOLD(k)

for ANY number of branches; memory write ports likewise (enable default 0).  Together with the
exclusion lemma (at most one predicate of a target is 1 - enforced by _check_and_add_pred_set)
the target receives the rhs of its unique active branch, else its default (property statement)."""
from pyvc.contract import Contract, register, ForInv
from pyvc import hl as H
from pyvc.hl import NS
from contracts import wiremodel as W
import contracts.corecircuits   # noqa: F401  (select contract)


def _ghost(fr):
    return fr.lookup('defaults_ghost') if False else None


def _fold_inv(I, fr, k):
    """loop `for p, rhs in predlist`: result carries FOLD(k) at the target's width"""
    import z3
    from pyvc.engine import SObj, Sym, term
    g = I._fin_ghost
    st = I.st
    FOLD, P, R, Wl = g['FOLD'], g['P'], g['R'], g['Wl']
    phase = getattr(I, 'inv_phase', None)
    if phase == 'init':
        # the accumulator is THE loop-carried local, whatever it is called
        if len(I.loop_carried) != 1:
            from pyvc.engine import Unsupported
            raise Unsupported('_finalize: the branch loop carries %r, the contract expects one accumulator '
                              '(function shape changed; contract needs re-anchoring)' % (I.loop_carried,))
        g['acc'] = I.loop_carried[0]
    acc = g['acc']
    if phase in ('assume', 'exit'):
        st.assume(FOLD(z3.IntVal(0)) == g['D0'])
        kk = z3.simplify(k)
        if phase == 'assume':
            st.assume(FOLD(kk + 1) == z3.If(P(kk) != 0, R(kk), FOLD(kk)))
        if st.branch(kk == 0):
            fr.env[acc] = g['init_result']
        else:
            fr.env[acc] = W.new_wire(I, Wl, FOLD(kk), hint='fold')
            st.assume(z3.And(FOLD(kk) >= 0, FOLD(kk) < H.pow2(Wl)))
        return []
    res = fr.env.get(acc)
    if phase == 'init':
        # the value the fold starts from is the documented default
        if isinstance(res, SObj):
            ok = z3.And(W.den_of(res) == g['D0'], W.bw_of(res) == Wl) if res.fields.get('_den') is not None \
                else z3.BoolVal(False)
            same = z3.BoolVal(res is g['init_result'])
            return [('the fold starts from the documented default', z3.And(ok, same))]
        if isinstance(res, (int, Sym)) and not isinstance(res, bool):
            return [('the fold starts from the documented default',
                     z3.And(term(res) == g['D0'], z3.BoolVal(not isinstance(g['init_result'], SObj))))]
        return [('the fold starts from the documented default', z3.BoolVal(False))]
    # preserved: result is whatever the body built
    if not isinstance(res, SObj) or res.fields.get('_den') is None:
        return [('result is a driven wire', z3.BoolVal(False))]
    return [('result has the width of the target', W.bw_of(res) == Wl),
            ('result == FOLD(k+1)', W.den_of(res) == FOLD(z3.simplify(k)))]


def _mem_inv(I, fr, k):
    """loop over the 2nd.. conditional writes of a memory: combined_{enable,addr,data} carry the folds"""
    import z3
    from pyvc.engine import SObj
    g = I._fin_ghost
    st = I.st
    phase = getattr(I, 'inv_phase', None)
    if phase == 'init':
        # the three loop-carried locals are identified by what they hold after the first write (the
        # first element's address wire, its data wire, and the remaining one is the enable), not by name
        from pyvc.engine import Unsupported
        a0, d0 = g['elem0'][1][0], g['elem0'][1][1]
        roles = {}
        for nm in I.loop_carried:
            v = fr.env.get(nm)
            roles['A' if v is a0 else 'D' if v is d0 else 'E' if 'E' not in roles else '?'] = nm
        if len(I.loop_carried) != 3 or set(roles) != {'A', 'D', 'E'}:
            raise Unsupported('_finalize: the memory loop carries %r, the contract expects address/data/enable '
                              'accumulators (function shape changed; contract needs re-anchoring)' % (I.loop_carried,))
        g['roles'] = roles
    roles = g['roles']
    names = ((roles['E'], 'FE', 'E', 1), (roles['A'], 'FA', 'A', g['AW']), (roles['D'], 'FD', 'D', g['DW']))
    label = {roles['E']: 'combined_enable', roles['A']: 'combined_addr', roles['D']: 'combined_data'}
    kk = z3.simplify(k)       # k iterations of the [1:] loop done  <=>  k+1 list elements folded
    if phase in ('assume', 'exit'):
        if phase == 'assume':
            for var, F, X, w in names:
                st.assume(g[F](kk + 2) == z3.If(g['P'](kk + 1) != 0, g[X](kk + 1), g[F](kk + 1)))
        if st.branch(kk == 0):
            for var, F, X, w in names:
                fr.env[var] = g['init_' + var]
        else:
            for var, F, X, w in names:
                fr.env[var] = W.new_wire(I, w, g[F](kk + 1), hint=var)
                st.assume(z3.And(g[F](kk + 1) >= 0, g[F](kk + 1) < H.pow2(w)))
        return []
    if phase == 'init':
        # remember what the first element produced
        for var, F, X, w in names:
            g['init_' + var] = fr.env.get(var)
        out = []
        for var, F, X, w in names:
            v = fr.env.get(var)
            if not isinstance(v, SObj) or v.fields.get('_den') is None:
                return [('first conditional write builds driven wires', z3.BoolVal(False))]
            out.append(('%s after the first write == fold(1)' % label[var], W.den_of(v) == g[F](z3.IntVal(1))))
            out.append(('%s width' % label[var], W.bw_of(v) == w))
        return out
    out = []
    for var, F, X, w in names:
        v = fr.env.get(var)
        if not isinstance(v, SObj) or v.fields.get('_den') is None:
            return [('combined wires are driven', z3.BoolVal(False))]
        out.append(('%s == fold(k+2)' % label[var], W.den_of(v) == g[F](kk + 1)))
        out.append(('%s keeps its width' % label[var], W.bw_of(v) == w))
    return out


@register
class Finalize(Contract):
    module, qualname, props = 'pyrtl.conditional', '_finalize', ('C07',)
    invariants = {('_finalize', 1): ForInv(_mem_inv), ('_finalize', 2): ForInv(_fold_inv)}

    def cases(self):
        return ['wire:nodefault', 'wire:default', 'reg:nodefault', 'reg:default', 'mem']

    @property
    def hooks(self):
        return W.hooks()

    def setup(self, I, case):
        import z3
        from pyvc.engine import SObj, SSeq, Sym, Builtin
        st = I.st
        Int = z3.IntSort()
        n = next(st.n)
        g = dict(P=z3.Function('P!%d' % n, Int, Int), N=z3.Int('N!%d' % n))
        N = g['N']
        I._fin_ghost = g
        cache = {}
        kind = case.split(':')[0]
        defaults = {}
        if kind in ('wire', 'reg'):
            Wl = z3.Int('Wl!%d' % n)
            st.assume(Wl >= 1)
            st.assume(N >= 1)          # a target is in _predicate_map only once something was assigned to it
            g.update(FOLD=z3.Function('FOLD!%d' % n, Int, Int), R=z3.Function('R!%d' % n, Int, Int), Wl=Wl)
            if kind == 'reg':
                q = z3.Int('Q!%d' % n)
                st.assume(z3.And(q >= 0, q < H.pow2(Wl)))
                lhs = W.new_wire(I, Wl, q, cls='Register', hint='lhs')
                g['D0'], g['init_result'] = q, lhs
            else:
                lhs = W.new_wire(I, Wl, None, hint='lhs')
                g['D0'], g['init_result'] = z3.IntVal(0), 0
            if case.endswith(':default'):
                d = W.input_wire(I, 'dflt')
                st.assume(W.bw_of(d) == Wl)
                defaults = {lhs: d}
                g['D0'], g['init_result'] = W.den_of(d), d

            HOLD = z3.Function('HOLD!%d' % n, Int, z3.BoolSort())

            def elem(k):
                key = k.sexpr()
                if key not in cache:
                    st.assume(z3.And(g['P'](k) >= 0, g['P'](k) <= 1, g['R'](k) >= 0, g['R'](k) < H.pow2(Wl)))
                    if kind == 'reg' and st.branch(HOLD(k)):
                        # an explicit hold: the branch assigns the register to itself (r.next |= r)
                        st.assume(g['R'](k) == q)
                        cache[key] = (W.new_wire(I, 1, g['P'](k), hint='p'), lhs)
                    else:
                        cache[key] = (W.new_wire(I, 1, g['P'](k), hint='p'),
                                      W.new_wire(I, Wl, g['R'](k), hint='rhs'))
                return cache[key]
            plist = SSeq(N, elem, 'list')
        else:
            AW, DW = z3.Int('AW!%d' % n), z3.Int('DW!%d' % n)
            st.assume(z3.And(AW >= 1, DW >= 1, N >= 1))
            for f in ('FE', 'FA', 'FD', 'E', 'A', 'D'):
                g[f] = z3.Function('%s!%d' % (f, n), Int, Int)
            g.update(AW=AW, DW=DW)
            lhs = SObj('MemBlock', {})

            def build(I_, a, k):
                g['built'] = tuple(a)
            lhs.fields['_build'] = Builtin('MemBlock._build(ghost)', build)

            def elem(k):
                key = k.sexpr()
                if key not in cache:
                    st.assume(z3.And(g['P'](k) >= 0, g['P'](k) <= 1, g['E'](k) >= 0, g['E'](k) <= 1,
                                     g['A'](k) >= 0, g['A'](k) < H.pow2(AW), g['D'](k) >= 0, g['D'](k) < H.pow2(DW)))
                    cache[key] = (W.new_wire(I, 1, g['P'](k), hint='p'),
                                  (W.new_wire(I, AW, g['A'](k), hint='addr'), W.new_wire(I, DW, g['D'](k), hint='data'),
                                   W.new_wire(I, 1, g['E'](k), hint='en')))
                return cache[key]
            plist = SSeq(N, elem, 'list')
            z = z3.IntVal
            g['elem0'] = elem(z(0))
            st.assume(g['FE'](z(1)) == z3.If(g['P'](z(0)) != 0, g['E'](z(0)), 0))
            st.assume(g['FA'](z(1)) == g['A'](z(0)))
            st.assume(g['FD'](z(1)) == g['D'](z(0)))
        I.hooks['global:_predicate_map'] = {lhs: plist}
        return NS(args=[defaults], lhs=lhs, kind=kind, g=g, I=I)

    def post(self, ns):
        import z3
        from pyvc.engine import SObj
        g, lhs = ns.g, ns.lhs
        N = g['N']
        if ns.kind == 'wire':
            if lhs.fields.get('_den') is None:
                return [('the target is driven', z3.BoolVal(False))]
            return [('target == FOLD(number of branches)', W.den_of(lhs) == g['FOLD'](N))]
        if ns.kind == 'reg':
            nx = lhs.fields.get('_next')
            if nx is None:
                return [('the register next value is driven', z3.BoolVal(False))]
            from pyvc.engine import term
            return [('register.next == FOLD(number of branches)', term(nx) == g['FOLD'](N))]
        b = g.get('built')
        if b is None or len(b) != 3 or not all(isinstance(x, SObj) and x.fields.get('_den') is not None for x in b):
            return [('one write port is built from three driven wires', z3.BoolVal(False))]
        a, d, e = b
        return [('write address == fold of the branch addresses', W.den_of(a) == g['FA'](N)),
                ('write data == fold of the branch data', W.den_of(d) == g['FD'](N)),
                ('write enable == fold of the branch enables (default 0)', W.den_of(e) == g['FE'](N)),
                ('port widths', H.And(W.bw_of(a) == g['AW'], W.bw_of(d) == g['DW'], W.bw_of(e) == 1))]
