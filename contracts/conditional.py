"""Contract for conditional._finalize (C07), taken from the property statement: for ANY number of
conditional assignments (predicate_i, rhs_i) recorded for a target,

    target == rhs_i          if predicate_i is 1        (i is unique: precondition below)
    target == default        if no predicate is 1       (0 for a wire, the register's own value,
                                                         or the `defaults` entry)

memory write ports likewise: address / data / enable of the active write, enable 0 when none is active.
Precondition (what _check_and_add_pred_set enforces; bounded family): at most one predicate of a target
is 1.  The contract does not prescribe HOW the value is built (select chain, and-or, ...): any structure
that delivers the active branch's value verifies."""
from pyvc.contract import Contract, register, ForInv
from pyvc import hl as H
from pyvc.hl import NS
from contracts import wiremodel as W
import contracts.corecircuits   # noqa: F401  (select contract)


def _ghost(fr):
    return fr.lookup('defaults_ghost') if False else None


def _spec(g, k, v, X, dflt):
    """the property statement for one target after the first k branches: v is the value X(i) of the branch
    i < k whose predicate is 1 (unique by the exclusion check), else the default (None: unconstrained)"""
    import z3
    i = z3.Int('i!spec')
    P = g['P']
    cl = [z3.ForAll([i], z3.Implies(z3.And(0 <= i, i < k, P(i) != 0), v == X(i)))]
    if dflt is not None:
        cl.append(z3.Implies(z3.ForAll([i], z3.Implies(z3.And(0 <= i, i < k), P(i) == 0)), v == dflt))
    return z3.And(*cl)


def _fold_inv(I, fr, k):
    """loop `for p, rhs in predlist`: result carries the value the property demands for the first k
    branches, at the target's width"""
    import z3
    from pyvc.engine import SObj, Sym, term
    g = I._fin_ghost
    st = I.st
    R, Wl = g['R'], g['Wl']
    WR = g.get('WR', Wl)           # width of the accumulator: the target's, or a wider default's
    phase = getattr(I, 'inv_phase', None)
    if phase == 'init':
        # the accumulator is THE loop-carried local, whatever it is called
        if len(I.loop_carried) != 1:
            from pyvc.engine import Unsupported
            raise Unsupported('_finalize: the branch loop carries %r, the contract expects one accumulator '
                              '(function shape changed; contract needs re-anchoring)' % (I.loop_carried,))
        g['acc'] = I.loop_carried[0]
    acc = g['acc']
    if phase in ('assume', 'exit'):
        kk = z3.simplify(k)
        if st.branch(kk == 0):
            fr.env[acc] = g['init_result']
        else:
            v = z3.Int('acc!%d' % next(st.n))
            fr.env[acc] = W.new_wire(I, WR, v, hint='acc')
            st.assume(z3.And(v >= 0, v < H.pow2(WR)))
            st.assume(_spec(g, kk, v, R, g['D0']))
        return []
    res = fr.env.get(acc)
    if phase == 'init':
        # the value the loop starts from is the documented default
        if isinstance(res, SObj):
            ok = z3.And(W.den_of(res) == g['D0'], W.bw_of(res) == g.get('WD0', Wl)) if res.fields.get('_den') is not None \
                else z3.BoolVal(False)
            same = z3.BoolVal(res is g['init_result'])
            return [('the fold starts from the documented default', z3.And(ok, same))]
        if isinstance(res, (int, Sym)) and not isinstance(res, bool):
            return [('the fold starts from the documented default',
                     z3.And(term(res) == g['D0'], z3.BoolVal(not isinstance(g['init_result'], SObj))))]
        return [('the fold starts from the documented default', z3.BoolVal(False))]
    # preserved: result is whatever the body built
    if not isinstance(res, SObj) or res.fields.get('_den') is None:
        return [('result is a driven wire', z3.BoolVal(False))]
    return [('result has the width of the target (or of a wider default)', W.bw_of(res) == WR),
            ('result == value of the active branch among the first k+1, else the default',
             _spec(g, z3.simplify(k), W.den_of(res), R, g['D0']))]


def _mem_inv(I, fr, k):
    """loop over the 2nd.. conditional writes of a memory: the three accumulators carry address / data /
    enable of the active branch among those seen so far; enable 0 when none is active"""
    import z3
    from pyvc.engine import SObj
    g = I._fin_ghost
    st = I.st
    phase = getattr(I, 'inv_phase', None)
    if phase == 'init':
        # the three loop-carried locals are identified by what they hold after the first write (the
        # first element's address wire, its data wire, and the remaining one is the enable), not by name
        from pyvc.engine import Unsupported
        a0, d0 = g['elem0'][1][0], g['elem0'][1][1]
        roles = {}
        for nm in I.loop_carried:
            v = fr.env.get(nm)
            roles['A' if v is a0 else 'D' if v is d0 else 'E' if 'E' not in roles else '?'] = nm
        if len(I.loop_carried) != 3 or set(roles) != {'A', 'D', 'E'}:
            raise Unsupported('_finalize: the memory loop carries %r, the contract expects address/data/enable '
                              'accumulators (function shape changed; contract needs re-anchoring)' % (I.loop_carried,))
        g['roles'] = roles
    roles = g['roles']
    names = ((roles['E'], 'E', 1, z3.IntVal(0)), (roles['A'], 'A', g['AW'], None), (roles['D'], 'D', g['DW'], None))
    label = {roles['E']: 'combined_enable', roles['A']: 'combined_addr', roles['D']: 'combined_data'}
    kk = z3.simplify(k)       # k iterations of the [1:] loop done  <=>  k+1 list elements seen
    if phase in ('assume', 'exit'):
        if st.branch(kk == 0):
            for var, X, w, dflt in names:
                fr.env[var] = g['init_' + var]
        else:
            for var, X, w, dflt in names:
                v = z3.Int('%s!%d' % (label[var], next(st.n)))
                fr.env[var] = W.new_wire(I, w, v, hint=var)
                st.assume(z3.And(v >= 0, v < H.pow2(w)))
                st.assume(_spec(g, kk + 1, v, g[X], dflt))
        return []
    if phase == 'init':
        # remember what the first element produced
        for var, X, w, dflt in names:
            g['init_' + var] = fr.env.get(var)
    out = []
    for var, X, w, dflt in names:
        v = fr.env.get(var)
        if not isinstance(v, SObj) or v.fields.get('_den') is None:
            return [('conditional writes build driven wires', z3.BoolVal(False))]
        out.append(('%s == value of the active write among those seen, enable 0 if none' % label[var],
                    _spec(g, kk + 1, W.den_of(v), g[X], dflt)))
        out.append(('%s keeps its width' % label[var], W.bw_of(v) == w))
    return out


@register
class Finalize(Contract):
    module, qualname, props = 'pyrtl.conditional', '_finalize', ('C07',)
    # the fold invariant is offered to every later loop of the function: a second loop over the branch list
    # (e.g. a special case for some targets) must establish the same fold
    invariants = {('_finalize', 1): ForInv(_mem_inv), ('_finalize', 2): ForInv(_fold_inv),
                  ('_finalize', 3): ForInv(_fold_inv), ('_finalize', 4): ForInv(_fold_inv)}

    def cases(self):
        return ['wire:nodefault', 'wire:default', 'reg:nodefault', 'reg:default', 'mem',
                'wire:anydefault', 'reg:anydefault']

    @property
    def hooks(self):
        return W.hooks()

    def setup(self, I, case):
        import z3
        from pyvc.engine import SObj, SSeq, Sym, Builtin
        st = I.st
        Int = z3.IntSort()
        n = next(st.n)
        g = dict(P=z3.Function('P!%d' % n, Int, Int), N=z3.Int('N!%d' % n))
        N = g['N']
        I._fin_ghost = g
        ii, jj = z3.Ints('i!ex j!ex')
        # exclusion (established by _check_and_add_pred_set): at most one predicate of the target is 1
        st.assume(z3.ForAll([ii, jj], z3.Implies(z3.And(0 <= ii, ii < jj, jj < N),
                                                 z3.Not(z3.And(g['P'](ii) != 0, g['P'](jj) != 0)))))
        cache = {}
        kind = case.split(':')[0]
        defaults = {}
        if kind in ('wire', 'reg'):
            Wl = z3.Int('Wl!%d' % n)
            st.assume(Wl >= 1)
            st.assume(N >= 1)          # a target is in _predicate_map only once something was assigned to it
            g.update(R=z3.Function('R!%d' % n, Int, Int), Wl=Wl)
            if kind == 'reg':
                q = z3.Int('Q!%d' % n)
                st.assume(z3.And(q >= 0, q < H.pow2(Wl)))
                lhs = W.new_wire(I, Wl, q, cls='Register', hint='lhs')
                g['D0'], g['init_result'] = q, lhs
            else:
                lhs = W.new_wire(I, Wl, None, hint='lhs')
                g['D0'], g['init_result'] = z3.IntVal(0), 0
            if case.endswith(':default'):
                d = W.input_wire(I, 'dflt')
                st.assume(W.bw_of(d) == Wl)
                defaults = {lhs: d}
                g['D0'], g['init_result'] = W.den_of(d), d
            if case.endswith(':anydefault'):
                # a default of ANY width: the target gets its low bits (`<<=` truncates), branches are unaffected
                d = W.input_wire(I, 'dflt')
                WD = W.bw_of(d)
                defaults = {lhs: d}
                g['D0'], g['init_result'] = W.den_of(d), d
                g['WD0'] = WD
                g['WR'] = z3.If(WD > Wl, WD, Wl)
                g['D0post'] = z3.If(WD > Wl, H.mod(W.den_of(d), H.pow2(Wl)), W.den_of(d))
                kq = z3.Int('k!rw')
                st.assume(z3.ForAll([kq], z3.And(g['R'](kq) >= 0, g['R'](kq) < H.pow2(Wl))))   # rhs wires: Wl bits

            HOLD = z3.Function('HOLD!%d' % n, Int, z3.BoolSort())

            def elem(k):
                key = k.sexpr()
                if key not in cache:
                    st.assume(z3.And(g['P'](k) >= 0, g['P'](k) <= 1, g['R'](k) >= 0, g['R'](k) < H.pow2(Wl)))
                    if kind == 'reg' and st.branch(HOLD(k)):
                        # an explicit hold: the branch assigns the register to itself (r.next |= r)
                        st.assume(g['R'](k) == q)
                        cache[key] = (W.new_wire(I, 1, g['P'](k), hint='p'), lhs)
                    else:
                        cache[key] = (W.new_wire(I, 1, g['P'](k), hint='p'),
                                      W.new_wire(I, Wl, g['R'](k), hint='rhs'))
                return cache[key]
            plist = SSeq(N, elem, 'list')
        else:
            AW, DW = z3.Int('AW!%d' % n), z3.Int('DW!%d' % n)
            st.assume(z3.And(AW >= 1, DW >= 1, N >= 1))
            for f in ('E', 'A', 'D'):
                g[f] = z3.Function('%s!%d' % (f, n), Int, Int)
            g.update(AW=AW, DW=DW)
            lhs = SObj('MemBlock', {})

            def build(I_, a, k):
                g['built'] = tuple(a)
            lhs.fields['_build'] = Builtin('MemBlock._build(ghost)', build)

            def elem(k):
                key = k.sexpr()
                if key not in cache:
                    st.assume(z3.And(g['P'](k) >= 0, g['P'](k) <= 1, g['E'](k) >= 0, g['E'](k) <= 1,
                                     g['A'](k) >= 0, g['A'](k) < H.pow2(AW), g['D'](k) >= 0, g['D'](k) < H.pow2(DW)))
                    cache[key] = (W.new_wire(I, 1, g['P'](k), hint='p'),
                                  (W.new_wire(I, AW, g['A'](k), hint='addr'), W.new_wire(I, DW, g['D'](k), hint='data'),
                                   W.new_wire(I, 1, g['E'](k), hint='en')))
                return cache[key]
            plist = SSeq(N, elem, 'list')
            z = z3.IntVal
            g['elem0'] = elem(z(0))
        I.hooks['global:_predicate_map'] = {lhs: plist}
        return NS(args=[defaults], lhs=lhs, kind=kind, g=g, I=I)

    def post(self, ns):
        import z3
        from pyvc.engine import SObj
        g, lhs = ns.g, ns.lhs
        N = g['N']
        if ns.kind == 'wire':
            if lhs.fields.get('_den') is None:
                return [('the target is driven', z3.BoolVal(False))]
            return [('target == rhs of the active branch, else the default', _spec(g, N, W.den_of(lhs), g['R'], g.get('D0post', g['D0'])))]
        if ns.kind == 'reg':
            nx = lhs.fields.get('_next')
            if nx is None:
                return [('the register next value is driven', z3.BoolVal(False))]
            from pyvc.engine import term
            return [('register.next == rhs of the active branch, else the default',
                     _spec(g, N, term(nx), g['R'], g.get('D0post', g['D0'])))]
        b = g.get('built')
        if b is None or len(b) != 3 or not all(isinstance(x, SObj) and x.fields.get('_den') is not None for x in b):
            return [('one write port is built from three driven wires', z3.BoolVal(False))]
        a, d, e = b
        return [('write address == address of the active write', _spec(g, N, W.den_of(a), g['A'], None)),
                ('write data == data of the active write', _spec(g, N, W.den_of(d), g['D'], None)),
                ('write enable == enable of the active write, 0 when no branch is active',
                 _spec(g, N, W.den_of(e), g['E'], z3.IntVal(0))),
                ('port widths', H.And(W.bw_of(a) == g['AW'], W.bw_of(d) == g['DW'], W.bw_of(e) == 1))]
