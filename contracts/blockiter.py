"""Contract for core.Block.__iter__ (C10, second half: API-built designs iterate in dependency order), over a
symbolic netlist of ANY size and for EVERY tie-break of the worklist (`to_clear.pop()` returns an arbitrary
member, the user lists of `net_connections` are arbitrary sequences):

  (A) whenever a net is yielded, each of its argument wires is an Input / Const / Register or the
      destination of a non-register net that was yielded earlier  ("all parents have been returned");
  (B) if the iteration completes without an exception, every net of the block has been yielded.

The only exception it may raise is PyrtlError (malformed block / combinational loop).

Model (ghost functions over net indices 0..N-1 and wire identities): NA(j) / A(j, t) arguments, HASD(j) / D(j)
destination, ISR(j) the net is a register net, SRC(o) the wire is an Input / Const / Register, HASP(o) / PROD(o)
the driver map (net_connections' first dictionary), HASU(o) / NU(o) / USERS(o, i) the user lists (its second
dictionary).  Python sets of wires / nets are membership arrays; `pop` returns an arbitrary member, `remove`
of a non-member raises KeyError.  Assumed of net_connections (bounded family / sanity_check): every listed
user is a net of the block, and the driver of a net's destination is that net."""
from pyvc.contract import Contract, register, ForInv
from pyvc.hl import NS
from contracts.trace import _StoreHeap


def _arg_ok(g, store, o):
    import z3
    return z3.Or(g['SRC'](o), z3.And(g['HASP'](o), z3.Select(store['yielded'], g['PROD'](o)),
                                     z3.Not(g['ISR'](g['PROD'](o)))))


def _inv_clauses(g):
    import z3
    store = g['store']
    o, j = z3.Ints('o!bi j!bi')
    return [
        ('every cleared or pending wire is a source or the destination of a yielded non-register net',
         z3.ForAll([o], z3.Implies(z3.Or(z3.Select(store['cleared'], o), z3.Select(store['to_clear'], o)),
                                   _arg_ok(g, store, o)))),
        ('a net that left `remaining` has been yielded',
         z3.ForAll([j], z3.Implies(z3.And(0 <= j, j < g['N'], z3.Not(z3.Select(store['remaining'], j))),
                                   z3.Select(store['yielded'], j)))),
        ('`remaining` holds nets of the block only',
         z3.ForAll([j], z3.Implies(z3.Select(store['remaining'], j), z3.And(0 <= j, j < g['N'])))),
    ]


def _outer_inv(I, fr, k):
    return _inv_clauses(fr.lookup('self').fields['_ghost'])


def _inner_inv(I, fr, k):
    return _inv_clauses(fr.lookup('self').fields['_ghost'])


def _heaps(I, fr):
    return fr.lookup('self').fields['_ghost']['heaps']


@register
class BlockIter(Contract):
    module, qualname, props = 'pyrtl.core', 'Block.__iter__', ('C10',)
    invariants = {('Block.__iter__', 0): ForInv(_outer_inv, heap=_heaps),
                  ('Block.__iter__', 1): ForInv(_inner_inv, heap=_heaps)}

    def may_raise(self, ns):
        return ['PyrtlError']

    @property
    def hooks(self):
        import z3
        from pyvc.engine import Builtin, Sym, SObj

        def contains(I_, container, x):
            g = container.fields.get('_ghost')
            if container.cls == 'symset':
                return Sym(z3.Select(g['store'][container.fields['_key']], I_.key_term(x)))
            if container.cls == 'userdict':
                return Sym(g['HASU'](I_.key_term(x)))
            from pyvc.engine import Unsupported
            raise Unsupported('membership in %r' % (container,))

        def do_yield(I_, val, fr):
            g = fr.lookup('self').fields['_ghost']
            store = g['store']
            gi = val.oid
            t = z3.Int('t!y%d' % next(I_.st.n))
            I_.st.vc('yield:the yielded value is a net of the block', z3.And(0 <= gi, gi < g['N']), kind='post')
            I_.st.vc('yield:every argument of the yielded net is a source or was produced by an earlier yielded net',
                     z3.ForAll([t], z3.Implies(z3.And(0 <= t, t < g['NA'](gi)), _arg_ok(g, store, g['A'](gi, t)))),
                     kind='post')
            store['yielded'] = z3.Store(store['yielded'], gi, True)
        return {'contains': contains, 'yield': do_yield,
                'global:set': Builtin('set(model: membership array)', lambda I_, a, k: self._new_set(I_, a)),
                'import:pyrtl.helperfuncs.find_and_print_loop': Builtin('find_and_print_loop(stub)', lambda I_, a, k: None)}

    def _new_set(self, I, a):
        import z3
        from pyvc.engine import Unsupported
        if a:
            raise Unsupported('set(iterable) in the Block.__iter__ model')
        g = self._g
        key = 'cleared' if 'cleared' not in g['store'] else 'set%d' % next(I.st.n)
        g['store'][key] = z3.K(z3.IntSort(), False)
        g['heaps'].append(_StoreHeap(g['store'], key, None))
        return _symset(I, g, key)

    def setup(self, I, case):
        import z3
        from pyvc.engine import SObj, SSeq, Sym, Builtin
        st = I.st
        Int, Bool = z3.IntSort(), z3.BoolSort()
        AB = z3.ArraySort(Int, Bool)
        n = next(st.n)
        F = z3.Function
        g = dict(N=z3.Int('N!%d' % n), NA=F('NA!%d' % n, Int, Int), A=F('A!%d' % n, Int, Int, Int),
                 HASD=F('HASD!%d' % n, Int, Bool), D=F('D!%d' % n, Int, Int), ISR=F('ISR!%d' % n, Int, Bool),
                 SRC=F('SRC!%d' % n, Int, Bool), HASP=F('HASP!%d' % n, Int, Bool), PROD=F('PROD!%d' % n, Int, Int),
                 HASU=F('HASU!%d' % n, Int, Bool), NU=F('NU!%d' % n, Int, Int), USERS=F('USERS!%d' % n, Int, Int, Int))
        self._g = g
        N = g['N']
        st.assume(N >= 0)
        o, j, i = z3.Ints('o!wf j!wf i!wf')
        store = dict(
            to_clear=z3.Lambda([o], g['SRC'](o)),
            remaining=z3.K(Int, False),
            yielded=z3.K(Int, False),
            logic=z3.Lambda([j], z3.And(0 <= j, j < N)))
        g['store'] = store
        g['heaps'] = [_StoreHeap(store, k_, None) for k_ in ('to_clear', 'remaining', 'yielded')]
        # net_connections: listed users are nets of the block; the driver of a net's destination is that net
        st.assume(z3.ForAll([o, i], z3.Implies(z3.And(g['HASU'](o), 0 <= i, i < g['NU'](o)),
                                               z3.And(0 <= g['USERS'](o, i), g['USERS'](o, i) < N))))
        st.assume(z3.ForAll([j], z3.Implies(z3.And(0 <= j, j < N, g['HASD'](j)),
                                            z3.And(g['HASP'](g['D'](j)), g['PROD'](g['D'](j)) == j))))
        st.assume(z3.ForAll([o], g['NU'](o) >= 0))
        st.assume(z3.ForAll([j], g['NA'](j) >= 0))

        def wire(oid):
            return SObj('WireVector', {}, oid=oid)

        def gate(gi):
            isr = st.branch(g['ISR'](gi))
            hasd = st.branch(g['HASD'](gi))
            return SObj('LogicNet', dict(op='r' if isr else 'g',
                                         args=SSeq(g['NA'](gi), lambda t: wire(g['A'](gi, t)), 'tuple'),
                                         dests=(wire(g['D'](gi)),) if hasd else ()), oid=gi)
        users = SObj('userdict', {'_ghost': g})
        users.fields['__getitem__'] = Builtin(
            'net_connections()[1][wire] (ghost user list)',
            lambda I_, a, k: SSeq(g['NU'](a[0].oid), lambda i_, w=a[0]: gate(g['USERS'](w.oid, i_)), 'list'))
        blk = SObj('Block', {'_ghost': g})
        blk.fields['net_connections'] = Builtin('Block.net_connections(ghost driver / user maps)',
                                                lambda I_, a, k: (SObj('driverdict', {'_ghost': g}), users))
        blk.fields['wirevector_subset'] = Builtin('Block.wirevector_subset(ghost: the source wires)',
                                                  lambda I_, a, k: _symset(I_, g, 'to_clear'))
        blk.fields['logic'] = _symset(I, g, 'logic')
        return NS(self=blk, args=[], g=g)

    def post(self, ns):
        import z3
        g = ns.g
        j = z3.Int('j!po')
        return [('on completion every net of the block has been yielded',
                 z3.ForAll([j], z3.Implies(z3.And(0 <= j, j < g['N']), z3.Select(g['store']['yielded'], j))))]

    def concrete(self, tier='quick'):
        def mk(name, params):
            def thunk():
                import pyrtl
                from fam import designs
                block = designs.build({'name': name, 'params': params})
                seen_dests = set(block.wirevector_subset((pyrtl.Input, pyrtl.Const, pyrtl.Register)))
                count = 0
                for net in block:
                    count += 1
                    for a in net.args:
                        if a not in seen_dests:
                            return False, ('net yielded before the producer of %s' % a.name), 'dependency order'
                    if net.op != 'r':
                        seen_dests.update(net.dests)
                if count != len(block.logic):
                    return False, ('yielded', count), ('nets', len(block.logic))
                return True, 'ok', 'ok'
            return thunk
        for name, params in (('mixed_alu', {'w': 3}), ('counter', {'w': 3}), ('mem_rw', {}), ('reg_swap', {'w': 2}),
                             ('fanout', {'w': 2, 'n': 5}), ('repeat_args', {'w': 2}), ('wire_chain', {'w': 3}),
                             ('shared_subexp', {'w': 3})):
            yield ('%s %s' % (name, params), mk(name, params))


def _symset(I, g, key):
    """a Python set of wires / nets as a membership array held in the ghost store under `key`"""
    import z3
    from pyvc.engine import SObj, Builtin, Sym, RaiseSig, SSeq, Unsupported
    st = I.st
    store = g['store']
    o = SObj('symset', {'_ghost': g, '_key': key})

    def pop(I_, a, k):
        x = z3.Int('x!pop%d' % next(I_.st.n))
        if not I_.st.branch(z3.Exists([x], z3.Select(store[key], x))):
            raise RaiseSig('KeyError')
        e = z3.Int('e!pop%d' % next(I_.st.n))
        I_.st.assume(z3.Select(store[key], e))
        store[key] = z3.Store(store[key], e, False)
        return SObj('WireVector', {}, oid=e)

    def add(I_, a, k):
        store[key] = z3.Store(store[key], I_.key_term(a[0]), True)

    def update(I_, a, k):
        items = a[0]
        if isinstance(items, SSeq):
            raise Unsupported('set.update with a sequence of symbolic length')
        for it in items:
            store[key] = z3.Store(store[key], I_.key_term(it), True)

    def remove(I_, a, k):
        kt = I_.key_term(a[0])
        if not I_.st.branch(z3.Select(store[key], kt)):
            raise RaiseSig('KeyError')
        store[key] = z3.Store(store[key], kt, False)

    def copy(I_, a, k):
        nk = 'remaining' if key == 'logic' else '%s_copy%d' % (key, next(I_.st.n))
        store[nk] = store[key]
        if nk not in [h.key for h in g['heaps']]:
            g['heaps'].append(__import__('contracts.trace', fromlist=['_StoreHeap'])._StoreHeap(store, nk, None))
        return _symset(I_, g, nk)

    def length(I_, a, k):
        n = next(I_.st.n)
        L, w, x = z3.Int('len!%d' % n), z3.Int('wit!%d' % n), z3.Int('x!len%d' % n)
        I_.st.assume(L >= 0)
        I_.st.assume(z3.Implies(L == 0, z3.ForAll([x], z3.Not(z3.Select(store[key], x)))))
        I_.st.assume(z3.Implies(L > 0, z3.Select(store[key], w)))
        return Sym(L)
    o.fields.update(pop=Builtin('set.pop', pop), add=Builtin('set.add', add), update=Builtin('set.update', update),
                    remove=Builtin('set.remove', remove), copy=Builtin('set.copy', copy),
                    __len__=Builtin('set.__len__', length))
    return o
