"""Contracts for the observation channel of Simulation (C15): SimulationTrace.add_step and
Simulation.inspect over a trace with symbolically many traced names.

    add_step(value_map):  every traced name n gets exactly one new last entry, value_map[_wires[n]];
                          all earlier entries of every list are unchanged; PyrtlError iff nothing is traced.
    inspect(w):           self.value[block.wirevector_by_name.get(w, w)]

Together with step's proved phase clause S6 ("the trace receives exactly the final value map",
contracts/simulation.py) this gives: after every step, inspect(w) == trace[w][-1], and the length of
every trace list == number of steps (lemma `inspect_is_last_trace_entry` below, over the contracts).

Model: the trace storage is a mapping from names (abstract objects NAME(i), pairwise distinct, i < NT) to
lists; a list is (LEN[name], CONT[name][index]); `self._wires` maps a name to its wire W(name)."""
from pyvc.contract import Contract, register, ForInv
from pyvc.hl import NS


def _inv(I, fr, k):
    import z3
    tr = fr.lookup('self')
    g = tr.fields['_ghost']
    i, x = z3.Ints('i!tr x!tr')
    LEN, CONT = g['store']['LEN'], g['store']['CONT']
    L0, C0, NAME, W, VM = g['L0'], g['C0'], g['NAME'], g['W'], g['VM']
    nm = NAME(i)
    return [
        ('handled names got exactly one new entry: the value of their wire',
         z3.ForAll([i], z3.Implies(z3.And(0 <= i, i < k),
                                   z3.And(z3.Select(LEN, nm) == z3.Select(L0, nm) + 1,
                                          z3.Select(z3.Select(CONT, nm), z3.Select(L0, nm)) == z3.Select(VM, W(nm)))))),
        ('names not handled yet are untouched',
         z3.ForAll([i], z3.Implies(z3.And(k <= i, i < g['NT']),
                                   z3.And(z3.Select(LEN, nm) == z3.Select(L0, nm),
                                          z3.Select(CONT, nm) == z3.Select(C0, nm))))),
        ('earlier entries of every list are unchanged',
         z3.ForAll([i, x], z3.Implies(z3.And(0 <= i, i < g['NT'], 0 <= x, x < z3.Select(L0, nm)),
                                      z3.Select(z3.Select(CONT, nm), x) == z3.Select(z3.Select(C0, nm), x)))),
    ]


def _havoc_store(I, fr):
    return []


class _StoreHeap(object):
    """adapter: lets ForInv havoc the ghost arrays of the trace storage like a map object"""

    def __init__(self, store, key, sort):
        self.store, self.key, self.sort = store, key, sort
        self.dom = None
        self.dom2 = None

    @property
    def arr(self):
        return self.store[self.key]

    @arr.setter
    def arr(self, v):
        self.store[self.key] = v


@register
class AddStep(Contract):
    module, qualname, props = 'pyrtl.simulation', 'SimulationTrace.add_step', ('C15',)
    invariants = {('SimulationTrace.add_step', 0): ForInv(
        _inv, heap=lambda I, fr: fr.lookup('self').fields['_ghost']['heaps'])}

    @property
    def hooks(self):
        def iterseq(I_, o):
            return o.fields.get('_keys') if o.cls == 'TraceStorage' else None
        return {'iterseq': iterseq}

    def setup(self, I, case):
        import z3
        from pyvc.engine import SObj, SSeq, Sym, Builtin, SMap, term
        st = I.st
        Int = z3.IntSort()
        A = z3.ArraySort(Int, Int)
        AA = z3.ArraySort(Int, A)
        n = next(st.n)
        store = dict(LEN=z3.Const('LEN!%d' % n, A), CONT=z3.Const('CONT!%d' % n, AA))
        g = dict(store=store, NAME=z3.Function('NAME!%d' % n, Int, Int), W=z3.Function('W!%d' % n, Int, Int),
                 NT=z3.Int('NT!%d' % n), VM=z3.Const('VM!%d' % n, A))
        g['L0'], g['C0'] = store['LEN'], store['CONT']
        g['heaps'] = [_StoreHeap(store, 'LEN', A), _StoreHeap(store, 'CONT', AA)]
        NT, NAME = g['NT'], g['NAME']
        st.assume(NT >= 0)
        i, j = z3.Ints('i!wf j!wf')
        st.assume(z3.ForAll([i, j], z3.Implies(z3.And(0 <= i, i < j, j < NT), NAME(i) != NAME(j))))   # mapping keys
        st.assume(z3.ForAll([i], z3.Select(store['LEN'], i) >= 0))

        def name(k):
            return SObj('str', {}, oid=NAME(k))

        def tracelist(nm):
            def append(I_, a, k):
                ln = z3.Select(store['LEN'], nm.oid)
                store['CONT'] = z3.Store(store['CONT'], nm.oid, z3.Store(z3.Select(store['CONT'], nm.oid), ln, term(a[0])))
                store['LEN'] = z3.Store(store['LEN'], nm.oid, ln + 1)
            return SObj('list', {'append': Builtin('list.append(ghost: LEN / CONT)', append)})
        trace = SObj('TraceStorage', {
            '_keys': SSeq(NT, name, 'tuple'),
            '__len__': Builtin('TraceStorage.__len__', lambda I_, a, k: Sym(NT)),
            '__getitem__': Builtin('TraceStorage.__getitem__', lambda I_, a, k: tracelist(a[0]))})
        wires = SObj('dict', {'__getitem__': Builtin(
            'dict.__getitem__(name -> wire)', lambda I_, a, k: SObj('WireVector', {}, oid=g['W'](a[0].oid)))})
        tr = SObj('SimulationTrace', dict(trace=trace, _wires=wires, _ghost=g))
        vm = SMap(g['VM'])
        return NS(self=tr, args=[vm], g=g)

    def raises(self, ns):
        return [('PyrtlError', ns.g['NT'] == 0)]

    def post(self, ns):
        import z3
        g = ns.g
        i, x = z3.Ints('i!po x!po')
        LEN, CONT = g['store']['LEN'], g['store']['CONT']
        L0, C0, NAME, W, VM = g['L0'], g['C0'], g['NAME'], g['W'], g['VM']
        nm = NAME(i)
        inr = z3.And(0 <= i, i < g['NT'])
        return [
            ('every trace list grows by exactly one entry',
             z3.ForAll([i], z3.Implies(inr, z3.Select(LEN, nm) == z3.Select(L0, nm) + 1))),
            ('the new last entry of a name is the value of its wire',
             z3.ForAll([i], z3.Implies(inr, z3.Select(z3.Select(CONT, nm), z3.Select(LEN, nm) - 1)
                                       == z3.Select(VM, W(nm))))),
            ('earlier entries are unchanged',
             z3.ForAll([i, x], z3.Implies(z3.And(inr, 0 <= x, x < z3.Select(L0, nm)),
                                          z3.Select(z3.Select(CONT, nm), x) == z3.Select(z3.Select(C0, nm), x)))),
        ]

    def concrete(self, tier='quick'):
        def mk(nw, steps):
            def thunk():
                import pyrtl
                pyrtl.reset_working_block()
                ins = [pyrtl.Input(3, 'i%d' % k) for k in range(nw)]
                acc = ins[0]
                for k, w in enumerate(ins[1:]):
                    acc = (acc + w)[:3]
                o = pyrtl.Output(3, 'o')
                o <<= acc
                sim = pyrtl.Simulation()
                tr = sim.tracer
                for s in range(steps):
                    before = {n: list(v) for n, v in tr.trace.items()}
                    vals = {'i%d' % k: (s * 3 + k * 5) % 8 for k in range(nw)}
                    sim.step(vals)
                    for n in tr.trace:
                        lst = tr.trace[n]
                        if len(lst) != len(before[n]) + 1 or lst[:-1] != before[n] or lst[-1] != sim.inspect(n):
                            return False, (n, lst), (before[n], sim.inspect(n))
                        if len(lst) != s + 1:
                            return False, (n, len(lst)), s + 1
                return True, 'ok', 'ok'
            return thunk
        for nw in (1, 2, 4):
            for steps in (1, 3, 6):
                yield ('wires=%d steps=%d' % (nw, steps), mk(nw, steps))


@register
class AddFastStep(AddStep):
    """SimulationTrace.add_fast_step(fastsim): the same, the new entry of name n is fastsim.context[n]
    (the trace channel of FastSimulation); here W is the identity on names"""
    qualname = 'SimulationTrace.add_fast_step'
    invariants = {('SimulationTrace.add_fast_step', 0): ForInv(
        _inv, heap=lambda I, fr: fr.lookup('self').fields['_ghost']['heaps'])}

    def setup(self, I, case):
        import z3
        from pyvc.engine import SObj, SMap
        ns = AddStep.setup(self, I, case)
        g = ns.g
        x = z3.Int('x!fs')
        I.st.assume(z3.ForAll([x], g['W'](x) == x))
        fast = SObj('FastSimulation', dict(context=SMap(g['VM'])))
        ns.args = [fast]
        return ns

    def raises(self, ns):
        return []          # an empty trace is not refused on this path (nothing to append)

    def concrete(self, tier='quick'):
        return iter(())


@register
class Inspect(Contract):
    """Simulation.inspect(w) == self.value[wire named w] (w a name of the block, or the wire itself)"""
    module, qualname, props = 'pyrtl.simulation', 'Simulation.inspect', ('C15',)

    def cases(self):
        return ['name', 'wire']

    def setup(self, I, case):
        import z3
        from pyvc.engine import SObj, SMap, Builtin
        st = I.st
        n = next(st.n)
        A = z3.ArraySort(z3.IntSort(), z3.IntSort())
        val = SMap(z3.Const('value!%d' % n, A))
        wire = SObj('WireVector', {}, oid=z3.Int('w!%d' % n))
        by_name = {'a': wire}
        blk = SObj('Block', dict(wirevector_by_name=by_name))
        sim = SObj('Simulation', dict(block=blk, value=val))
        arg = 'a' if case == 'name' else wire
        return NS(self=sim, args=[arg], wire=wire, val=val.arr)

    def post(self, ns):
        import z3
        from pyvc.engine import term
        return [('inspect returns the value the simulator holds for the wire',
                 term(ns.result) == z3.Select(ns.val, ns.wire.oid))]


def inspect_is_last_trace_entry():
    """Lemma over the contracts: with traced == final value map (step S6), add_step's postcondition and
    inspect's postcondition give inspect(n) == trace[n][-1] and len(trace[n]) == old len + 1."""
    import z3
    from pyvc.engine import VC
    Int = z3.IntSort()
    A = z3.ArraySort(Int, Int)
    AA = z3.ArraySort(Int, A)
    LEN, L0, VM, VAL = z3.Consts('LEN L0 VM VAL', A)
    CONT = z3.Const('CONT', AA)
    NAME = z3.Function('NAME', Int, Int)
    W = z3.Function('W', Int, Int)
    NT, i, k = z3.Ints('NT i k')
    nm = NAME(i)
    inr = z3.And(0 <= i, i < NT)
    pc = [
        VM == VAL,                                                                     # step S6
        z3.ForAll([i], z3.Implies(inr, z3.Select(LEN, nm) == z3.Select(L0, nm) + 1)),     # add_step post 1
        z3.ForAll([i], z3.Implies(inr, z3.Select(z3.Select(CONT, nm), z3.Select(LEN, nm) - 1)
                                  == z3.Select(VM, W(nm)))),                           # add_step post 2
        z3.And(0 <= k, k < NT),
    ]
    nk = NAME(k)
    inspect_k = z3.Select(VAL, W(nk))                                                  # inspect post
    return [VC('lemma:inspect(n) == trace[n][-1] after the step', pc,
               inspect_k == z3.Select(z3.Select(CONT, nk), z3.Select(LEN, nk) - 1), 'post'),
            VC('lemma:every trace list is one longer after the step', pc,
               z3.Select(LEN, nk) == z3.Select(L0, nk) + 1, 'post')]
