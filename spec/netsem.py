"""Documented meaning of the PyRTL netlist IR (LogicNet docstring, core.py:24-98), written once
and executed over two carriers:

  * IntOps  - Python ints (used by replays and by executable contracts)
  * BVOps   - z3 bit-vectors (used by the bounded engine to decide all data values)

`netsem_bv` is cross-checked against `netsem_int` exhaustively at small widths by
spec/selfcheck.py (run at the start of every check run).

Conventions: a value of a w-bit wire is an integer in [0, 2**w).  First concat argument is
most significant.  Select parameter i gives destination bit i.  Mux: sel==0 -> args[1].
"""


def mask(w):
    return (1 << w) - 1


# ---------------------------------------------------------------- int semantics
def netsem_int(op, op_param, argvals, argwidths, dwidth, memread=None):
    """Value of the destination (width dwidth) of one combinational net, over Python ints.
    memread(addr) is supplied for 'm'."""
    a = argvals
    if op == 'w':
        r = a[0]
    elif op == '~':
        r = -a[0] - 1
    elif op == '&':
        r = a[0] & a[1]
    elif op == '|':
        r = a[0] | a[1]
    elif op == '^':
        r = a[0] ^ a[1]
    elif op == 'n':
        r = -(a[0] & a[1]) - 1
    elif op == '+':
        r = a[0] + a[1]
    elif op == '-':
        r = a[0] - a[1]
    elif op == '*':
        r = a[0] * a[1]
    elif op == '<':
        r = 1 if a[0] < a[1] else 0
    elif op == '>':
        r = 1 if a[0] > a[1] else 0
    elif op == '=':
        r = 1 if a[0] == a[1] else 0
    elif op == 'x':
        r = a[1] if a[0] == 0 else a[2]
    elif op == 'c':
        r = 0
        for v, w in zip(a, argwidths):
            r = r * (2 ** w) + v
    elif op == 's':
        r = 0
        for i, p in enumerate(op_param):
            r += ((a[0] // (2 ** p)) % 2) * (2 ** i)
    elif op == 'm':
        r = memread(a[0])
    else:
        raise ValueError('no combinational semantics for op %r' % op)
    return r % (2 ** dwidth)


# ---------------------------------------------------------------- bit-vector semantics
def netsem_bv(op, op_param, args, dwidth, memread=None):
    """Same table over z3 bit-vectors; args are BitVecRefs of the argument widths."""
    import z3

    def fit(t, w):
        s = t.size()
        if s == w:
            return t
        if s > w:
            return z3.Extract(w - 1, 0, t)
        return z3.ZeroExt(w - s, t)

    a = args
    if op == 'w':
        r = a[0]
    elif op == '~':
        r = ~a[0]
    elif op == '&':
        r = a[0] & a[1]
    elif op == '|':
        r = a[0] | a[1]
    elif op == '^':
        r = a[0] ^ a[1]
    elif op == 'n':
        r = ~(a[0] & a[1])
    elif op in '+-':
        w = max(a[0].size(), a[1].size()) + 1
        x, y = fit(a[0], w), fit(a[1], w)
        r = x + y if op == '+' else x - y
    elif op == '*':
        w = a[0].size() + a[1].size()
        r = fit(a[0], w) * fit(a[1], w)
    elif op in '<>=':
        w = max(a[0].size(), a[1].size())
        x, y = fit(a[0], w), fit(a[1], w)
        c = z3.ULT(x, y) if op == '<' else (z3.UGT(x, y) if op == '>' else x == y)
        r = z3.If(c, z3.BitVecVal(1, 1), z3.BitVecVal(0, 1))
    elif op == 'x':
        w = max(a[1].size(), a[2].size())
        r = z3.If(a[0] == 0, fit(a[1], w), fit(a[2], w))
    elif op == 'c':
        r = a[0] if len(a) == 1 else z3.Concat(*a)
    elif op == 's':
        bits = [z3.Extract(p, p, a[0]) for p in op_param]
        r = bits[0] if len(bits) == 1 else z3.Concat(*bits[::-1])
    elif op == 'm':
        r = memread(a[0])
    else:
        raise ValueError('no combinational semantics for op %r' % op)
    return fit(r, dwidth)
