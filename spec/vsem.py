"""Parser and semantics for the Verilog-2001 subset that output_to_verilog / output_verilog_testbench
emit (DESIGN C05).  Independent of spec/netsem: expression widths follow IEEE 1364-2001 4.4/4.5
(context-determined operands for + - * & | ^ ~ ?:, self-determined operands for comparisons,
concatenations and conditions; continuous assignment truncates / zero-extends to the target;
unsized decimal literals are at least 32 bits, here: exact value, width max(32, bit length)).
Registers: non-blocking update at the clock edge; memories: guarded non-blocking writes.

Two back ends evaluate the same parse tree: IntBE (Python ints, used by replays - no solver
import) and Z3BE (bit-vectors, all values at once)."""
import re


class VError(Exception):
    pass


# ----------------------------------------------------------------------------- parsing
TOK = re.compile(r"\s*(\d+'[hdb][0-9a-fA-F_]+|\d+|[A-Za-z_][A-Za-z0-9_$]*|==|!=|<=|>=|[-+*&|^~<>?:{}\[\](),=;])")


def tokenize(s):
    out, pos = [], 0
    s = s.strip()
    while pos < len(s):
        m = TOK.match(s, pos)
        if not m:
            raise VError('cannot tokenize %r' % s[pos:pos + 30])
        out.append(m.group(1))
        pos = m.end()
    return out


PREC = [('|',), ('^',), ('&',), ('==', '!='), ('<', '>', '<=', '>='), ('+', '-'), ('*',)]
CMP = ('<', '>', '==', '<=', '>=', '!=')


def parse_expr(toks, i=0):
    e, i = parse_ternary(toks, i)
    return e, i


def parse_ternary(toks, i):
    c, i = parse_bin(toks, i, 0)
    if i < len(toks) and toks[i] == '?':
        a, i = parse_ternary(toks, i + 1)
        if toks[i] != ':':
            raise VError('expected :')
        b, i = parse_ternary(toks, i + 1)
        return ('?:', c, a, b), i
    return c, i


def parse_bin(toks, i, level):
    if level == len(PREC):
        return parse_unary(toks, i)
    lhs, i = parse_bin(toks, i, level + 1)
    while i < len(toks) and toks[i] in PREC[level]:
        op = toks[i]
        rhs, i = parse_bin(toks, i + 1, level + 1)
        lhs = ('bin', op, lhs, rhs)
    return lhs, i


def parse_unary(toks, i):
    t = toks[i]
    if t == '~':
        e, i = parse_unary(toks, i + 1)
        return ('~', e), i
    if t == '(':
        e, i = parse_expr(toks, i + 1)
        if toks[i] != ')':
            raise VError('expected )')
        return e, i + 1
    if t == '{':
        items = []
        i += 1
        while True:
            e, i = parse_expr(toks, i)
            items.append(e)
            if toks[i] == ',':
                i += 1
                continue
            if toks[i] == '}':
                return ('cat', items), i + 1
            raise VError('expected , or }')
    m = re.match(r"(\d+)'([hdb])([0-9a-fA-F_]+)$", t)
    if m:
        w = int(m.group(1))
        v = int(m.group(3).replace('_', ''), {'h': 16, 'd': 10, 'b': 2}[m.group(2)])
        return ('num', v, w, True), i + 1
    if t.isdigit():
        v = int(t)
        return ('num', v, max(32, v.bit_length()), False), i + 1
    if re.match(r'[A-Za-z_]', t):
        if i + 1 < len(toks) and toks[i + 1] == '[':
            idx, j = parse_expr(toks, i + 2)
            if toks[j] != ']':
                raise VError('expected ]')
            return ('idx', t, idx), j + 1
        return ('id', t), i + 1
    raise VError('unexpected token %r' % t)


class VModule(object):
    def __init__(self):
        self.ports = []
        self.inputs, self.outputs, self.regs, self.wires = {}, {}, {}, {}
        self.mems = {}            # name -> (word width, size, comment name)
        self.rom_init = {}        # name -> {addr: (value, width)}
        self.assigns = []         # (lhs, expr)
        self.reg_updates = {}     # dest -> src expr
        self.reg_resets = {}      # dest -> value
        self.reset_mode = None    # None / 'sync' / 'async'
        self.mem_writes = []      # (mem, enable expr, addr expr, data expr) in text order
        self.unsized_wide_literals = []


def _width(decl):
    if not decl:
        return 1
    m = re.match(r'\[(\d+):0\]', decl)
    return int(m.group(1)) + 1


def parse_module(text):
    m = VModule()
    lines = [ln.split('//')[0].rstrip() if not re.match(r'\s*reg.*mem_', ln) else ln.rstrip()
             for ln in text.splitlines()]
    i = 0
    state = None
    while i < len(lines):
        ln = lines[i].strip()
        i += 1
        if not ln:
            continue
        mm = re.match(r'module toplevel\((.*)\);$', ln)
        if mm:
            m.ports = [p.strip() for p in mm.group(1).split(',')]
            continue
        mm = re.match(r'(input|output|wire)\s*(\[\d+:0\])?\s*([A-Za-z_][\w$]*);$', ln)
        if mm:
            {'input': m.inputs, 'output': m.outputs, 'wire': m.wires}[mm.group(1)][mm.group(3)] = _width(mm.group(2))
            continue
        mm = re.match(r'reg\s*(\[\d+:0\])?\s*(mem_\d+)\s*(\[\d+:0\]);\s*//(.*)$', ln)
        if mm:
            m.mems[mm.group(2)] = (_width(mm.group(1)), _width(mm.group(3)), mm.group(4).strip())
            continue
        mm = re.match(r'reg\s*(\[\d+:0\])?\s*([A-Za-z_][\w$]*);$', ln)
        if mm:
            m.regs[mm.group(2)] = _width(mm.group(1))
            continue
        if ln == 'initial begin':
            while lines[i].strip() != 'end':
                mm = re.match(r"(mem_\d+)\[(\d+)\]=(\d+)'h([0-9a-f]+);$", lines[i].strip())
                if not mm:
                    raise VError('unexpected line in initial block: %r' % lines[i])
                m.rom_init.setdefault(mm.group(1), {})[int(mm.group(2))] = (int(mm.group(4), 16), int(mm.group(3)))
                i += 1
            i += 1
            continue
        mm = re.match(r'assign\s+([A-Za-z_][\w$]*)\s*=\s*(.*);$', ln)
        if mm:
            toks = tokenize(mm.group(2))
            e, j = parse_expr(toks)
            if j != len(toks):
                raise VError('trailing tokens in %r' % ln)
            m.assigns.append((mm.group(1), e))
            continue
        mm = re.match(r'always @\(posedge clk( or posedge rst)?\)$', ln)
        if mm:
            is_async = bool(mm.group(1))
            # collect the block up to its matching 'end'
            depth = 0
            body = []
            while True:
                l2 = lines[i].strip()
                i += 1
                body.append(l2)
                depth += len(re.findall(r'\bbegin\b', l2)) - len(re.findall(r'\bend\b', l2))
                if depth == 0:
                    break
            _parse_always(m, body, is_async)
            continue
        if ln in ('endmodule',):
            continue
        raise VError('unexpected Verilog line: %r' % ln)
    return m


def _parse_always(m, body, is_async):
    txt = ' '.join(body)
    if 'mem_' in txt and '<=' in txt and re.search(r'mem_\d+\[', txt):
        for mm in re.finditer(r'if \(([A-Za-z_][\w$]*)\) begin\s+(mem_\d+)\[([A-Za-z_][\w$]*)\] <= ([A-Za-z_][\w$]*);\s+end', txt):
            m.mem_writes.append((mm.group(2), ('id', mm.group(1)), ('id', mm.group(3)), ('id', mm.group(4))))
        return
    mm = re.match(r'begin\s+if \(rst\) begin\s+(.*?)\s*end\s+else begin\s+(.*?)\s*end\s+end$', txt)
    if mm:
        m.reset_mode = 'async' if is_async else 'sync'
        for a in re.finditer(r'([A-Za-z_][\w$]*) <= (\d+);', mm.group(1)):
            m.reg_resets[a.group(1)] = int(a.group(2))
        upd = mm.group(2)
    else:
        mm = re.match(r'begin\s+begin\s+(.*?)\s*end\s+end$', txt)
        if not mm:
            raise VError('unrecognised always block: %r' % txt[:200])
        upd = mm.group(1)
    for a in re.finditer(r'([A-Za-z_][\w$]*) <= ([A-Za-z_][\w$]*);', upd):
        m.reg_updates[a.group(1)] = ('id', a.group(2))


# ----------------------------------------------------------------------------- back ends
class IntBE(object):
    """values are (int, width) with int in [0, 2**width)"""

    def const(self, v, w):
        return (v & ((1 << w) - 1), w)

    def width(self, x):
        return x[1]

    def resize(self, x, w):
        return (x[0] & ((1 << w) - 1), w)

    def binop(self, op, a, b):
        w = a[1]
        f = {'+': lambda: a[0] + b[0], '-': lambda: a[0] - b[0], '*': lambda: a[0] * b[0],
             '&': lambda: a[0] & b[0], '|': lambda: a[0] | b[0], '^': lambda: a[0] ^ b[0]}[op]
        return (f() & ((1 << w) - 1), w)

    def cmp(self, op, a, b):
        r = {'<': a[0] < b[0], '>': a[0] > b[0], '==': a[0] == b[0], '<=': a[0] <= b[0], '>=': a[0] >= b[0],
             '!=': a[0] != b[0]}[op]
        return (int(r), 1)

    def inv(self, a):
        return ((~a[0]) & ((1 << a[1]) - 1), a[1])

    def ite(self, c, a, b):
        return a if c[0] != 0 else b

    def cat(self, items):
        v, w = 0, 0
        for x in items:
            v = (v << x[1]) | x[0]
            w += x[1]
        return (v, w)

    def bit(self, a, i):
        return ((a[0] >> i) & 1, 1)

    def memread(self, mem, addr, w):
        return (mem.get(addr[0], 0) & ((1 << w) - 1), w)


class Z3BE(object):
    def __init__(self):
        import z3
        self.z3 = z3

    def const(self, v, w):
        return self.z3.BitVecVal(v, w)

    def width(self, x):
        return x.size()

    def resize(self, x, w):
        s = x.size()
        if s == w:
            return x
        return self.z3.Extract(w - 1, 0, x) if s > w else self.z3.ZeroExt(w - s, x)

    def binop(self, op, a, b):
        return {'+': lambda: a + b, '-': lambda: a - b, '*': lambda: a * b, '&': lambda: a & b,
                '|': lambda: a | b, '^': lambda: a ^ b}[op]()

    def cmp(self, op, a, b):
        z3 = self.z3
        c = {'<': lambda: z3.ULT(a, b), '>': lambda: z3.UGT(a, b), '==': lambda: a == b, '<=': lambda: z3.ULE(a, b),
             '>=': lambda: z3.UGE(a, b), '!=': lambda: a != b}[op]()
        return z3.If(c, z3.BitVecVal(1, 1), z3.BitVecVal(0, 1))

    def inv(self, a):
        return ~a

    def ite(self, c, a, b):
        return self.z3.If(c != 0, a, b)

    def cat(self, items):
        return items[0] if len(items) == 1 else self.z3.Concat(*items)

    def bit(self, a, i):
        return self.z3.Extract(i, i, a)

    def memread(self, mem, addr, w):
        return self.z3.Select(mem, addr)


# ----------------------------------------------------------------------------- semantics
def self_width(e, widths, mems):
    k = e[0]
    if k == 'num':
        return e[2]
    if k == 'id':
        return widths[e[1]]
    if k == 'idx':
        return mems[e[1]][0] if e[1] in mems else 1
    if k == '~':
        return self_width(e[1], widths, mems)
    if k == 'bin':
        if e[1] in CMP:
            return 1
        return max(self_width(e[2], widths, mems), self_width(e[3], widths, mems))
    if k == '?:':
        return max(self_width(e[2], widths, mems), self_width(e[3], widths, mems))
    if k == 'cat':
        return sum(self_width(x, widths, mems) for x in e[1])
    raise VError(k)


def ev(e, W, env, widths, mems, memstate, be):
    """evaluate e in a context of W bits (W >= self width)"""
    k = e[0]
    if k == 'num':
        return be.resize(be.const(e[1], e[2]), W)
    if k == 'id':
        return be.resize(env[e[1]], W)
    if k == 'idx':
        if e[1] in mems:
            a = ev(e[2], self_width(e[2], widths, mems), env, widths, mems, memstate, be)
            aw = (mems[e[1]][1] - 1).bit_length() or 1
            return be.resize(be.memread(memstate[e[1]], be.resize(a, aw), mems[e[1]][0]), W)
        if e[2][0] != 'num':
            raise VError('non-constant bit select')
        return be.resize(be.bit(env[e[1]], e[2][1]), W)
    if k == '~':
        return be.inv(ev(e[1], W, env, widths, mems, memstate, be))
    if k == 'bin':
        if e[1] in CMP:
            w = max(self_width(e[2], widths, mems), self_width(e[3], widths, mems))
            return be.resize(be.cmp(e[1], ev(e[2], w, env, widths, mems, memstate, be),
                                    ev(e[3], w, env, widths, mems, memstate, be)), W)
        return be.binop(e[1], ev(e[2], W, env, widths, mems, memstate, be),
                        ev(e[3], W, env, widths, mems, memstate, be))
    if k == '?:':
        c = ev(e[1], self_width(e[1], widths, mems), env, widths, mems, memstate, be)
        return be.ite(c, ev(e[2], W, env, widths, mems, memstate, be),
                      ev(e[3], W, env, widths, mems, memstate, be))
    if k == 'cat':
        items = [ev(x, self_width(x, widths, mems), env, widths, mems, memstate, be) for x in e[1]]
        return be.resize(be.cat(items), W)
    raise VError(k)


def ids_of(e, out):
    if e[0] == 'id':
        out.add(e[1])
    elif e[0] == 'idx':
        out.add(e[1])
        ids_of(e[2], out)
    elif e[0] == '~':
        ids_of(e[1], out)
    elif e[0] == 'bin':
        ids_of(e[2], out)
        ids_of(e[3], out)
    elif e[0] == '?:':
        for x in e[1:]:
            ids_of(x, out)
    elif e[0] == 'cat':
        for x in e[1]:
            ids_of(x, out)


def step(m, regstate, memstate, inputs, be):
    """One clock cycle with rst = 0.  regstate/inputs: name -> value; memstate: mem name -> memory.
    Returns (values of all nets, next regstate, list of (mem, enable, addr, data) writes)."""
    widths = {}
    widths.update(m.inputs)
    widths.update(m.outputs)
    widths.update(m.regs)
    widths.update(m.wires)
    env = {}
    for n in m.inputs:
        if n in ('clk', 'rst'):
            continue
        env[n] = inputs[n]
    for n in m.regs:
        env[n] = regstate[n]
    driven = {}
    for lhs, e in m.assigns:
        if lhs in driven:
            raise VError('two continuous assignments to %s' % lhs)
        driven[lhs] = e
    done = set(env)
    order = []
    visiting = set()

    def visit(n):
        if n in done or n in m.mems:
            return
        if n not in driven:
            raise VError('net %s is read but never assigned' % n)
        if n in visiting:
            raise VError('combinational loop through %s' % n)
        visiting.add(n)
        deps = set()
        ids_of(driven[n], deps)
        for d in sorted(deps):
            visit(d)
        visiting.discard(n)
        done.add(n)
        order.append(n)
    for n in sorted(driven):
        visit(n)
    for n in order:
        e = driven[n]
        W = max(widths[n], self_width(e, widths, m.mems))
        env[n] = be.resize(ev(e, W, env, widths, m.mems, memstate, be), widths[n])
    nregs = {}
    for r in m.regs:
        if r in m.reg_updates:
            src = m.reg_updates[r]
            W = max(widths[r], self_width(src, widths, m.mems))
            nregs[r] = be.resize(ev(src, W, env, widths, m.mems, memstate, be), widths[r])
        else:
            nregs[r] = regstate[r]
    writes = []
    for (mem, en, addr, data) in m.mem_writes:
        writes.append((mem, env[en[1]], env[addr[1]], env[data[1]]))
    return env, nregs, writes


# ----------------------------------------------------------------------------- testbench
def parse_testbench(text):
    """-> dict(regs={name: init}, mems={mem name: {'default': v, 'words': {addr: v}}},
               inputs=[{name: value} per cycle], ports=[...])"""
    tb = dict(regs={}, mems={}, inputs=[], decls={})
    cur = {}
    in_init = False
    for ln in text.splitlines():
        s = ln.strip()
        mm = re.match(r'reg\s*(\[\d+:0\])?\s*([A-Za-z_][\w$]*);$', s)
        if mm and not in_init:
            tb['decls'][mm.group(2)] = _width(mm.group(1))
        if s == 'initial begin':
            in_init = True
            continue
        if not in_init:
            continue
        mm = re.match(r'block\.(mem_\d+)\[(\d+)\] = (\d+);$', s)
        if mm:
            tb['mems'].setdefault(mm.group(1), {'default': None, 'words': {}})['words'][int(mm.group(2))] = int(mm.group(3))
            continue
        mm = re.match(r'for \(tb_iter = 0; tb_iter < (\d+); tb_iter\+\+\) begin block\.(mem_\d+)\[tb_iter\] = (\d+); end$', s)
        if mm:
            d = tb['mems'].setdefault(mm.group(2), {'default': None, 'words': {}})
            d['default'] = int(mm.group(3))
            d['size'] = int(mm.group(1))
            continue
        mm = re.match(r'block\.([A-Za-z_][\w$]*) = (\d+);$', s)
        if mm:
            tb['regs'][mm.group(1)] = int(mm.group(2))
            continue
        mm = re.match(r"([A-Za-z_][\w$]*) = (\d+)'d(\d+);$", s)
        if mm:
            cur[mm.group(1)] = (int(mm.group(3)), int(mm.group(2)))
            continue
        if s == '#10':
            tb['inputs'].append(cur)
            cur = {}
    return tb
