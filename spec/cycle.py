"""Reference cycle semantics over Python ints (DESIGN Appendix A.1): an independent interpreter of a
Block built only from spec/netsem.netsem_int, its own topological sort, and the documented
step order:  registers show their stored value; inputs; combinational fixpoint reading the
memory content *before* this cycle's writes; enabled writes applied on the settled values;
next register values captured (truncated to the register width).
No solver import - usable from the replay interpreter."""
from spec.netsem import netsem_int


class SpecError(Exception):
    pass


def topo(block):
    comb = [n for n in block.logic if n.op not in 'r@']
    src = {}
    for n in comb:
        for d in n.dests:
            src[d] = n
    order, state = [], {}
    for root in sorted(comb, key=lambda n: n.dests[0].name):
        if root in state:
            continue
        stack = [(root, iter(root.args))]
        state[root] = 1
        while stack:
            node, it = stack[-1]
            adv = False
            for a in it:
                p = src.get(a)
                if p is None:
                    continue
                if state.get(p) == 1:
                    raise SpecError('combinational loop')
                if p not in state:
                    state[p] = 1
                    stack.append((p, iter(p.args)))
                    adv = True
                    break
            if not adv:
                state[node] = 2
                order.append(node)
                stack.pop()
    return order


def rom_value(mem, addr):
    data = mem.data
    try:
        if callable(data):
            return int(data(addr))
        return int(data[addr])
    except (KeyError, IndexError):
        if getattr(mem, 'pad_with_zeros', False):
            return 0
        raise SpecError('rom address %d undefined' % addr)


class RefSim(object):
    def __init__(self, block, register_value_map=None, memory_value_map=None, default_value=0,
                 mem_default=None):
        import pyrtl
        self.pyrtl = pyrtl
        self.block = block
        self.order = topo(block)
        self.default = default_value
        # sanctioned: CompiledSimulation does not apply a non-zero default_value to memories
        self.mem_default = default_value if mem_default is None else mem_default
        self.regs = {}
        for r in block.wirevector_subset(pyrtl.Register):
            v = (register_value_map or {}).get(r, r.reset_value)
            if v is None:
                v = default_value
            self.regs[r] = v
        self.mems = {}
        for n in block.logic:
            if n.op in 'm@':
                self.mems.setdefault(n.op_param[1].id, {})
        for m, d in (memory_value_map or {}).items():
            self.mems[m.id] = dict(d)
        self.value = {}
        self.trace = []

    def step(self, inputs):
        pyrtl = self.pyrtl
        val = {}
        for w in self.block.wirevector_set:
            if isinstance(w, pyrtl.Const):
                val[w] = w.val
        for w in self.block.wirevector_subset(pyrtl.Input):
            val[w] = inputs[w.name]
        for r, v in self.regs.items():
            val[r] = v
        for n in self.order:
            args = [val[a] for a in n.args]
            memread = None
            if n.op == 'm':
                mem = n.op_param[1]
                if isinstance(mem, pyrtl.RomBlock):
                    memread = (lambda mem: lambda a: rom_value(mem, a))(mem)
                else:
                    content = self.mems[mem.id]
                    memread = (lambda content: lambda a: content.get(a, self.mem_default))(content)
            d = n.dests[0]
            val[d] = netsem_int(n.op, n.op_param, args, [a.bitwidth for a in n.args], d.bitwidth,
                                memread)
        writes = []
        for n in self.block.logic:
            if n.op == '@':
                addr, data, en = (val[a] for a in n.args)
                if en:
                    writes.append((n.op_param[1].id, addr, data))
        seen = {}
        for (mid, addr, data) in writes:
            if (mid, addr) in seen and seen[(mid, addr)] != data:
                raise SpecError('two enabled writes to the same address in one cycle (undefined)')
            seen[(mid, addr)] = data
            self.mems[mid][addr] = data
        nregs = dict(self.regs)
        for n in self.block.logic:
            if n.op == 'r':
                d = n.dests[0]
                nregs[d] = val[n.args[0]] % (2 ** d.bitwidth)
        self.regs = nregs
        self.value = val
        self.trace.append(val)
        return val
