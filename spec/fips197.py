"""FIPS-197 AES-128 from first principles (GF(2^8) arithmetic), pure Python.
State layout as in rtllib/aes.py: a 128-bit integer whose most significant byte is byte 0
(s[0,0]), bytes in column-major order as FIPS-197 sec. 3.4 (in0..in15)."""


def xtime(a):
    a <<= 1
    if a & 0x100:
        a ^= 0x11b
    return a & 0xff


def gmul(a, b):
    r = 0
    while b:
        if b & 1:
            r ^= a
        a = xtime(a)
        b >>= 1
    return r


def ginv(a):
    if a == 0:
        return 0
    for x in range(1, 256):
        if gmul(a, x) == 1:
            return x
    raise ValueError


def _rotl8(x, k):
    return ((x << k) | (x >> (8 - k))) & 0xff


def sbox_entry(a):
    b = ginv(a)
    return b ^ _rotl8(b, 1) ^ _rotl8(b, 2) ^ _rotl8(b, 3) ^ _rotl8(b, 4) ^ 0x63


SBOX = [sbox_entry(a) for a in range(256)]
INV_SBOX = [0] * 256
for _a, _s in enumerate(SBOX):
    INV_SBOX[_s] = _a
RCON = [0x8d]          # rcon[i] = x^(i-1); index 0 unused in FIPS (0x8d closes the cycle)
for _i in range(1, 256):
    RCON.append(xtime(RCON[-1]))


def to_bytes(x):
    return [(x >> (8 * (15 - i))) & 0xff for i in range(16)]


def from_bytes(bs):
    r = 0
    for b in bs:
        r = (r << 8) | b
    return r


def sub_bytes(s, inverse=False):
    t = INV_SBOX if inverse else SBOX
    return [t[b] for b in s]


def shift_rows(s):
    # s[r + 4c]; row r rotated left by r
    return [s[(r + 4 * ((c + r) % 4))] for c in range(4) for r in range(4)]


def inv_shift_rows(s):
    return [s[(r + 4 * ((c - r) % 4))] for c in range(4) for r in range(4)]


def mix_columns(s, inverse=False):
    m = [14, 11, 13, 9] if inverse else [2, 3, 1, 1]
    out = []
    for c in range(4):
        col = s[4 * c:4 * c + 4]
        for r in range(4):
            v = 0
            for k in range(4):
                v ^= gmul(m[(k - r) % 4], col[k])
            out.append(v)
    return out


def add_round_key(s, k):
    return [a ^ b for a, b in zip(s, k)]


def key_expansion_round(key, rnd):
    """key: 16 bytes (w0..w3); rnd = 0..9 -> next round key (FIPS-197 5.2 for Nk=4)"""
    w = [key[4 * i:4 * i + 4] for i in range(4)]
    t = w[3][1:] + w[3][:1]
    t = [SBOX[b] for b in t]
    t[0] ^= RCON[rnd + 1]
    n0 = [a ^ b for a, b in zip(w[0], t)]
    n1 = [a ^ b for a, b in zip(w[1], n0)]
    n2 = [a ^ b for a, b in zip(w[2], n1)]
    n3 = [a ^ b for a, b in zip(w[3], n2)]
    return n0 + n1 + n2 + n3


def key_schedule(key):
    ks = [key]
    for r in range(10):
        ks.append(key_expansion_round(ks[-1], r))
    return ks


def cipher(pt, key):
    ks = key_schedule(to_bytes(key))
    s = add_round_key(to_bytes(pt), ks[0])
    for r in range(1, 11):
        s = sub_bytes(s)
        s = shift_rows(s)
        if r != 10:
            s = mix_columns(s)
        s = add_round_key(s, ks[r])
    return from_bytes(s)


def inv_cipher(ct, key):
    ks = key_schedule(to_bytes(key))
    s = add_round_key(to_bytes(ct), ks[10])
    for r in range(9, -1, -1):
        s = inv_shift_rows(s)
        s = sub_bytes(s, True)
        s = add_round_key(s, ks[r])
        if r != 0:
            s = mix_columns(s, True)
    return from_bytes(s)


def selfcheck():
    # FIPS-197 Appendix B and C.1
    assert SBOX[0x00] == 0x63 and SBOX[0x53] == 0xed and INV_SBOX[0x63] == 0
    k = 0x2b7e151628aed2a6abf7158809cf4f3c
    p = 0x3243f6a8885a308d313198a2e0370734
    assert cipher(p, k) == 0x3925841d02dc09fbdc118597196a0b32
    k2 = 0x000102030405060708090a0b0c0d0e0f
    p2 = 0x00112233445566778899aabbccddeeff
    assert cipher(p2, k2) == 0x69c4e0d86a7b0430d8cdb78070b4c55a
    assert inv_cipher(0x69c4e0d86a7b0430d8cdb78070b4c55a, k2) == p2
    assert from_bytes(key_schedule(to_bytes(k))[1]) == 0xa0fafe1788542cb123a339392a6c7605
