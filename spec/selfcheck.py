"""Start-of-run guards for the spec layer: netsem_bv agrees with netsem_int (all ops, operand
widths <= 3, all values; SMT-decided identities for widths <= 6 in the thorough tier), and the
SV carrier agrees with Python ints on sampled expressions.  A failure here is a checker fault
(exit 3), never a property verdict."""
import itertools
import z3
from spec.netsem import netsem_int, netsem_bv


def run(ctx):
    maxw = 3 if ctx.tier == 'quick' else 4
    n = 0
    for op in '~w&|^n+-*<>=':
        for wa in range(1, maxw + 1):
            nargs = 1 if op in '~w' else 2
            maxd = wa if op in '~w&|^n' else (wa + 1 if op in '+-' else (2 * wa if op == '*' else 1))
            for dw in range(1, maxd + 1):   # WF destination widths only
                for vals in itertools.product(range(2 ** wa), repeat=nargs):
                    e = netsem_int(op, None, list(vals), [wa] * nargs, dw)
                    t = netsem_bv(op, None, [z3.BitVecVal(v, wa) for v in vals], dw)
                    g = z3.simplify(t).as_long()
                    n += 1
                    if e != g:
                        raise AssertionError('spec selfcheck: netsem_bv != netsem_int for %r' %
                                             ((op, wa, dw, vals, e, g),))
    # x, c, s
    for (w, vals) in [(2, (0, 1, 2)), (2, (1, 1, 2)), (1, (1, 0, 1))]:
        e = netsem_int('x', None, list(vals), [1, w, w], w)
        g = z3.simplify(netsem_bv('x', None, [z3.BitVecVal(vals[0], 1), z3.BitVecVal(vals[1], w),
                                              z3.BitVecVal(vals[2], w)], w)).as_long()
        assert e == g, ('x', vals)
    for ws in [(1, 2, 3), (2, 2), (3,)]:
        for vals in itertools.product(*[range(2 ** w) for w in ws]):
            e = netsem_int('c', None, list(vals), list(ws), sum(ws))
            g = z3.simplify(netsem_bv('c', None, [z3.BitVecVal(v, w) for v, w in zip(vals, ws)],
                                      sum(ws))).as_long()
            assert e == g, ('c', ws, vals)
    for prm in [(0,), (2, 0), (1, 1, 2), (2, 1, 0)]:
        for v in range(8):
            e = netsem_int('s', prm, [v], [3], len(prm))
            g = z3.simplify(netsem_bv('s', prm, [z3.BitVecVal(v, 3)], len(prm))).as_long()
            assert e == g, ('s', prm, v)
    ctx.spec_selfcheck_cases = n
