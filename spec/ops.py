"""Carrier-generic arithmetic for specification functions.

A spec function is written once in Python-int style, using only
    + - *  & | ^ ~  << k  >> k  % 2**k  // 2**k  comparisons  o.ite / o.and_ / o.or_ / o.not_
and is run (a) on Python ints - replays, executable contracts - and (b) on `SV`, a z3
bit-vector of a fixed generous width W read as a two's-complement *signed* integer, so that
as long as no intermediate value leaves (-2**(W-1), 2**(W-1)) the two agree.  W is chosen by the
caller per instance from the operand widths; `selfcheck` compares both carriers on small widths.
"""


class IntOps(object):
    name = 'int'

    @staticmethod
    def ite(c, a, b):
        return a if c else b

    @staticmethod
    def and_(*cs):
        return all(cs)

    @staticmethod
    def or_(*cs):
        return any(cs)

    @staticmethod
    def not_(c):
        return not c

    @staticmethod
    def const(v):
        return v

    @staticmethod
    def bit(x, i):
        return (x >> i) & 1


def _k_of_pow2(m):
    if not isinstance(m, int) or m <= 0 or (m & (m - 1)):
        raise ValueError('spec carrier supports only % and // by positive powers of two, got %r' % (m,))
    return m.bit_length() - 1


class SV(object):
    """z3 bit-vector of width W, signed reading."""
    __slots__ = ('t', 'W')

    def __init__(self, t, W=None):
        import z3
        if isinstance(t, SV):
            t = t.t
        if isinstance(t, int):
            t = z3.BitVecVal(t, W)
        self.t = t
        self.W = t.size()

    @staticmethod
    def lift(bv, W, signed=False):
        import z3
        s = bv.size()
        if s > W:
            raise ValueError('carrier width %d too small for %d-bit operand' % (W, s))
        if s == W:
            return SV(bv)
        return SV(z3.SignExt(W - s, bv) if signed else z3.ZeroExt(W - s, bv))

    def _c(self, o):
        import z3
        if isinstance(o, SV):
            return o.t
        if isinstance(o, bool):
            o = int(o)
        if isinstance(o, int):
            return z3.BitVecVal(o, self.W)
        if z3.is_bool(o):
            return z3.If(o, z3.BitVecVal(1, self.W), z3.BitVecVal(0, self.W))
        raise TypeError(type(o))

    def __add__(self, o): return SV(self.t + self._c(o))
    __radd__ = __add__
    def __sub__(self, o): return SV(self.t - self._c(o))
    def __rsub__(self, o): return SV(self._c(o) - self.t)
    def __mul__(self, o): return SV(self.t * self._c(o))
    __rmul__ = __mul__
    def __and__(self, o): return SV(self.t & self._c(o))
    __rand__ = __and__
    def __or__(self, o): return SV(self.t | self._c(o))
    __ror__ = __or__
    def __xor__(self, o): return SV(self.t ^ self._c(o))
    __rxor__ = __xor__
    def __invert__(self): return SV(~self.t)
    def __neg__(self): return SV(-self.t)

    def __lshift__(self, k):
        import z3
        if isinstance(k, SV):
            return SV(self.t << k.t)
        return SV(self.t << z3.BitVecVal(k, self.W))

    def __rshift__(self, k):
        import z3
        if isinstance(k, SV):
            return SV(self.t >> k.t)
        return SV(self.t >> z3.BitVecVal(k, self.W))     # arithmetic, like Python on negatives

    def __mod__(self, m):
        k = _k_of_pow2(m)
        return SV(self.t & self._c((1 << k) - 1))

    def __floordiv__(self, m):
        return self >> _k_of_pow2(m)

    def __lt__(self, o): return self.t < self._c(o)      # signed
    def __le__(self, o): return self.t <= self._c(o)
    def __gt__(self, o): return self.t > self._c(o)
    def __ge__(self, o): return self.t >= self._c(o)
    def __eq__(self, o): return self.t == self._c(o)
    def __ne__(self, o): return self.t != self._c(o)
    __hash__ = None


class BVOps(object):
    name = 'bv'

    def __init__(self, W):
        self.W = W

    def ite(self, c, a, b):
        import z3
        if isinstance(c, bool):
            return a if c else b
        a = a if isinstance(a, SV) else SV(a, self.W)
        b = b if isinstance(b, SV) else SV(b, self.W)
        return SV(z3.If(c, a.t, b.t))

    def and_(self, *cs):
        import z3
        return z3.And(*[z3.BoolVal(c) if isinstance(c, bool) else c for c in cs])

    def or_(self, *cs):
        import z3
        return z3.Or(*[z3.BoolVal(c) if isinstance(c, bool) else c for c in cs])

    def not_(self, c):
        import z3
        return (not c) if isinstance(c, bool) else z3.Not(c)

    def const(self, v):
        return SV(v, self.W)

    def bit(self, x, i):
        return (x >> i) & 1
