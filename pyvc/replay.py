"""Replayer for concrete contract cases; importable without a solver (runs in the clean
/venv interpreter)."""
from pyvc.contract import REGISTRY


def replay_contract_case(contracts_module, module, qualname, label):
    """Replayer (runs in the clean interpreter): re-run one concrete case of a contract."""
    import importlib
    importlib.import_module(contracts_module)
    c = REGISTRY[(module, qualname)]
    for lab, thunk in c.concrete('thorough'):
        if lab == label:
            try:
                ok, obs, exp = thunk()
            except Exception as e:
                ok, obs, exp = False, '%s: %s' % (type(e).__name__, str(e)[:200]), 'no exception'
            return dict(failed=not ok, observed=obs, expected=exp)
    return dict(failed=False, error='label %r not found' % label)
