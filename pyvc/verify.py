"""Verification driver: for each contract case, symbolically execute the REAL function body,
collect VCs, discharge them with z3 (process pool), triage refutations (concrete replay on the
real code), record obligations in the run context."""
import os
import time
import traceback
import z3

from pyvc import engine as E
from pyvc import theory as T
from pyvc.contract import REGISTRY, _t

_VCS = []


def vcs_for(contract, case, solver_timeout=3000):
    """Run the real body on symbolic inputs.  Returns (vcs, stats)."""
    node, mod, cls = E.locate(contract.module, contract.qualname)
    fv = E.FuncVal(node, None, mod, contract.qualname.split('[')[0], cls=cls)
    key = (contract.module, contract.qualname)

    def run_path(st):
        hooks = dict(getattr(contract, 'hooks', {}) or {})
        I = E.Interp(st, contracts=REGISTRY, loop_invariants=contract.invariants, hooks=hooks)
        I.verifying = key
        ns = contract.setup(I, case)
        if getattr(ns, 'outer', None) is not None:       # nested function: enclosing frame from setup
            fv.env = ns.outer
        for i, c in enumerate(contract.pre(ns)):
            cl = c[1] if isinstance(c, tuple) else c
            st.assume(_t(cl))
        contract.snapshot(I, ns)
        I.measure0 = contract.measure(ns)
        st.vc('cover:pre', z3.BoolVal(False), kind='cover')
        try:
            res = I.call_function(fv, ns.args, getattr(ns, 'kwargs', {}) or {},
                                  selfobj=getattr(ns, 'self', None))
            outcome = None
        except E.RaiseSig as r:
            outcome = r.exc
            res = None
        rules = contract.raises(ns)
        free = set(contract.may_raise(ns))
        if outcome is None:
            for exc, cond in rules:
                st.vc('must-raise:%s' % exc, z3.Not(_t(cond)), kind='raise')
            ns.result = res
            for nm, cl in contract.post(ns):
                st.vc('post:%s' % nm, _t(cl), kind='post')
        else:
            if outcome in free:
                return
            conds = [_t(c) for exc, c in rules if exc == outcome]
            st.vc('raises:%s' % outcome, z3.Or(*conds) if conds else z3.BoolVal(False),
                  kind='raise')
    return E.explore(run_path, max_paths=contract.max_paths, solver_timeout=solver_timeout)


def _solve(i):
    name, pc, goal, kind, timeout = _VCS[i]
    t0 = time.time()
    try:
        s = z3.Solver()
        s.set('timeout', timeout)
        fs = list(pc) + [z3.Not(goal)]
        s.add(*fs)
        s.add(*T.ground_axioms(fs))
        r = s.check()
        model = None
        if r == z3.sat:
            m = s.model()
            model = ', '.join('%s=%s' % (d.name(), m[d]) for d in m.decls()
                              if d.arity() == 0)[:1500]
        if r == z3.unknown and kind != 'cover':
            # second attempt: deeper pow2 unfolding
            s2 = z3.Solver()
            s2.set('timeout', timeout)
            s2.add(*fs)
            s2.add(*T.ground_axioms(fs, depth=2))
            r = s2.check()
        if r == z3.unknown and kind != 'cover':
            # third attempt with a 4x budget: verdicts must not flip when all cores are busy
            s3 = z3.Solver()
            s3.set('timeout', timeout * 4)
            s3.add(*fs)
            s3.add(*T.ground_axioms(fs))
            r = s3.check()
        if r == z3.sat and kind != 'cover':
            # confirm the abstract counter-model under the concrete meaning of pow2 / & | ^ / bit_length
            ct = T.concrete_theory(fs)
            if not ct:
                # no abstract symbol occurs in the query: the counter-model is already over plain integers / arrays
                return (i, str(r), time.time() - t0, model)
            sc = z3.Solver()
            sc.set('timeout', max(timeout, 20000))
            sc.add(*fs)
            sc.add(*ct)
            rc = sc.check()
            if rc == z3.sat:
                m = sc.model()
                model = 'confirmed over Python integers (bounded to 16-bit quantities): ' + \
                    ', '.join('%s=%s' % (d.name(), m[d]) for d in m.decls() if d.arity() == 0)[:1500]
            elif rc == z3.unsat:
                return (i, 'unknown:abstract-sat-not-confirmed (spurious under the concrete theory up to 16 bits)',
                        time.time() - t0, model)
            else:
                return (i, 'unknown:abstract-sat-confirmation-timeout', time.time() - t0, model)
        return (i, str(r), time.time() - t0, model)
    except Exception:
        return (i, 'error:' + traceback.format_exc()[-400:], time.time() - t0, None)


def discharge(vcs, timeout_ms=10000, procs=None):
    """-> list of (vc, verdict, seconds, model) with verdict in unsat/sat/unknown/error"""
    global _VCS
    from elab.passcheck import pmap
    _VCS = [(v.name, v.pc, v.goal, v.kind, timeout_ms) for v in vcs]
    res = pmap(_solve, list(range(len(_VCS))), procs)
    out = []
    for (i, r, dt, model) in res:
        out.append((vcs[i], r, dt, model))
    return out


_PAR = {}


def _case_chunk(task):
    """Worker for contracts with many cases: generate and discharge the VCs of a chunk of cases
    in this process; only verdicts travel back."""
    global _VCS
    key, cases, timeout_ms = task
    contract = _PAR[key]
    out = []
    inl, used, mod = set(), set(), set()
    for case in cases:
        try:
            vcs, stats = vcs_for(contract, case)
        except E.Unsupported as e:
            return dict(unsupported='%s (case %s)' % (e, case))
        inl |= set(stats['inlined'])
        used |= set(stats['contracts'])
        mod |= set(stats['modelled'])
        for v in vcs:
            v.name = '%s%s:%s' % (contract.key_name, ('{%s}' % case) if case != '' else '', v.name)
        _VCS = [(v.name, v.pc, v.goal, v.kind, timeout_ms) for v in vcs]
        for i, v in enumerate(vcs):
            (_, r, dt, model) = _solve(i)
            out.append((v.name, v.kind, r, dt, model))
    return dict(results=out, inlined=sorted(inl), used=sorted(used), modelled=sorted(mod))


def verify_contract(ctx, contract, timeout_ms=None):
    """Verify one contract: all cases.  Records obligations in ctx; returns summary dict."""
    timeout_ms = timeout_ms or (10000 if ctx.tier == 'quick' else 30000)
    fn = '%s.%s' % (contract.module, contract.qualname)
    shash = E.source_hash(contract.module, contract.qualname)
    summary = dict(function=fn, proved=0, refuted=[], undecided=[], vacuous=[], unsupported=None,
                   obligations=0)
    allv = []
    t0 = time.time()
    cases = list(contract.cases())
    if len(cases) > 24 or (getattr(contract, 'parallel', False) and len(cases) > 1):
        return _verify_parallel(ctx, contract, cases, timeout_ms, fn, shash, summary)
    try:
        for case in cases:
            vcs, stats = vcs_for(contract, case)
            for v in vcs:
                v.name = '%s%s:%s' % (contract.key_name, ('{%s}' % case) if case != '' else '', v.name)
            allv.extend(vcs)
            ctx.inlined |= set(stats['inlined'])
            ctx.callee_contracts |= set(stats['contracts'])
            ctx.modelled |= set(stats['modelled'])
    except E.Unsupported as e:
        summary['unsupported'] = str(e)
        ctx.obligation(contract.qualname + ':symbolic-execution', fn, 'undecided', 'pyvc',
                       time.time() - t0, shash, detail='unsupported construct: %s' % e)
        summary['undecided'].append(contract.qualname + ':symbolic-execution')
        return summary
    gen_s = time.time() - t0
    results = discharge(allv, timeout_ms)
    nobl = 0
    for v, r, dt, model in results:
        if v.kind == 'cover':
            if r == 'unsat':
                summary['vacuous'].append(v.name)
            continue
        nobl += 1
        if r == 'unsat':
            summary['proved'] += 1
            ctx.obligation(v.name, fn, 'proved', 'z3', dt, shash)
        elif r == 'sat':
            summary['refuted'].append((v.name, model))
        else:
            summary['undecided'].append(v.name)
            ctx.obligation(v.name, fn, 'undecided', 'z3', dt, shash, detail=r)
    summary['obligations'] = nobl
    summary['gen_s'] = gen_s
    if nobl == 0:
        summary['vacuous'].append('no obligations generated for %s' % fn)
    return summary


def _verify_parallel(ctx, contract, cases, timeout_ms, fn, shash, summary):
    from elab.passcheck import pmap
    t0 = time.time()
    key = (contract.module, contract.key_name)
    _PAR[key] = contract
    nchunks = min(64, len(cases))
    chunks = [cases[i::nchunks] for i in range(nchunks)]
    res = pmap(_case_chunk, [(key, ch, timeout_ms) for ch in chunks if ch])
    nobl = 0
    for r in res:
        if 'unsupported' in r:
            summary['unsupported'] = r['unsupported']
            ctx.obligation(contract.qualname + ':symbolic-execution', fn, 'undecided', 'pyvc',
                           time.time() - t0, shash, detail='unsupported construct: %s' % r['unsupported'])
            summary['undecided'].append(contract.qualname + ':symbolic-execution')
            return summary
        ctx.inlined |= set(r['inlined'])
        ctx.callee_contracts |= set(r.get('used', []))
        ctx.modelled |= set(r.get('modelled', []))
        for (name, kind, verdict, dt, model) in r['results']:
            if kind == 'cover':
                if verdict == 'unsat':
                    summary['vacuous'].append(name)
                continue
            nobl += 1
            if verdict == 'unsat':
                summary['proved'] += 1
                ctx.obligation(name, fn, 'proved', 'z3', dt, shash)
            elif verdict == 'sat':
                summary['refuted'].append((name, model))
            else:
                summary['undecided'].append(name)
                ctx.obligation(name, fn, 'undecided', 'z3', dt, shash, detail=verdict)
    summary['obligations'] = nobl
    summary['gen_s'] = time.time() - t0
    if nobl == 0:
        summary['vacuous'].append('no obligations generated for %s' % fn)
    return summary
