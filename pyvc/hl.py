"""Carrier-generic helpers for contract clauses: the same clause text is evaluated over z3 terms
(proof) and over Python ints (CPython cross-check / replay).  No z3 import at module level, so
the replay interpreter (which has no solver) can load contract files."""


def _z3():
    import z3
    return z3


def is_term(x):
    return hasattr(x, 'sexpr')


def any_term(*xs):
    return any(is_term(x) for x in xs)


def pow2(k):
    if is_term(k):
        from pyvc import theory
        return theory.pow2(k)
    return 1 << k if k >= 0 else 1


def mod(a, m):
    """floor modulo, m > 0"""
    return a % m


def div(a, m):
    """floor division, m > 0"""
    if any_term(a, m):
        return a / m
    return a // m


def If(c, a, b):
    if is_term(c):
        z3 = _z3()
        if isinstance(a, bool) or isinstance(b, bool) or (is_term(a) and z3.is_bool(a)):
            a = z3.BoolVal(a) if isinstance(a, bool) else a
            b = z3.BoolVal(b) if isinstance(b, bool) else b
        return z3.If(c, a, b)
    return a if c else b


def And(*cs):
    cs = [c for c in cs if c is not True]
    if any(is_term(c) for c in cs):
        z3 = _z3()
        return z3.And(*[z3.BoolVal(c) if isinstance(c, bool) else c for c in cs])
    return all(cs)


def Or(*cs):
    if any(is_term(c) for c in cs):
        z3 = _z3()
        return z3.Or(*[z3.BoolVal(c) if isinstance(c, bool) else c for c in cs])
    return any(cs)


def Not(c):
    if is_term(c):
        return _z3().Not(c)
    return not c


def Implies(a, b):
    if any_term(a, b):
        z3 = _z3()
        a = z3.BoolVal(a) if isinstance(a, bool) else a
        b = z3.BoolVal(b) if isinstance(b, bool) else b
        return z3.Implies(a, b)
    return (not a) or b


def b2i(c):
    if is_term(c):
        z3 = _z3()
        return z3.If(c, z3.IntVal(1), z3.IntVal(0))
    return 1 if c else 0


def band(a, b):
    if any_term(a, b):
        from pyvc import theory
        z3 = _z3()
        return theory.band(a if is_term(a) else z3.IntVal(a), b if is_term(b) else z3.IntVal(b))
    return a & b


def bor(a, b):
    if any_term(a, b):
        from pyvc import theory
        z3 = _z3()
        return theory.bor(a if is_term(a) else z3.IntVal(a), b if is_term(b) else z3.IntVal(b))
    return a | b


def bxor(a, b):
    if any_term(a, b):
        from pyvc import theory
        z3 = _z3()
        return theory.bxor(a if is_term(a) else z3.IntVal(a), b if is_term(b) else z3.IntVal(b))
    return a ^ b


def bitlen(x):
    """int.bit_length of a non-negative integer"""
    if is_term(x):
        from pyvc import theory
        return theory.bitlen(x)
    return int(x).bit_length()


def imax(a, b):
    return If(a >= b, a, b)


def sgn(v, n):
    """two's complement reading of an n-bit value"""
    return If(v >= pow2(n - 1), v - pow2(n), v)


class NS(object):
    """Namespace handed to contract clauses."""

    def __init__(_ns, **kw):
        _ns.__dict__.update(kw)

    def __repr__(self):
        return 'NS(%s)' % ', '.join('%s=%r' % kv for kv in sorted(self.__dict__.items()))
