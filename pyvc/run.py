"""Property-level driver for the deductive engine: verify contracts, cross-check them on CPython,
triage refutations, compare with obligations.lock, report through ctx."""
import contextlib
import io
import json
import os
import re
import time
import traceback

from vlib.ctx import ROOT
from pyvc import verify
from pyvc import engine as E
from pyvc.contract import REGISTRY

LOCK = os.path.join(ROOT, 'obligations.lock')


def load_lock():
    if not os.path.exists(LOCK):
        return {}
    with open(LOCK) as f:
        return json.load(f)


def base_name(n):
    return re.sub(r'@p\d+$', '', n)


def in_lock(bn, locked):
    """is the (refuted) obligation one whose case was discharged on the baseline?  Either under its own
    name, or - for the exception clauses, whose names depend on which way a path goes - through the other
    clause of the same contract case: `must-raise:E` (the path now returns) is the baseline's `raises:E`,
    `raises:E` (the path now raises where it must not) is the baseline's postcondition of that case."""
    if bn in locked:
        return True
    for mark, other in ((':must-raise:', ':raises:'), (':raises:', ':post:'), (':raises:', ':must-raise:')):
        if mark in bn:
            prefix = bn.split(mark)[0]
            if any(n.startswith(prefix + other) for n in locked):
                return True
    return False


def concrete_run(contract, tier, limit=None, max_failures=12):
    """CPython cross-check: the executable contract on the real function for an enumeration of
    small inputs.  -> (n_run, failures) ; failures = [(label, observed, expected), ...]"""
    n = 0
    fails = []
    for label, thunk in contract.concrete(tier):
        n += 1
        try:
            with contextlib.redirect_stdout(io.StringIO()):
                ok, obs, exp = thunk()
        except Exception as e:        # the real code raised where the contract expects a result
            ok, obs, exp = False, '%s: %s' % (type(e).__name__, str(e)[:200]), 'no exception'
        if not ok:
            fails.append((label, obs, exp))
            if len(fails) >= max_failures:
                break
        if limit and n >= limit:
            break
    return n, fails


from pyvc.replay import replay_contract_case   # noqa: E402,F401


def lean_lemmas(ctx):
    """thorough tier: re-check the integer-theory lemmas behind the ground axioms with Lean/Mathlib"""
    import shutil
    import subprocess
    if getattr(ctx, '_lean_done', False):
        return
    ctx._lean_done = True
    src = os.path.join(ROOT, 'lean', 'PyInt.lean')
    lean = shutil.which('lean')
    t0 = time.time()
    if lean is None or not os.path.exists(src):
        ctx.notes.append('lean not available: int-theory lemmas not re-checked in this run')
        return
    try:
        p = subprocess.run([lean, src], capture_output=True, text=True, timeout=1500, cwd=os.path.dirname(src))
        ok = p.returncode == 0 and 'error' not in (p.stdout + p.stderr)
        detail = None if ok else (p.stdout + p.stderr)[-600:]
    except subprocess.TimeoutExpired:
        ok, detail = False, 'lean timed out'
    ctx.obligation('int-theory lemmas (lean/PyInt.lean)', 'pyvc.theory ground axioms / engine rewrites',
                   'proved' if ok else 'undecided', 'lean4+mathlib', time.time() - t0, detail=detail)


def run_contracts(ctx, contracts, contracts_module):
    """contracts: list of Contract instances (already registered)."""
    if ctx.tier == 'thorough':
        lean_lemmas(ctx)
    lock = load_lock()
    t0 = time.time()
    total_concrete = 0
    for c in contracts:
        if getattr(ctx, 'only', None) and ctx.only not in c.key_name:
            continue
        fn = '%s.%s' % (c.module, c.qualname)
        try:
            summ = verify.verify_contract(ctx, c)
        except Exception:
            # engine crash on this function: undecided, never a violation
            ctx.obligation(c.qualname + ':engine', fn, 'undecided', 'pyvc', 0.0,
                           detail='engine error: ' + traceback.format_exc()[-600:])
            summ = dict(refuted=[], undecided=[c.qualname + ':engine'], vacuous=[], obligations=1,
                        proved=0, unsupported='engine error')
        if summ['vacuous']:
            raise RuntimeError('vacuous contract (contradictory premises or zero obligations): %s'
                               % summ['vacuous'][:3])
        # CPython cross-check, every run
        try:
            nrun, fail = concrete_run(c, ctx.tier)
        except Exception:
            raise RuntimeError('concrete cross-check of %s crashed:\n%s' % (fn, traceback.format_exc()))
        total_concrete += nrun
        if fail:
            if not summ['refuted'] and summ.get('proved', 0) and not summ['undecided']:
                ctx.engine_unsound = True
                ctx.notes.append('ENGINE UNSOUND?: %s proved but fails concretely at %s' % (fn, fail[0][0]))
            outcomes = []
            for (label, obs, exp) in fail:
                r = ctx.confirm_and_report(
                    '%s:concrete[%s]' % (c.key_name, label), 'call',
                    dict(module='pyvc.replay', func='replay_contract_case',
                         kwargs=dict(contracts_module=contracts_module, module=c.module,
                                     qualname=c.key_name, label=label)),
                    canonical_input=dict(function=fn, case=label), function=fn,
                    solver_output='refuted obligations: %s' % [r_[0] for r_ in summ['refuted']][:6],
                    text='contract of %s fails on the real code' % fn)
                outcomes.append(r)
            all_known = all(o == 'known' for o in outcomes)
            for name, model in summ['refuted']:
                ctx.obligation(name, fn, 'refuted-known' if all_known else 'refuted-replayed', 'z3', 0.0,
                               detail='failing inputs: %s' % [f[0] for f in fail][:4])
            continue
        locked = set(lock.get(fn, {}).get('proved', []))
        for name, model in summ['refuted']:
            bn = base_name(name)
            if in_lock(bn, locked):
                ctx.obligation(name, fn, 'refuted-no-input', 'z3', 0.0, detail=str(model)[:300])
                ctx.violation(bn, dict(function=fn, obligation=bn), 'solver refutes an obligation '
                              'that was discharged on the baseline tree', 'unsat',
                              function=fn, no_input=True,
                              solver_output='z3: sat\nmodel: %s' % model,
                              text='obligation %s no longer holds' % bn)
            else:
                ctx.obligation(name, fn, 'undecided', 'z3', 0.0,
                               detail='sat (candidate model %s) but not in obligations.lock and no '
                                      'failing concrete input' % str(model)[:200])
    # obligations recorded on the baseline tree that were not regenerated (per function, after
    # all contracts of the function ran)
    mine = set('%s.%s' % (c.module, c.qualname) for c in contracts)
    for fn in sorted(mine):
        locked = set(lock.get(fn, {}).get('proved', []))
        if getattr(ctx, 'only', None):
            continue
        have = set(base_name(o['name']) for o in ctx.obligations if o['function'] == fn)
        keys = [c.key_name for c in contracts if '%s.%s' % (c.module, c.qualname) == fn]
        locked = set(n for n in locked if _owned(n, keys))     # other variants run under other properties
        missing = locked - have
        unsupported = any(o['function'] == fn and o['name'].endswith(':symbolic-execution')
                          for o in ctx.obligations)
        if missing and not unsupported:
            ctx.notes.append('%s: %d locked obligations not regenerated (code shape changed): %s'
                             % (fn, len(missing), sorted(missing)[:3]))
            ctx.obligation(fn.split('.')[-1] + ':locked-obligations-missing', fn, 'undecided', 'pyvc', 0.0,
                           detail='%d obligations recorded in obligations.lock were not generated'
                                  % len(missing))
    if os.environ.get('VERIF_RELOCK') == '1':
        write_lock([ctx], [c.key_name for c in contracts])
    ctx.family('pyvc.cpython_crosscheck', 'B', instances=len(contracts), evaluations=total_concrete,
               nontrivial=total_concrete, exhaustive=False,
               bound='executable contracts evaluated on the real functions over enumerated small inputs',
               sample=None)
    return time.time() - t0


def _owned(name, keys):
    return any(name.startswith(k + ':') or name.startswith(k + '{') for k in keys)


def write_lock(ctxs, keys=None):
    """ctxs: list of Ctx after full runs on the baseline tree; keys: key names of the contracts that
    ran (entries of other contracts on the same function are kept)."""
    lock = {}
    for ctx in ctxs:
        for o in ctx.obligations:
            if o['status'] == 'proved':
                e = lock.setdefault(o['function'], {'proved': [], 'src_sha256': o.get('src_sha256')})
                bn = base_name(o['name'])
                if bn not in e['proved']:
                    e['proved'].append(bn)
    old = load_lock()
    for fn, e in lock.items():
        if keys is not None and fn in old:
            kept = [n for n in old[fn].get('proved', []) if not _owned(n, keys) and n not in e['proved']]
            e['proved'] = kept + e['proved']
        old[fn] = e
    with open(LOCK, 'w') as f:
        json.dump(old, f, indent=1, sort_keys=True)


def run_vcs(ctx, fn, vcs, shash=None, key=None):
    """Discharge free-standing VCs (tables / lemmas over real source constants) with the same
    verdict handling as contracts: proved -> obligation; sat + recorded in the lock -> violation
    without input; sat otherwise -> undecided; zero obligations / unsatisfiable premises -> fault."""
    lock = load_lock()
    locked = set(lock.get(fn, {}).get('proved', []))
    res = verify.discharge(vcs, 10000 if ctx.tier == 'quick' else 30000)
    nobl = 0
    for v, r, dt, model in res:
        if v.kind == 'cover':
            if r == 'unsat':
                raise RuntimeError('vacuous premises in %s' % v.name)
            continue
        nobl += 1
        bn = base_name(v.name)
        if r == 'unsat':
            ctx.obligation(v.name, fn, 'proved', 'z3', dt, shash)
        elif r == 'sat' and in_lock(bn, locked):
            ctx.obligation(v.name, fn, 'refuted-no-input', 'z3', dt, shash, detail=str(model)[:300])
            ctx.violation(bn, dict(function=fn, obligation=bn), 'solver refutes an obligation that was '
                          'discharged on the baseline tree', 'unsat', function=fn, no_input=True,
                          solver_output='z3: sat\nmodel: %s' % model, text='obligation %s no longer holds' % bn)
        else:
            ctx.obligation(v.name, fn, 'undecided', 'z3', dt, shash, detail=str(r))
    if nobl == 0:
        raise RuntimeError('no obligations generated for %s' % fn)
    have = set(base_name(o['name']) for o in ctx.obligations if o['function'] == fn)
    if key is not None:
        missing = set(n for n in locked if n.startswith(key)) - have
        if missing:
            ctx.obligation(fn.split('.')[-1] + ':locked-obligations-missing', fn, 'undecided', 'pyvc', 0.0,
                           detail='%d obligations recorded in obligations.lock were not generated: %s'
                                  % (len(missing), sorted(missing)[:3]))
    if os.environ.get('VERIF_RELOCK') == '1':
        write_lock([ctx], None)
    return nobl
