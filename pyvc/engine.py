"""pyvc - verification-condition generator for a subset of Python, run on the REAL function
bodies read from /repo with `ast` on every run (nothing is rewritten; see DESIGN 2.3 for the
exact list of what extraction drops: docstrings, print/warn calls, exception messages,
annotations).  Path-by-path symbolic execution over mathematical integers; loops are cut at
sidecar invariants; calls to functions under contract are replaced by the contract.

Every check the engine emits is a VC  (path condition  =>  goal)  with a name; VCs are
discharged afterwards by pyvc/discharge.py."""
import ast
import hashlib
import itertools
import operator
import os
import z3

from pyvc import theory as T

REPO = os.environ.get('VERIF_REPO', '/repo')


class Unsupported(Exception):
    pass


class ReturnSig(Exception):
    def __init__(self, value):
        self.value = value


class RaiseSig(Exception):
    def __init__(self, exc, node=None):
        self.exc = exc          # exception class name (str)
        self.node = node


class BreakSig(Exception):
    pass


class ContinueSig(Exception):
    pass


class PathEnd(Exception):
    """The path stops here (e.g. after checking that a loop body preserves its invariant)."""


class Infeasible(Exception):
    pass


# ----------------------------------------------------------------------------- values
class Sym(object):
    """z3 Int or Bool term with provenance tags used for the bit-operation rewrites."""
    __slots__ = ('t', 'pow2_of', 'mask_of', 'shl_by')

    def __init__(self, t, pow2_of=None, mask_of=None, shl_by=None):
        self.t = t
        self.pow2_of = pow2_of      # t == pow2(pow2_of)
        self.mask_of = mask_of      # t == pow2(mask_of) - 1
        self.shl_by = shl_by        # t == x * pow2(shl_by)

    @property
    def is_bool(self):
        return z3.is_bool(self.t)

    def __repr__(self):
        return 'Sym(%s)' % self.t


def is_sym(v):
    return isinstance(v, Sym)


def term(v):
    """Int term of a value."""
    if isinstance(v, Sym):
        if v.is_bool:
            return z3.If(v.t, z3.IntVal(1), z3.IntVal(0))
        return v.t
    if isinstance(v, bool):
        return z3.IntVal(1 if v else 0)
    if isinstance(v, int):
        return z3.IntVal(v)
    if isinstance(v, z3.ArithRef):
        return v
    raise Unsupported('not an integer value: %r' % (v,))


def bterm(v):
    """Bool term (Python truthiness) of a value."""
    if isinstance(v, Sym):
        return v.t if v.is_bool else v.t != 0
    if isinstance(v, (bool, int)):
        return z3.BoolVal(bool(v))
    if v is None:
        return z3.BoolVal(False)
    if isinstance(v, (str, tuple, list, dict, set, frozenset)):
        return z3.BoolVal(bool(v))
    if isinstance(v, SObj):
        return z3.BoolVal(True)
    if isinstance(v, SSeq):
        return v.length != 0
    raise Unsupported('truthiness of %r' % (v,))


KINDS = {'WireVector': 0, 'Input': 1, 'Output': 2, 'Const': 3, 'Register': 4, '_MemIndexed': 5,
         'MemBlock': 10, 'RomBlock': 11, 'LogicNet': 20, 'Block': 30, 'PostSynthBlock': 31,
         'Simulation': 40, 'FastSimulation': 41, 'CompiledSimulation': 42, 'Other': 99}
SUBCLASSES = {
    'WireVector': ['WireVector', 'Input', 'Output', 'Const', 'Register', '_MemIndexed'],
    'Input': ['Input'], 'Output': ['Output'], 'Const': ['Const'], 'Register': ['Register'],
    '_MemIndexed': ['_MemIndexed'],
    'MemBlock': ['MemBlock', 'RomBlock'], 'RomBlock': ['RomBlock'], 'LogicNet': ['LogicNet'],
    'Block': ['Block', 'PostSynthBlock'], 'PostSynthBlock': ['PostSynthBlock'],
    'Simulation': ['Simulation'], 'FastSimulation': ['FastSimulation'],
    'CompiledSimulation': ['CompiledSimulation'],
}
BASES = {'Input': 'WireVector', 'Output': 'WireVector', 'Const': 'WireVector',
         'Register': 'WireVector', '_MemIndexed': 'WireVector', 'RomBlock': 'MemBlock',
         'PostSynthBlock': 'Block'}

_oid = itertools.count(1)


class SObj(object):
    """Symbolic record: class (concrete name, or symbolic kind term), fields, identity term."""

    def __init__(self, cls, fields=None, oid=None, kind=None):
        self.cls = cls                          # str or None (then kind is a z3 Int term)
        self.kind = kind if kind is not None else z3.IntVal(KINDS.get(cls, 99))
        self.fields = dict(fields or {})
        self.oid = oid if oid is not None else z3.IntVal(-next(_oid))

    def __repr__(self):
        return 'SObj(%s,%s)' % (self.cls, sorted(self.fields))


class SMap(object):
    """Finite map Int -> Int (or Int -> nested map).  arr: z3 Array; dom: Array(Int, Bool) or
    None (total).  Nested maps use `inner=True`: arr is Array(Int, Array(Int, Int)),
    dom2 is Array(Int, Array(Int, Bool))."""

    def __init__(self, arr, dom=None, parent=None, dom2=None, inner=False):
        self.arr, self.dom, self.parent, self.dom2, self.inner = arr, dom, parent, dom2, inner

    def copy(self):
        return SMap(self.arr, self.dom, None, self.dom2, self.inner)


class SSeq(object):
    """Immutable sequence of symbolic length.  elem(i_term) -> value."""

    def __init__(self, length, elem, kind='tuple', affine=None, const=None):
        self.length, self.elem, self.kind = length, elem, kind
        self.affine = affine      # z3 Int b: elem(i) == b + i  (ranges and their slices)
        self.const = const        # value v: elem(i) == v for all i  ((v,) * n)


class FSet(object):
    """Set of objects over a finite, concrete universe (list of SObj); membership is a z3 Bool
    per universe element.  Models Python sets of wires without quantifiers."""

    def __init__(self, universe, member=None):
        self.universe = list(universe)
        self.member = dict(member) if member is not None else {id(u): z3.BoolVal(False) for u in universe}

    def mem(self, o):
        if id(o) not in self.member:
            raise Unsupported('object outside the finite universe of a symbolic set')
        return self.member[id(o)]

    def copy(self):
        return FSet(self.universe, self.member)


class FuncVal(object):
    def __init__(self, node, env, module, qualname, cls=None):
        self.node, self.env, self.module, self.qualname, self.cls = node, env, module, qualname, cls


class BoundMethod(object):
    def __init__(self, func, obj):
        self.func, self.obj = func, obj


class ClassVal(object):
    def __init__(self, name, module=None):
        self.name, self.module = name, module


class ExcVal(object):
    def __init__(self, name):
        self.name = name


class Builtin(object):
    def __init__(self, name, fn):
        self.name, self.fn = name, fn


class ContractCall(object):
    """A callable that applies a contract instead of a body."""

    def __init__(self, contract, selfobj=None):
        self.contract, self.selfobj = contract, selfobj


EXC_NAMES = {'PyrtlError', 'PyrtlInternalError', 'KeyError', 'IndexError', 'TypeError',
             'ValueError', 'AttributeError', 'Exception', 'AssertionError', 'StopIteration',
             'NotImplementedError', 'ZeroDivisionError'}
EXC_BASES = {'PyrtlError': 'Exception', 'PyrtlInternalError': 'Exception', 'KeyError': 'Exception',
             'IndexError': 'Exception', 'TypeError': 'Exception', 'ValueError': 'Exception',
             'AttributeError': 'Exception', 'AssertionError': 'Exception',
             'ZeroDivisionError': 'Exception', 'NotImplementedError': 'Exception',
             'StopIteration': 'Exception'}


def exc_matches(name, handler):
    while name is not None:
        if name == handler:
            return True
        name = EXC_BASES.get(name)
    return False


# ----------------------------------------------------------------------------- repo source
class Module(object):
    def __init__(self, name):
        self.name = name
        path = os.path.join(REPO, *name.split('.')) + '.py'
        if not os.path.exists(path):
            path = os.path.join(REPO, *name.split('.'), '__init__.py')
        self.path = path
        with open(path) as f:
            self.src = f.read()
        self.tree = ast.parse(self.src)
        self.funcs, self.classes, self.imports, self.assigns = {}, {}, {}, {}
        for node in self.tree.body:
            self._index(node)

    def _index(self, node):
        if isinstance(node, ast.FunctionDef):
            self.funcs[node.name] = node
        elif isinstance(node, ast.ClassDef):
            self.classes[node.name] = node
        elif isinstance(node, ast.ImportFrom):
            base = self.name.rsplit('.', node.level)[0] if node.level else ''
            mod = (base + '.' + node.module) if (node.level and node.module) else (node.module or base)
            for a in node.names:
                self.imports[a.asname or a.name] = (mod, a.name)
        elif isinstance(node, ast.Import):
            for a in node.names:
                self.imports[a.asname or a.name.split('.')[0]] = (a.name, None)
        elif isinstance(node, ast.Assign) and len(node.targets) == 1 and \
                isinstance(node.targets[0], ast.Name):
            self.assigns[node.targets[0].id] = node.value
        elif isinstance(node, (ast.If, ast.Try)):
            for n in node.body:
                self._index(n)

    def class_members(self, cname):
        """(methods, class-level assigns, bases) of a class in this module."""
        c = self.classes[cname]
        methods, assigns = {}, {}
        for n in c.body:
            if isinstance(n, ast.FunctionDef):
                methods.setdefault(n.name, []).append(n)
            elif isinstance(n, ast.Assign) and isinstance(n.targets[0], ast.Name):
                assigns[n.targets[0].id] = n.value
            elif isinstance(n, ast.ClassDef):
                assigns[n.name] = n
        bases = [b.id for b in c.bases if isinstance(b, ast.Name)]
        return methods, assigns, bases

    def segment(self, node):
        return ast.get_source_segment(self.src, node) or ''


_modules = {}


def get_module(name):
    if name not in _modules:
        _modules[name] = Module(name)
    return _modules[name]


CLASS_HOME = {'WireVector': 'pyrtl.wire', 'Input': 'pyrtl.wire', 'Output': 'pyrtl.wire',
              'Const': 'pyrtl.wire', 'Register': 'pyrtl.wire', '_MemIndexed': 'pyrtl.memory',
              'MemBlock': 'pyrtl.memory', 'RomBlock': 'pyrtl.memory', 'LogicNet': 'pyrtl.core',
              'Block': 'pyrtl.core', 'PostSynthBlock': 'pyrtl.core',
              'Simulation': 'pyrtl.simulation', 'FastSimulation': 'pyrtl.simulation',
              'CompiledSimulation': 'pyrtl.compilesim', 'SimulationTrace': 'pyrtl.simulation',
              'Matrix': 'pyrtl.rtllib.matrix'}
# classes whose `@x.setter` methods are executed on attribute stores (elsewhere stores write the field)
SETTER_CLASSES = {'Matrix'}


def find_setter(cls, name):
    home = CLASS_HOME.get(cls)
    if home is None:
        return None
    m = get_module(home)
    if cls not in m.classes:
        return None
    for node in m.class_members(cls)[0].get(name, []):
        for d in node.decorator_list:
            if isinstance(d, ast.Attribute) and d.attr == 'setter':
                return FuncVal(node, None, m, '%s.%s[setter]' % (cls, name), cls=cls)
    return None


def find_method(cls, name):
    """Resolve a method/property/class attribute through the repo class hierarchy.
    Returns ('method', node, module, cls) | ('property', node, module, cls) |
    ('attr', valuenode, module, cls) | None"""
    c = cls
    while c is not None:
        home = CLASS_HOME.get(c)
        if home is None:
            return None
        m = get_module(home)
        if c in m.classes:
            methods, assigns, bases = m.class_members(c)
            if name in methods:
                node = methods[name][0]
                kinds = [d.id if isinstance(d, ast.Name) else
                         (d.attr if isinstance(d, ast.Attribute) else None)
                         for d in node.decorator_list]
                if 'property' in kinds:
                    return ('property', node, m, c)
                if 'staticmethod' in kinds:
                    return ('static', node, m, c)
                return ('method', node, m, c)
            if name in assigns:
                return ('attr', assigns[name], m, c)
            c = bases[0] if bases and bases[0] != 'object' else BASES.get(c)
        else:
            c = BASES.get(c)
    return None


def locate(module, qualname):
    """Find the AST node for 'func', 'Class.method', 'outer.inner', 'Class.attr[key]'.
    Returns (node, module, cls)."""
    m = get_module(module)
    key = None
    setter = False
    if qualname.endswith('[setter]'):           # 'Class.prop[setter]': the @prop.setter method
        qualname, setter = qualname[:-len('[setter]')], True
    elif qualname.endswith(']'):
        qualname, key = qualname[:-1].split('[', 1)
        key = ast.literal_eval(key)
    parts = qualname.split('.')
    scope_body = m.tree.body
    node, cls = None, None
    for i, p in enumerate(parts):
        found = None
        for n in _walk_defs(scope_body):
            if isinstance(n, (ast.FunctionDef, ast.ClassDef)) and n.name == p:
                if setter and i == len(parts) - 1 and not any(
                        isinstance(d, ast.Attribute) and d.attr == 'setter' for d in n.decorator_list):
                    continue
                found = n
                break
            if isinstance(n, ast.Assign) and isinstance(n.targets[0], ast.Name) and \
                    n.targets[0].id == p:
                found = n.value
                break
        if found is None:
            raise KeyError('%s.%s not found' % (module, qualname))
        node = found
        if isinstance(found, ast.ClassDef):
            cls = found.name
        scope_body = getattr(found, 'body', [])
    if key is not None:
        if not isinstance(node, ast.Dict):
            raise KeyError('%s.%s is not a dict literal' % (module, qualname))
        for k, v in zip(node.keys, node.values):
            if isinstance(k, ast.Constant) and k.value == key:
                return v, m, cls
        raise KeyError('%s.%s[%r] not found' % (module, qualname, key))
    return node, m, cls


def _walk_defs(body):
    for n in body:
        yield n
        if isinstance(n, (ast.If, ast.Try, ast.With, ast.For, ast.While)):
            for sub in ('body', 'orelse', 'finalbody'):
                for x in _walk_defs(getattr(n, sub, [])):
                    yield x


def source_hash(module, qualname):
    node, m, _ = locate(module, qualname)
    return hashlib.sha256(m.segment(node).encode()).hexdigest()


# ----------------------------------------------------------------------------- state
class VC(object):
    def __init__(self, name, pc, goal, kind='assert', info=None):
        self.name, self.pc, self.goal, self.kind, self.info = name, pc, goal, kind, info


class State(object):
    def __init__(self, prefix, worklist, solver_timeout=3000):
        self.pc = []
        self.prefix = list(prefix)
        self.pos = 0
        self.decisions = []
        self.worklist = worklist
        self.vcs = []
        self.n = itertools.count()
        self.timeout = solver_timeout
        self.ghost = {}
        self.trace = []
        self.inlined = set()
        self.used_contracts = set()
        self.modelled = set()

    def fresh_int(self, hint='v'):
        return Sym(z3.Int('%s!%d' % (hint, next(self.n))))

    def fresh_bool(self, hint='b'):
        return Sym(z3.Bool('%s!%d' % (hint, next(self.n))))

    def assume(self, c):
        if isinstance(c, bool):
            if not c:
                raise Infeasible()
            return
        self.pc.append(c)

    def check_sat(self, extra):
        s = z3.Solver()
        s.set('timeout', self.timeout)
        fs = self.pc + list(extra)
        s.add(*fs)
        s.add(*T.ground_axioms(fs))
        return s.check()

    def branch(self, cond):
        """cond: z3 Bool term.  Returns the Python bool chosen for this path."""
        c = z3.simplify(cond)
        if z3.is_true(c):
            return True
        if z3.is_false(c):
            return False
        if self.pos < len(self.prefix):
            d = self.prefix[self.pos]
        else:
            can_t = self.check_sat([c]) != z3.unsat
            can_f = self.check_sat([z3.Not(c)]) != z3.unsat
            if can_t and can_f:
                d = True
                self.worklist.append(self.decisions + [False])
            elif can_t:
                d = True
            elif can_f:
                d = False
            else:
                raise Infeasible()
        self.pos += 1
        self.decisions.append(d)
        self.pc.append(c if d else z3.Not(c))
        return d

    def vc(self, name, goal, kind='assert', info=None):
        if isinstance(goal, bool):
            goal = z3.BoolVal(goal)
        self.vcs.append(VC(name, list(self.pc), goal, kind, info))

    def prove_now(self, goal):
        """Quick entailment check used by rewrites (e.g. is  x | y  a disjoint sum?)."""
        return self.check_sat([z3.Not(goal)]) == z3.unsat


# ----------------------------------------------------------------------------- interpreter
class Frame(object):
    def __init__(self, env, module, func=None, parent=None):
        self.env, self.module, self.func, self.parent = env, module, func, parent

    def lookup(self, name):
        f = self
        while f is not None:
            if name in f.env:
                return f.env[name]
            f = f.parent
        raise KeyError(name)


class Interp(object):
    def __init__(self, st, contracts=None, loop_invariants=None, hooks=None, max_inline=40):
        self.st = st
        self.contracts = contracts or {}          # (module, qualname) -> Contract
        self.loop_invariants = loop_invariants or {}   # (qualname, ordinal) -> callable
        self.hooks = hooks or {}
        self.depth = 0
        self.max_inline = max_inline
        self.loop_counter = {}

    # ------------------------------------------------------------------ calls
    def call_function(self, fv, args, kwargs=None, selfobj=None):
        kwargs = dict(kwargs or {})
        node = fv.node
        self.depth += 1
        if self.depth > self.max_inline:
            raise Unsupported('inline depth exceeded at %s' % fv.qualname)
        try:
            env = {}
            if isinstance(node, ast.Lambda):
                a = node.args
            else:
                a = node.args
            params = [p.arg for p in a.posonlyargs + a.args]
            allargs = list(args)
            if selfobj is not None:
                allargs = [selfobj] + allargs
            defaults = a.defaults
            ndef = len(defaults)
            for i, p in enumerate(params):
                if i < len(allargs):
                    env[p] = allargs[i]
                elif p in kwargs:
                    env[p] = kwargs.pop(p)
                else:
                    di = i - (len(params) - ndef)
                    if di < 0:
                        raise Unsupported('missing argument %s for %s' % (p, fv.qualname))
                    env[p] = self.eval(defaults[di], Frame(fv.env.env if fv.env else {}, fv.module,
                                                           parent=fv.env))
            if a.vararg is not None:
                env[a.vararg.arg] = tuple(allargs[len(params):])
            elif len(allargs) > len(params):
                raise Unsupported('too many arguments for %s' % fv.qualname)
            for p, d in zip(a.kwonlyargs, a.kw_defaults):
                if p.arg in kwargs:
                    env[p.arg] = kwargs.pop(p.arg)
                elif d is not None:
                    env[p.arg] = self.eval(d, Frame({}, fv.module, parent=fv.env))
            if a.kwarg is not None:
                env[a.kwarg.arg] = kwargs
            elif kwargs:
                raise Unsupported('unexpected kwargs %s for %s' % (sorted(kwargs), fv.qualname))
            fr = Frame(env, fv.module, func=fv, parent=fv.env)
            if isinstance(node, ast.Lambda):
                return self.eval(node.body, fr)
            try:
                self.exec_block(node.body, fr)
            except ReturnSig as r:
                return r.value
            return None
        finally:
            self.depth -= 1

    def call(self, f, args, kwargs=None, node=None, frame=None):
        kwargs = kwargs or {}
        if isinstance(f, Builtin):
            if '(' in f.name:           # stubs / ghost models carry an explanation in parentheses
                self.st.modelled.add(f.name)
            return f.fn(self, args, kwargs)
        if isinstance(f, ContractCall):
            return f.contract.apply(self, f.selfobj, args, kwargs)
        if isinstance(f, BoundMethod):
            c = self._contract_for(f.func)
            if c is not None:
                return c.apply(self, f.obj, args, kwargs)
            self.st.inlined.add(f.func.qualname)
            return self.call_function(f.func, args, kwargs, selfobj=f.obj)
        if isinstance(f, FuncVal):
            c = self._contract_for(f)
            if c is not None:
                return c.apply(self, None, args, kwargs)
            self.st.inlined.add(f.qualname)
            return self.call_function(f, args, kwargs)
        if isinstance(f, ClassVal):
            return self.construct(f, args, kwargs)
        if isinstance(f, ExcVal):
            return ExcVal(f.name)
        if callable(f) and not isinstance(f, (Sym, SObj)):
            return f(*args, **kwargs)
        raise Unsupported('call of %r' % (f,))

    def _contract_for(self, fv):
        key = (fv.module.name, fv.qualname)
        c = self.contracts.get(key)
        if c is not None and getattr(c, 'inline_at_calls', False):
            return None         # verified on its own, but callers execute the real body
        if c is not None and getattr(self, 'verifying', None) == key and not c.recursive_ok:
            return None         # the function under verification is executed, not summarised
        return c

    def construct(self, cv, args, kwargs):
        h = self.hooks.get('construct:' + cv.name)
        if h is not None:
            self.st.modelled.add('constructor ' + cv.name)
            return h(self, args, kwargs)
        raise Unsupported('constructor %s(...) not modelled' % cv.name)

    # ------------------------------------------------------------------ statements
    def exec_block(self, body, fr):
        for s in body:
            self.exec_stmt(s, fr)

    def exec_stmt(self, s, fr):
        m = getattr(self, 'st_' + type(s).__name__, None)
        if m is None:
            raise Unsupported('statement %s (line %d)' % (type(s).__name__, s.lineno))
        return m(s, fr)

    def st_Expr(self, s, fr):
        v = s.value
        if isinstance(v, ast.Constant):
            return          # docstring
        if isinstance(v, ast.Call) and isinstance(v.func, ast.Name) and v.func.id == 'print':
            h = self.hooks.get('print')
            if h is not None:       # the printed text IS the subject (code emitters): evaluate and hand over
                h(self, [self.eval(a, fr) for a in v.args], fr)
            return          # otherwise dropped: print()
        if isinstance(v, ast.Call) and isinstance(v.func, ast.Attribute) and \
                v.func.attr == 'warn':
            return
        if isinstance(v, (ast.Yield,)):
            val = self.eval(v.value, fr) if v.value is not None else None
            h = self.hooks.get('yield')
            if h is None:
                raise Unsupported('yield without hook')
            h(self, val, fr)
            return
        self.eval(v, fr)

    def st_Pass(self, s, fr):
        return

    def st_Import(self, s, fr):
        for a in s.names:
            fr.env[a.asname or a.name.split('.')[0]] = ('module', a.name)

    def st_ImportFrom(self, s, fr):
        base = fr.module.name.rsplit('.', s.level)[0] if s.level else ''
        mod = (base + '.' + s.module) if (s.level and s.module) else (s.module or base)
        for a in s.names:
            fr.env[a.asname or a.name] = self.resolve_import(mod, a.name)

    def st_Global(self, s, fr):
        raise Unsupported('global statement')

    def st_Return(self, s, fr):
        raise ReturnSig(self.eval(s.value, fr) if s.value is not None else None)

    def st_Raise(self, s, fr):
        if s.exc is None:
            raise RaiseSig(fr.lookup('__active_exc__'), s)
        e = s.exc
        name = None
        if isinstance(e, ast.Call):
            e = e.func           # dropped: message arguments
        if isinstance(e, ast.Name):
            name = e.id
        elif isinstance(e, ast.Attribute):
            name = e.attr
        if name in fr.env or True:
            try:
                v = fr.lookup(name)
                if isinstance(v, ExcVal):
                    name = v.name
            except KeyError:
                pass
        raise RaiseSig(name, s)

    def st_Assert(self, s, fr):
        c = self.eval(s.test, fr)
        if not self.truth(c):
            raise RaiseSig('AssertionError', s)

    def st_Assign(self, s, fr):
        v = self.eval(s.value, fr)
        for t in s.targets:
            self.assign(t, v, fr)

    def st_AnnAssign(self, s, fr):
        if s.value is not None:
            self.assign(s.target, self.eval(s.value, fr), fr)

    def st_AugAssign(self, s, fr):
        cur = self.eval(_load(s.target), fr)
        rhs = self.eval(s.value, fr)
        v = None
        if isinstance(cur, SObj) and cur.cls is not None:
            nm = {'Add': 'iadd', 'Sub': 'isub', 'Mult': 'imul', 'BitAnd': 'iand', 'BitOr': 'ior',
                  'BitXor': 'ixor', 'LShift': 'ilshift', 'RShift': 'irshift'}.get(type(s.op).__name__)
            if nm is not None and find_method(cur.cls, '__%s__' % nm) is not None:
                v = self.obj_special(cur, '__%s__' % nm, [rhs])
                self.assign(s.target, v, fr)
                return
        v = self.binop(type(s.op).__name__, cur, rhs)
        self.assign(s.target, v, fr)

    def st_If(self, s, fr):
        if self.truth(self.eval(s.test, fr)):
            self.exec_block(s.body, fr)
        else:
            self.exec_block(s.orelse, fr)

    def st_FunctionDef(self, s, fr):
        qn = (fr.func.qualname + '.' + s.name) if fr.func is not None else s.name
        fr.env[s.name] = FuncVal(s, fr, fr.module, qn)

    def st_Delete(self, s, fr):
        raise Unsupported('del')

    def st_Break(self, s, fr):
        raise BreakSig()

    def st_Continue(self, s, fr):
        raise ContinueSig()

    def st_With(self, s, fr):
        h = self.hooks.get('with')
        if h is None:
            raise Unsupported('with statement')
        h(self, s, fr)

    def st_Try(self, s, fr):
        try:
            try:
                self.exec_block(s.body, fr)
            except RaiseSig as r:
                for h in s.handlers:
                    names = []
                    if h.type is None:
                        names = ['Exception']
                    elif isinstance(h.type, ast.Tuple):
                        names = [_name_of(e) for e in h.type.elts]
                    else:
                        names = [_name_of(h.type)]
                    if any(exc_matches(r.exc, n) for n in names):
                        if h.name:
                            fr.env[h.name] = ExcVal(r.exc)
                        fr.env['__active_exc__'] = r.exc
                        self.exec_block(h.body, fr)
                        break
                else:
                    raise
            else:
                self.exec_block(s.orelse, fr)
        finally:
            if s.finalbody:
                self.exec_block(s.finalbody, fr)

    def _loop_key(self, fr, s):
        fn = fr.func.qualname if fr.func is not None else '<module>'
        # ordinal of this loop among the loops of the function, in source order
        node = fr.func.node if fr.func is not None else None
        ordn = 0
        if node is not None:
            loops = [n for n in ast.walk(node) if isinstance(n, (ast.For, ast.While))]
            loops.sort(key=lambda n: (n.lineno, n.col_offset))
            ordn = loops.index(s)
        return (fn, ordn)

    def st_For(self, s, fr):
        it = self.eval(s.iter, fr)
        if isinstance(it, SObj) and 'iterseq' in self.hooks:
            r = self.hooks['iterseq'](self, it)        # an object iterated as a symbolic sequence
            if r is not None:
                it = r
        if isinstance(it, SSeq):
            n = z3.simplify(it.length)
            if z3.is_int_value(n):
                it = [it.elem(z3.IntVal(i)) for i in range(n.as_long())]
            else:
                return self.cut_loop(s, fr, it)
        if isinstance(it, FSet):
            # run the body once for an arbitrary member; only bodies that leave the loop at once
            # (raise / return) are supported without an invariant
            for u in it.universe:
                if self.truth(Sym(it.member[id(u)])):
                    self.assign(s.target, u, fr)
                    self.exec_block(s.body, fr)
                    raise Unsupported('loop over a symbolic set whose body continues')
            self.exec_block(s.orelse, fr)
            return
        if isinstance(it, SMap):
            raise Unsupported('iteration over symbolic map')
        try:
            items = list(self.iterate(it))
        except TypeError:
            raise Unsupported('for over %r' % (it,))
        broke = False
        for x in items:
            self.assign(s.target, x, fr)
            try:
                self.exec_block(s.body, fr)
            except BreakSig:
                broke = True
                break
            except ContinueSig:
                continue
        if not broke:
            self.exec_block(s.orelse, fr)

    def st_While(self, s, fr):
        key = self._loop_key(fr, s)
        inv = self.loop_invariants.get(key)
        if inv is None:
            # unroll while the condition is concrete
            n = 0
            while True:
                c = self.eval(s.test, fr)
                if isinstance(c, Sym):
                    raise Unsupported('while loop %s/%d with symbolic condition and no invariant' % key)
                if not c:
                    break
                n += 1
                if n > 256:
                    raise Unsupported('while loop unrolled > 256 times')
                try:
                    self.exec_block(s.body, fr)
                except BreakSig:
                    return
                except ContinueSig:
                    continue
            self.exec_block(s.orelse, fr)
            return
        return inv.run_while(self, s, fr, key)

    def cut_loop(self, s, fr, seq):
        key = self._loop_key(fr, s)
        inv = self.loop_invariants.get(key)
        if inv is None:
            raise Unsupported('loop %s/%d over a symbolic sequence has no invariant' % key)
        return inv.run_for(self, s, fr, seq, key)

    # ------------------------------------------------------------------ assignment
    def assign(self, t, v, fr):
        if isinstance(t, ast.Name):
            fr.env[t.id] = v
        elif isinstance(t, (ast.Tuple, ast.List)):
            vals = list(self.iterate(v))
            if len(vals) != len(t.elts):
                raise RaiseSig('ValueError', t)
            for e, x in zip(t.elts, vals):
                self.assign(e, x, fr)
        elif isinstance(t, ast.Attribute):
            o = self.eval(t.value, fr)
            if isinstance(o, SObj):
                h = self.hooks.get('setattr')
                if h is not None and h(self, o, t.attr, v):
                    return
                if o.cls in SETTER_CLASSES:
                    fs = find_setter(o.cls, t.attr)
                    if fs is not None:
                        self.st.inlined.add(fs.qualname)
                        self.call_function(fs, [v], {}, selfobj=o)
                        return
                o.fields[t.attr] = v
            else:
                raise Unsupported('attribute store on %r' % (o,))
        elif isinstance(t, ast.Subscript):
            o = self.eval(t.value, fr)
            k = self.eval(t.slice, fr)
            self.setitem(o, k, v)
        elif isinstance(t, ast.Starred):
            raise Unsupported('starred assignment')
        else:
            raise Unsupported('assignment target %s' % type(t).__name__)

    def setitem(self, o, k, v):
        if isinstance(o, SMap):
            kt = self.key_term(k)
            if o.inner:
                if not isinstance(v, SMap):
                    raise Unsupported('nested map store of non-map')
                o.arr = z3.Store(o.arr, kt, v.arr)
                if o.dom2 is not None and v.dom is not None:
                    o.dom2 = z3.Store(o.dom2, kt, v.dom)
            else:
                o.arr = z3.Store(o.arr, kt, term(v))
            if o.dom is not None:
                o.dom = z3.Store(o.dom, kt, z3.BoolVal(True))
            if o.parent is not None:
                p, pk = o.parent
                p.arr = z3.Store(p.arr, pk, o.arr)
                if p.dom2 is not None and o.dom is not None:
                    p.dom2 = z3.Store(p.dom2, pk, o.dom)
            return
        if isinstance(o, (list, dict)):
            if isinstance(k, Sym):
                raise Unsupported('symbolic index into concrete container')
            o[k] = v
            return
        if isinstance(o, SObj) and o.cls in SETTER_CLASSES:
            self.obj_special(o, '__setitem__', [k, v])
            return
        raise Unsupported('item store on %r' % (o,))

    def key_term(self, k):
        if isinstance(k, SObj):
            return k.oid
        return term(k)

    # ------------------------------------------------------------------ expressions
    def eval(self, e, fr):
        m = getattr(self, 'ev_' + type(e).__name__, None)
        if m is None:
            raise Unsupported('expression %s (line %d)' % (type(e).__name__, getattr(e, 'lineno', 0)))
        return m(e, fr)

    def ev_Constant(self, e, fr):
        return e.value

    def ev_Name(self, e, fr):
        try:
            return fr.lookup(e.id)
        except KeyError:
            pass
        return self.resolve_global(e.id, fr.module)

    def resolve_global(self, name, module):
        h = self.hooks.get('global:' + name)
        if h is not None:
            return h
        if name in module.funcs:
            return FuncVal(module.funcs[name], None, module, name)
        if name in module.classes:
            return ClassVal(name, module)
        if name in module.assigns:
            return self.eval(module.assigns[name], Frame({}, module))
        if name in module.imports:
            mod, nm = module.imports[name]
            if nm is None:
                return ('module', mod)
            return self.resolve_import(mod, nm)
        if name in BUILTINS:
            return BUILTINS[name]
        if name in EXC_NAMES:
            return ExcVal(name)
        raise Unsupported('unresolved name %s in %s' % (name, module.name))

    def resolve_import(self, mod, nm):
        h = self.hooks.get('import:%s.%s' % (mod, nm))
        if h is not None:
            return h
        if nm in EXC_NAMES:
            return ExcVal(nm)
        if nm in KINDS:
            return ClassVal(nm)
        if mod.startswith('pyrtl'):
            try:
                m = get_module(mod)
            except (IOError, OSError):
                raise Unsupported('cannot load %s' % mod)
            if nm in m.funcs:
                return FuncVal(m.funcs[nm], None, m, nm)
            if nm in m.classes:
                return ClassVal(nm, m)
            if nm in m.assigns:
                return self.eval(m.assigns[nm], Frame({}, m))
            if nm in m.imports:
                return self.resolve_import(*m.imports[nm])
        if mod in ('numbers',) or nm in ('Integral',):
            return ClassVal('Integral')
        if mod == 'types':
            return ClassVal(nm)
        raise Unsupported('unresolved import %s.%s' % (mod, nm))

    def ev_Tuple(self, e, fr):
        return tuple(self._elts(e.elts, fr))

    def ev_List(self, e, fr):
        return list(self._elts(e.elts, fr))

    def ev_Set(self, e, fr):
        return set(self._elts(e.elts, fr))

    def _elts(self, elts, fr):
        out = []
        for x in elts:
            if isinstance(x, ast.Starred):
                out.extend(self.iterate(self.eval(x.value, fr)))
            else:
                out.append(self.eval(x, fr))
        return out

    def ev_Dict(self, e, fr):
        d = {}
        for k, v in zip(e.keys, e.values):
            d[self.eval(k, fr)] = self.eval(v, fr)
        return d

    def ev_Lambda(self, e, fr):
        qn = (fr.func.qualname if fr.func is not None else '') + '.<lambda>'
        return FuncVal(e, fr, fr.module, qn)

    def ev_IfExp(self, e, fr):
        c = self.eval(e.test, fr)
        if isinstance(c, Sym):
            # merge when both arms are integer-valued and pure; otherwise fork
            try:
                a = self.eval(e.body, fr)
                b = self.eval(e.orelse, fr)
                if isinstance(a, (int, Sym)) and isinstance(b, (int, Sym)) and \
                        not isinstance(a, bool) and not isinstance(b, bool):
                    return Sym(z3.If(bterm(c), term(a), term(b)))
            except (RaiseSig, Unsupported):
                pass
        if self.truth(c):
            return self.eval(e.body, fr)
        return self.eval(e.orelse, fr)

    def ev_BoolOp(self, e, fr):
        isand = isinstance(e.op, ast.And)
        v = None
        for x in e.values:
            v = self.eval(x, fr)
            t = self.truth(v)
            if isand and not t:
                return v
            if not isand and t:
                return v
        return v

    def ev_UnaryOp(self, e, fr):
        v = self.eval(e.operand, fr)
        op = type(e.op).__name__
        if op == 'Not':
            if isinstance(v, Sym):
                return Sym(z3.Not(bterm(v)))
            return not self.truth(v)
        if isinstance(v, Sym):
            if op == 'USub':
                return Sym(-term(v))
            if op == 'Invert':
                return Sym(-term(v) - 1)
            if op == 'UAdd':
                return Sym(term(v))
        if isinstance(v, SObj):
            return self.obj_special(v, {'Invert': '__invert__', 'USub': '__neg__'}[op], [])
        return {'USub': operator.neg, 'Invert': operator.invert, 'UAdd': operator.pos}[op](v)

    def ev_BinOp(self, e, fr):
        return self.binop(type(e.op).__name__, self.eval(e.left, fr), self.eval(e.right, fr))

    def ev_Compare(self, e, fr):
        left = self.eval(e.left, fr)
        result = None
        for op, r in zip(e.ops, e.comparators):
            right = self.eval(r, fr)
            c = self.compare(type(op).__name__, left, right)
            if result is None:
                result = c
            else:
                if isinstance(result, Sym) or isinstance(c, Sym):
                    result = Sym(z3.And(bterm(result), bterm(c)))
                else:
                    result = result and c
            if not isinstance(result, Sym) and not result:
                return result
            left = right
        return result

    def ev_Attribute(self, e, fr):
        o = self.eval(e.value, fr)
        return self.getattr(o, e.attr)

    def ev_Subscript(self, e, fr):
        o = self.eval(e.value, fr)
        if isinstance(e.slice, ast.Slice):
            lo = self.eval(e.slice.lower, fr) if e.slice.lower is not None else None
            hi = self.eval(e.slice.upper, fr) if e.slice.upper is not None else None
            stp = self.eval(e.slice.step, fr) if e.slice.step is not None else None
            return self.getitem(o, slice(lo, hi, stp))
        return self.getitem(o, self.eval(e.slice, fr))

    def ev_Slice(self, e, fr):
        lo = self.eval(e.lower, fr) if e.lower is not None else None
        hi = self.eval(e.upper, fr) if e.upper is not None else None
        stp = self.eval(e.step, fr) if e.step is not None else None
        return slice(lo, hi, stp)

    def ev_Call(self, e, fr):
        f = self.eval(e.func, fr)
        args = []
        for a in e.args:
            if isinstance(a, ast.Starred):
                args.extend(self.iterate(self.eval(a.value, fr)))
            else:
                args.append(self.eval(a, fr))
        kwargs = {}
        for k in e.keywords:
            if k.arg is None:
                kwargs.update(self.eval(k.value, fr))
            else:
                kwargs[k.arg] = self.eval(k.value, fr)
        return self.call(f, args, kwargs, node=e, frame=fr)

    def ev_JoinedStr(self, e, fr):
        return '<fstring>'

    def _comp(self, gens, fr, emit):
        def rec(i, f):
            if i == len(gens):
                emit(f)
                return
            g = gens[i]
            it = self.eval(g.iter, f)
            if isinstance(it, SSeq):
                raise Unsupported('comprehension over a symbolic sequence')
            for x in self.iterate(it):
                f2 = Frame({}, f.module, f.func, parent=f)
                self.assign(g.target, x, f2)
                if all(self.truth(self.eval(c, f2)) for c in g.ifs):
                    rec(i + 1, f2)
        rec(0, fr)

    def ev_ListComp(self, e, fr):
        out = []
        self._comp(e.generators, fr, lambda f: out.append(self.eval(e.elt, f)))
        return out

    def ev_GeneratorExp(self, e, fr):
        # assumption: generator expressions are evaluated eagerly (no side effects in targets)
        if len(e.generators) == 1 and not e.generators[0].ifs:
            it = self.eval(e.generators[0].iter, fr)
            if isinstance(it, SSeq) and not z3.is_int_value(z3.simplify(it.length)):
                # f(x) for x in <sequence of symbolic length>: the mapped sequence, element by element
                # (the element expression must be pure; it is evaluated on an arbitrary index)
                g = e.generators[0]

                def elem(t, it=it, g=g):
                    f2 = Frame({}, fr.module, fr.func, parent=fr)
                    self.assign(g.target, it.elem(t), f2)
                    return self.eval(e.elt, f2)
                return SSeq(it.length, elem, 'gen')
        return self.ev_ListComp(e, fr)

    def ev_SetComp(self, e, fr):
        return set(self.ev_ListComp(e, fr))

    def ev_DictComp(self, e, fr):
        h = self.hooks.get('dictcomp')
        if h is not None:
            r = h(self, e, fr)
            if r is not None:
                return r
        out = {}
        self._comp(e.generators, fr, lambda f: out.__setitem__(self.eval(e.key, f),
                                                               self.eval(e.value, f)))
        return out

    # ------------------------------------------------------------------ operations
    def truth(self, v):
        if isinstance(v, Sym):
            return self.st.branch(bterm(v))
        if isinstance(v, SSeq):
            return self.st.branch(v.length != 0)
        if isinstance(v, FSet):
            return self.st.branch(z3.Or(*v.member.values()) if v.member else z3.BoolVal(False))
        if isinstance(v, SObj):
            h = self.hooks.get('bool')
            if h is not None:
                return h(self, v)
            return True
        return bool(v)

    def iterate(self, it):
        if isinstance(it, (list, tuple, str, dict, set, frozenset, range)):
            return iter(it)
        if isinstance(it, SObj):
            h = self.hooks.get('iter')
            if h is not None:
                return h(self, it)
        if hasattr(it, '__iter__') and not isinstance(it, (Sym, SObj, SSeq, SMap)):
            return iter(it)
        raise TypeError('not iterable: %r' % (it,))

    def binop(self, op, a, b):
        if isinstance(a, SObj) or isinstance(b, SObj):
            return self.obj_binop(op, a, b)
        if not isinstance(a, Sym) and not isinstance(b, Sym):
            if op == 'Mod' and isinstance(a, str):
                # concrete operands: the real text (code emitters); anything symbolic: an opaque message
                items = b if isinstance(b, tuple) else (b,)
                if all(isinstance(x, (str, int)) and not isinstance(x, bool) for x in items):
                    try:
                        return a % b
                    except (TypeError, ValueError):
                        pass
                return '<fmt>'
            if op in ('LShift', 'RShift') and isinstance(b, int) and b < 0:
                raise RaiseSig('ValueError')
            if op in ('FloorDiv', 'Mod', 'Div') and isinstance(b, (int, float)) and b == 0:
                raise RaiseSig('ZeroDivisionError')
            return PYOPS[op](a, b)
        if isinstance(a, (str, tuple, list)) or isinstance(b, (str, tuple, list)):
            if op == 'Mod' and isinstance(a, str):
                return '<fmt>'
            if op == 'Mult':
                tp, cnt = (a, b) if isinstance(a, (tuple, list)) else (b, a)
                if isinstance(tp, list) and isinstance(cnt, Sym):
                    k = self.concretize(cnt)
                    if k is not None:
                        return tp * k
                if isinstance(tp, tuple) and len(tp) == 1 and isinstance(cnt, Sym):
                    n = z3.simplify(term(cnt))
                    v = tp[0]
                    ln = n if self.st.prove_now(n >= 0) else z3.If(n >= 0, n, 0)
                    return SSeq(ln, lambda i, v=v: v, 'tuple', const=v)
            raise Unsupported('binop %s on %r, %r' % (op, a, b))
        st = self.st
        ta, tb = term(a), term(b)
        if op == 'Add':
            return Sym(ta + tb)
        if op == 'Sub':
            r = Sym(ta - tb)
            if isinstance(a, Sym) and a.pow2_of is not None and isinstance(b, int) and b == 1:
                r.mask_of = a.pow2_of
            return r
        if op == 'Mult':
            return Sym(ta * tb)
        if op == 'Pow':
            if isinstance(a, int) and a == 2:
                kk = z3.simplify(tb)
                if z3.is_int_value(kk) and kk.as_long() >= 0:
                    return 2 ** kk.as_long()
                if not st.prove_now(tb >= 0):
                    raise Unsupported('2 ** k with k possibly negative (float result)')
                return Sym(T.pow2(tb), pow2_of=tb)
            if isinstance(b, int) and b >= 0:
                r = z3.IntVal(1)
                for _ in range(b):
                    r = r * ta
                return Sym(r)
            raise Unsupported('general power')
        if op == 'LShift':
            self.side(tb >= 0, 'shift-count-nonneg')
            if isinstance(a, int) and a == 1:
                return Sym(T.pow2(tb), pow2_of=tb)
            if isinstance(b, int):
                return Sym(ta * z3.IntVal(1 << b), shl_by=b)
            return Sym(ta * T.pow2(tb), shl_by=tb)
        if op == 'RShift':
            self.side(tb >= 0, 'shift-count-nonneg')
            d = T.pow2(tb) if not isinstance(b, int) else z3.IntVal(1 << b)
            return Sym(ta / d)
        if op == 'FloorDiv':
            if not st.prove_now(tb > 0):
                raise Unsupported('// with divisor not provably positive')
            return Sym(ta / tb)
        if op == 'Mod':
            if not st.prove_now(tb > 0):
                raise Unsupported('% with divisor not provably positive')
            return Sym(ta % tb)
        if op == 'BitAnd':
            for x, y in ((a, b), (b, a)):
                k = mask_k(y)
                if k is not None:
                    return Sym(term(x) % k[1])
            for x, y in ((a, b), (b, a)):
                # x & 2**k  ==  bit k of x, in place       [lean/PyInt.lean: and_pow2]
                if isinstance(y, Sym) and y.pow2_of is not None:
                    p = T.pow2(y.pow2_of)
                    return Sym(((term(x) / p) % 2) * p)
            return Sym(T.band(ta, tb))
        if op == 'BitOr':
            for x, y in ((a, b), (b, a)):
                if isinstance(x, Sym) and x.shl_by is not None:
                    p = z3.IntVal(1 << x.shl_by) if isinstance(x.shl_by, int) else T.pow2(x.shl_by)
                    if st.prove_now(z3.And(term(y) >= 0, term(y) < p)):
                        return Sym(term(x) + term(y))
            return Sym(T.bor(ta, tb))
        if op == 'BitXor':
            return Sym(T.bxor(ta, tb))
        raise Unsupported('binop %s' % op)

    def concretize(self, v, lo=-1, hi=33):
        """the Python int a symbolic value is pinned to by the path condition (small range), else None"""
        t = z3.simplify(term(v))
        if z3.is_int_value(t):
            return t.as_long()
        for k in range(lo, hi):
            if self.st.check_sat([t == k]) != z3.unsat:
                return k if self.st.prove_now(t == k) else None
        return None

    def side(self, goal, name):
        """Side condition of a rewrite: must hold on this path (it is a VC)."""
        g = z3.simplify(goal)
        if z3.is_true(g):
            return
        self.st.vc('side:' + name, goal, kind='side')

    def compare(self, op, a, b):
        if op in ('Is', 'IsNot'):
            r = self.identical(a, b)
            if isinstance(r, Sym):
                return Sym(z3.Not(r.t)) if op == 'IsNot' else r
            return (not r) if op == 'IsNot' else r
        if op in ('In', 'NotIn'):
            r = self.contains(b, a)
            if isinstance(r, Sym):
                return Sym(z3.Not(bterm(r))) if op == 'NotIn' else r
            return (not r) if op == 'NotIn' else r
        if isinstance(a, FSet) or isinstance(b, FSet):
            if not (isinstance(a, FSet) and isinstance(b, FSet)) or op not in ('Eq', 'NotEq'):
                raise Unsupported('comparison of a symbolic set with %r' % (b,))
            same = z3.And(*[a.member[id(u)] == b.mem(u) for u in a.universe]) if a.universe \
                else z3.BoolVal(True)
            return Sym(same if op == 'Eq' else z3.Not(same))
        if isinstance(a, SObj) or isinstance(b, SObj):
            h = self.hooks.get('obj_compare')
            if h is not None:
                return h(self, op, a, b)
            if op in ('Eq', 'NotEq'):
                r = self.identical(a, b)
                if isinstance(r, Sym):
                    return Sym(z3.Not(r.t)) if op == 'NotEq' else r
                return (not r) if op == 'NotEq' else r
            raise Unsupported('ordering comparison of objects')
        if not isinstance(a, Sym) and not isinstance(b, Sym):
            if (a is None or b is None) and op not in ('Eq', 'NotEq'):
                raise RaiseSig('TypeError')
            if isinstance(a, (int, float)) != isinstance(b, (int, float)) and op not in ('Eq', 'NotEq'):
                raise RaiseSig('TypeError')
            return PYCMP[op](a, b)
        if a is None or b is None:
            if op == 'Eq':
                return False
            if op == 'NotEq':
                return True
            raise RaiseSig('TypeError')
        if isinstance(a, (str, tuple, list)) or isinstance(b, (str, tuple, list)):
            if op == 'Eq':
                return False
            if op == 'NotEq':
                return True
            raise RaiseSig('TypeError')
        ta, tb = term(a), term(b)
        return Sym({'Eq': ta == tb, 'NotEq': ta != tb, 'Lt': ta < tb, 'LtE': ta <= tb,
                    'Gt': ta > tb, 'GtE': ta >= tb}[op])

    def identical(self, a, b):
        if isinstance(a, SObj) and isinstance(b, SObj):
            if a is b:
                return True
            r = z3.simplify(a.oid == b.oid)
            if z3.is_true(r):
                return True
            if z3.is_false(r):
                return False
            return Sym(a.oid == b.oid)
        if isinstance(a, SObj) or isinstance(b, SObj):
            return False
        if isinstance(a, Sym) or isinstance(b, Sym):
            if a is None or b is None:
                return False
            return Sym(term(a) == term(b))
        if a is None or b is None or isinstance(a, bool) or isinstance(b, bool):
            return a is b
        return a == b if isinstance(a, (int, str, tuple)) else a is b

    def contains(self, container, x):
        if isinstance(container, FSet):
            return Sym(container.mem(x))
        if isinstance(container, SMap):
            if container.dom is None:
                return True
            return Sym(z3.Select(container.dom, self.key_term(x)))
        if isinstance(container, str):
            if isinstance(x, Sym):
                raise Unsupported('symbolic value in string')
            return x in container
        if isinstance(container, (tuple, list, set, frozenset)):
            if isinstance(x, (SObj, Sym)):
                res = False
                terms = []
                for y in container:
                    r = self.identical(x, y) if isinstance(x, SObj) or isinstance(y, SObj) \
                        else self.compare('Eq', x, y)
                    if isinstance(r, Sym):
                        terms.append(bterm(r))
                    elif r:
                        return True
                if terms:
                    return Sym(z3.Or(*terms))
                return res
            for y in container:
                if isinstance(y, (SObj, Sym)):
                    r = self.compare('Eq', x, y)
                    if isinstance(r, Sym):
                        raise Unsupported('symbolic membership')
                    if r:
                        return True
                elif y == x:
                    return True
            return False
        if isinstance(container, dict):
            if isinstance(x, (Sym,)):
                raise Unsupported('symbolic key in concrete dict')
            if isinstance(x, SObj):
                return any(x is k for k in container)
            return x in container
        if isinstance(container, SObj):
            h = self.hooks.get('contains')
            if h is not None:
                return h(self, container, x)
        raise Unsupported('membership in %r' % (container,))

    def getattr(self, o, name):
        if isinstance(o, slice) and name in ('start', 'stop', 'step'):
            return getattr(o, name)
        if isinstance(o, SObj):
            if name in o.fields:
                return o.fields[name]
            if name == '__dict__':
                return dict(o.fields)
            if name == '__class__':
                return ClassVal(o.cls)
            h = self.hooks.get('getattr')
            if h is not None:
                r = h(self, o, name)
                if r is not NotImplemented:
                    return r
            if o.cls is not None:
                found = find_method(o.cls, name)
                if found is not None:
                    kind, node, mod, cls = found
                    qn = cls + '.' + name
                    if kind == 'attr':
                        if isinstance(node, ast.ClassDef):
                            return ClassVal(node.name, mod)
                        return self.eval_class_attr(node, mod, cls, name)
                    fv = FuncVal(node, None, mod, qn, cls=cls)
                    if kind == 'property':
                        return self.call(BoundMethod(fv, o), [], {})
                    if kind == 'static':
                        return fv
                    return BoundMethod(fv, o)
            raise RaiseSig('AttributeError')
        if isinstance(o, ClassVal):
            h = self.hooks.get('classattr:%s.%s' % (o.name, name))
            if h is not None:
                return h
            found = find_method(o.name, name)
            if found is not None:
                kind, node, mod, cls = found
                if kind == 'attr':
                    if isinstance(node, ast.ClassDef):
                        return ClassVal(o.name + '.' + node.name, mod)
                    return self.eval_class_attr(node, mod, cls, name)
                return FuncVal(node, None, mod, cls + '.' + name, cls=cls)
            if name == '__name__':
                return o.name
            raise Unsupported('class attribute %s.%s' % (o.name, name))
        if isinstance(o, tuple) and len(o) == 2 and o[0] == 'module':
            return self.resolve_import(o[1], name)
        if isinstance(o, FSet):
            def fset_method(I_, a, k, o=o, name=name):
                if name == 'add':
                    o.member[id(a[0])] = z3.BoolVal(True) if id(a[0]) in o.member else o.mem(a[0])
                    return None
                if name == 'difference':
                    other = a[0]
                    return FSet(o.universe, {id(u): z3.And(o.member[id(u)], z3.Not(other.mem(u)))
                                             for u in o.universe})
                if name == 'copy':
                    return o.copy()
                raise Unsupported('symbolic set method %s' % name)
            return Builtin('set.' + name, fset_method)
        if isinstance(o, SMap):
            return Builtin('map.' + name, lambda I_, a, k, o=o, name=name: map_method(I_, o, name, a, k))
        if isinstance(o, dict):
            if name == 'get':
                return Builtin('dict.get', lambda I_, a, k, o=o: dict_get(I_, o, a))
            if name in ('items', 'keys', 'values', 'copy', 'update', 'pop', 'setdefault'):
                return getattr(o, name)
        if isinstance(o, (str, list, tuple, set)):
            if isinstance(o, (list, set)) and name in ('append', 'add', 'extend', 'update',
                                                       'pop', 'remove', 'insert', 'copy',
                                                       'difference', 'union', 'index', 'count',
                                                       'intersection', 'difference_update'):
                return getattr(o, name)
            if isinstance(o, (str, tuple)):
                return getattr(o, name)
        if isinstance(o, Sym) and name == 'bit_length':
            def bl(I_, a, k, o=o):
                return Sym(z3.If(term(o) >= 0, T.bitlen(term(o)), T.bitlen(-term(o))))
            return Builtin('int.bit_length', bl)
        if isinstance(o, int) and name == 'bit_length':
            return o.bit_length
        if isinstance(o, ExcVal):
            return '<exc-attr>'
        if isinstance(o, (Sym, int)) and not isinstance(o, bool):
            if hasattr(0, name):
                raise Unsupported('int attribute %s' % name)
            raise RaiseSig('AttributeError')
        raise Unsupported('attribute %s of %r' % (name, o))

    def eval_class_attr(self, node, mod, cls, name):
        if isinstance(node, ast.Dict):
            d = {}
            fr = Frame({}, mod)
            for k, v in zip(node.keys, node.values):
                kk = self.eval(k, fr)
                if isinstance(v, ast.Lambda):
                    d[kk] = FuncVal(v, fr, mod, '%s.%s[%r]' % (cls, name, kk), cls=cls)
                else:
                    d[kk] = self.eval(v, fr)
            return d
        return self.eval(node, Frame({}, mod))

    def getitem(self, o, k):
        if isinstance(o, SMap):
            kt = self.key_term(k)
            if o.dom is not None:
                if not self.st.branch(z3.Select(o.dom, kt)):
                    raise RaiseSig('KeyError')
            if o.inner:
                d2 = z3.Select(o.dom2, kt) if o.dom2 is not None else None
                return SMap(z3.Select(o.arr, kt), d2, parent=(o, kt))
            return Sym(z3.Select(o.arr, kt))
        if isinstance(o, SSeq):
            if isinstance(k, slice):
                return seq_slice(self, o, k)
            kt = term(k)
            inb = z3.And(kt >= -o.length, kt < o.length)
            if not self.st.branch(inb):
                raise RaiseSig('IndexError')
            if isinstance(k, int):
                idx = z3.IntVal(k) if k >= 0 else o.length + k
            else:
                idx = z3.If(kt >= 0, kt, o.length + kt)
            return o.elem(z3.simplify(idx))
        if isinstance(o, (tuple, list, str, range)):
            if isinstance(k, slice):
                if any(isinstance(x, Sym) for x in (k.start, k.stop, k.step)):
                    raise Unsupported('symbolic slice of concrete sequence')
                return o[k]
            if isinstance(k, Sym):
                raise Unsupported('symbolic index into concrete sequence')
            if isinstance(k, bool):
                k = int(k)
            if not isinstance(k, int):
                raise RaiseSig('TypeError')
            if not -len(o) <= k < len(o):
                raise RaiseSig('IndexError')
            return o[k]
        if isinstance(o, dict):
            if isinstance(k, SObj):
                for kk, vv in o.items():
                    if kk is k:
                        return vv
                raise RaiseSig('KeyError')
            if isinstance(k, Sym):
                raise Unsupported('symbolic key into concrete dict')
            if k not in o:
                raise RaiseSig('KeyError')
            return o[k]
        if isinstance(o, SObj):
            return self.obj_special(o, '__getitem__', [k])
        if o is None:
            raise RaiseSig('TypeError')
        raise Unsupported('subscript of %r' % (o,))

    def obj_special(self, o, name, args):
        h = self.hooks.get('special:' + name)
        if h is not None:
            return h(self, o, *args)
        m = self.getattr(o, name)
        return self.call(m, args, {})

    def obj_binop(self, op, a, b):
        names = {'Add': 'add', 'Sub': 'sub', 'Mult': 'mul', 'BitAnd': 'and', 'BitOr': 'or',
                 'BitXor': 'xor', 'LShift': 'lshift', 'RShift': 'rshift', 'Mod': 'mod'}
        nm = names.get(op)
        if nm is None:
            raise Unsupported('object binop %s' % op)
        if isinstance(a, SObj):
            return self.obj_special(a, '__%s__' % nm, [b])
        return self.obj_special(b, '__r%s__' % nm, [a])


def _load(t):
    import copy
    t2 = copy.copy(t)
    t2.ctx = ast.Load()
    return t2


def _name_of(e):
    if isinstance(e, ast.Name):
        return e.id
    if isinstance(e, ast.Attribute):
        return e.attr
    return None


def mask_k(v):
    """If v is known to be 2**k - 1 return ('k', modulus term)."""
    if isinstance(v, Sym) and v.mask_of is not None:
        return (v.mask_of, T.pow2(v.mask_of))
    if isinstance(v, int) and not isinstance(v, bool) and v >= 0 and (v & (v + 1)) == 0:
        return (v.bit_length(), z3.IntVal(v + 1))
    return None


PYOPS = {'Add': operator.add, 'Sub': operator.sub, 'Mult': operator.mul, 'Div': operator.truediv,
         'FloorDiv': operator.floordiv, 'Mod': operator.mod, 'Pow': operator.pow,
         'LShift': operator.lshift, 'RShift': operator.rshift, 'BitAnd': operator.and_,
         'BitOr': operator.or_, 'BitXor': operator.xor}
PYCMP = {'Eq': operator.eq, 'NotEq': operator.ne, 'Lt': operator.lt, 'LtE': operator.le,
         'Gt': operator.gt, 'GtE': operator.ge}


def seq_slice(I_, seq, sl):
    lo, hi, stp = sl.start, sl.stop, sl.step
    if lo is None and hi is None and stp == -1:
        n = seq.length
        return SSeq(n, lambda i, seq=seq, n=n: seq.elem(z3.simplify(n - 1 - i)), seq.kind)
    if stp is None and hi is None and isinstance(lo, int) and lo >= 0:
        n = z3.If(seq.length >= lo, seq.length - lo, 0)
        aff = None if seq.affine is None else z3.simplify(seq.affine + lo)
        return SSeq(z3.simplify(n), lambda i, seq=seq, lo=lo: seq.elem(z3.simplify(i + lo)), seq.kind,
                    affine=aff, const=seq.const)
    if stp is None or (isinstance(stp, int) and stp == 1):
        # Python slice normalisation, step 1, bounds concrete or symbolic ints
        n = seq.length

        def norm(b, dflt):
            if b is None:
                return dflt
            if isinstance(b, bool) or not isinstance(b, (int, Sym)):
                raise RaiseSig('TypeError')
            t = term(b)
            if isinstance(b, int):
                return z3.If(t < 0, z3.If(n + t < 0, 0, n + t), z3.If(t > n, n, t))
            # symbolic bound: split the path so that every later term stays linear and If-free
            st = I_.st
            if st.branch(t < 0):
                return z3.IntVal(0) if st.branch(n + t < 0) else n + t
            return n if st.branch(t > n) else t
        lo_, hi_ = norm(lo, z3.IntVal(0)), norm(hi, n)
        if isinstance(lo, Sym) or isinstance(hi, Sym):
            ln = z3.simplify(hi_ - lo_) if I_.st.branch(hi_ > lo_) else z3.IntVal(0)
        else:
            ln = z3.simplify(z3.If(hi_ > lo_, hi_ - lo_, 0))
        lo_ = z3.simplify(lo_)
        aff = None if seq.affine is None else z3.simplify(seq.affine + lo_)
        return SSeq(ln, lambda i, seq=seq, lo_=lo_: seq.elem(z3.simplify(i + lo_)), seq.kind,
                    affine=aff, const=seq.const)
    raise Unsupported('slice %r of a symbolic sequence' % (sl,))

def dict_get(I_, d, a):
    k = a[0]
    default = a[1] if len(a) > 1 else None
    if isinstance(k, SObj):
        for kk, vv in d.items():
            if kk is k:
                return vv
        return default
    if isinstance(k, Sym):
        raise Unsupported('symbolic key for dict.get')
    return d.get(k, default)


def map_method(I_, m, name, a, k):
    if name == 'get':
        kt = I_.key_term(a[0])
        default = a[1] if len(a) > 1 else None
        if m.inner:
            raise Unsupported('get on nested map')
        if m.dom is None:
            return Sym(z3.Select(m.arr, kt))
        if isinstance(default, (int, Sym)) and not isinstance(default, bool):
            return Sym(z3.If(z3.Select(m.dom, kt), z3.Select(m.arr, kt), term(default)))
        if I_.st.branch(z3.Select(m.dom, kt)):
            return Sym(z3.Select(m.arr, kt))
        return default
    if name == 'copy':
        return m.copy()
    if name == 'update':
        other = a[0]
        if isinstance(other, SMap) and not m.inner and not other.inner:
            x = z3.Int('upd!%d' % next(I_.st.n))
            if other.dom is None:
                m.arr = other.arr
                m.dom = None if m.dom is None else m.dom
                return None
            m.arr = z3.Lambda([x], z3.If(z3.Select(other.dom, x), z3.Select(other.arr, x),
                                         z3.Select(m.arr, x)))
            if m.dom is not None:
                m.dom = z3.Lambda([x], z3.Or(z3.Select(other.dom, x), z3.Select(m.dom, x)))
            return None
        raise Unsupported('map.update')
    raise Unsupported('map method %s' % name)


# ----------------------------------------------------------------------------- builtins
def _b_len(I_, a, k):
    x = a[0]
    if isinstance(x, SSeq):
        return Sym(x.length)
    if isinstance(x, SObj):
        return I_.obj_special(x, '__len__', [])
    if isinstance(x, (Sym, int)) or x is None:
        raise RaiseSig('TypeError')
    return len(x)


def cls_names(c):
    if isinstance(c, tuple):
        out = []
        for x in c:
            out.extend(cls_names(x))
        return out
    if isinstance(c, ClassVal):
        return [c.name]
    if isinstance(c, Builtin):
        return [c.name]
    if c in (int, str, tuple, list, dict, bool, set, float):
        return [c.__name__]
    raise Unsupported('isinstance against %r' % (c,))


def _b_isinstance(I_, a, k):
    x, c = a
    names = cls_names(c)
    if isinstance(x, SObj):
        if x.cls is not None:
            return any(x.cls in SUBCLASSES.get(n, [n]) for n in names)
        codes = []
        for n in names:
            for s in SUBCLASSES.get(n, [n]):
                if s in KINDS:
                    codes.append(KINDS[s])
        if not codes:
            return False
        return Sym(z3.Or(*[x.kind == c_ for c_ in sorted(set(codes))]))
    res = False
    for n in names:
        if n in ('int', 'Integral'):
            res = res or (isinstance(x, (int, Sym)) and not (isinstance(x, Sym) and x.is_bool and False))
        elif n == 'bool':
            res = res or isinstance(x, bool) or (isinstance(x, Sym) and x.is_bool)
        elif n == 'str':
            res = res or isinstance(x, str)
        elif n == 'tuple':
            res = res or isinstance(x, tuple) or (isinstance(x, SSeq) and x.kind == 'tuple')
        elif n == 'list':
            res = res or isinstance(x, list) or (isinstance(x, SSeq) and x.kind == 'list')
        elif n == 'dict':
            res = res or isinstance(x, (dict, SMap))
        elif n == 'set':
            res = res or isinstance(x, (set, frozenset))
        elif n == 'float':
            res = res or isinstance(x, float)
        elif n == 'slice':
            res = res or isinstance(x, slice)
        elif n == 'FunctionType':
            res = res or isinstance(x, (FuncVal, Builtin))
    return res


def _b_int(I_, a, k):
    x = a[0] if a else 0
    if isinstance(x, Sym):
        return Sym(term(x))
    if isinstance(x, (SObj, SSeq)) or x is None:
        raise RaiseSig('TypeError')
    if len(a) > 1:
        return int(x, a[1])
    try:
        return int(x)
    except ValueError:
        raise RaiseSig('ValueError')


def _b_bool(I_, a, k):
    x = a[0] if a else False
    if isinstance(x, Sym):
        return Sym(bterm(x))
    return I_.truth(x)


def _b_abs(I_, a, k):
    x = a[0]
    if isinstance(x, Sym):
        return Sym(z3.If(term(x) >= 0, term(x), -term(x)))
    return abs(x)


def _minmax(ismax):
    def f(I_, a, k):
        if len(a) == 1 and isinstance(a[0], SSeq) and not z3.is_int_value(z3.simplify(a[0].length)):
            # max / min of a sequence of symbolic length: a fresh value that bounds every element and
            # equals one of them (empty sequence: ValueError, or the default)
            seq = a[0]
            st = I_.st
            if not st.branch(seq.length >= 1):
                if 'default' in k:
                    return k['default']
                raise RaiseSig('ValueError')
            n = next(st.n)
            m = z3.Int('%s!%d' % ('max' if ismax else 'min', n))
            t = z3.Int('t!mm%d' % n)
            et = term(seq.elem(t))
            st.assume(z3.ForAll([t], z3.Implies(z3.And(0 <= t, t < seq.length), m >= et if ismax else m <= et)))
            st.assume(z3.Exists([t], z3.And(0 <= t, t < seq.length, m == et)))
            return Sym(m)
        xs = list(a[0]) if len(a) == 1 else list(a)
        if not xs:
            if 'default' in k:
                return k['default']
            raise RaiseSig('ValueError')
        if not any(isinstance(x, Sym) for x in xs):
            return max(xs) if ismax else min(xs)
        r = term(xs[0])
        for x in xs[1:]:
            t = term(x)
            r = z3.If(t > r, t, r) if ismax else z3.If(t < r, t, r)
        return Sym(r)
    return f


def _b_sum(I_, a, k):
    xs = list(I_.iterate(a[0]))
    start = a[1] if len(a) > 1 else 0
    if not any(isinstance(x, Sym) for x in xs) and not isinstance(start, Sym):
        return sum(xs, start)
    r = term(start)
    for x in xs:
        r = r + term(x)
    return Sym(r)


def _b_all(I_, a, k):
    if isinstance(a[0], SSeq) and not z3.is_int_value(z3.simplify(a[0].length)):
        # all(f(x) for x in <sequence of symbolic length>): a universally quantified condition
        seq = a[0]
        t = z3.Int('t!all%d' % next(I_.st.n))
        return Sym(z3.ForAll([t], z3.Implies(z3.And(0 <= t, t < seq.length), bterm(_as_bool(I_, seq.elem(t))))))
    for x in I_.iterate(a[0]):
        if not I_.truth(x):
            return False
    return True


def _as_bool(I_, v):
    if isinstance(v, Sym):
        return v
    if isinstance(v, bool):
        return Sym(z3.BoolVal(v))
    raise Unsupported('non-boolean element under all() over a symbolic sequence: %r' % (v,))


def _b_any(I_, a, k):
    for x in I_.iterate(a[0]):
        if I_.truth(x):
            return True
    return False


def _b_range(I_, a, k):
    if any(isinstance(x, Sym) for x in a):
        if len(a) == 1:
            n = z3.simplify(term(a[0]))
            ln = n if I_.st.prove_now(n >= 0) else z3.If(n >= 0, n, 0)
            return SSeq(ln, lambda i: Sym(i), 'range', affine=z3.IntVal(0))
        raise Unsupported('symbolic range with start/step')
    return range(*a)


def _b_bin(I_, a, k):
    x = a[0]
    if isinstance(x, Sym):
        # model: only len(bin(x)) is used in the targets; return a tagged string object
        return BinStr(x)
    return bin(x)


class BinStr(object):
    """bin(x) for symbolic x; supports len() only (len(bin(x)) - 2 == max(bitlen(|x|), 1) [+1 if x<0])."""

    def __init__(self, x):
        self.x = x


def _b_len2(I_, a, k):
    x = a[0]
    if isinstance(x, BinStr):
        t = term(x.x)
        ax = z3.If(t >= 0, t, -t)
        bl = z3.If(ax == 0, 1, T.bitlen(ax))
        return Sym(bl + 2 + z3.If(t < 0, 1, 0))
    return _b_len(I_, a, k)


def _b_tuple(I_, a, k):
    if not a:
        return ()
    if isinstance(a[0], SSeq):
        return SSeq(a[0].length, a[0].elem, 'tuple', affine=a[0].affine, const=a[0].const)
    return tuple(I_.iterate(a[0]))


def _b_list(I_, a, k):
    if not a:
        return []
    if isinstance(a[0], SSeq):
        # an (unmodified) list copy of a symbolic sequence; mutation of it is not modelled
        return SSeq(a[0].length, a[0].elem, 'list', affine=a[0].affine, const=a[0].const)
    return list(I_.iterate(a[0]))


def _b_set(I_, a, k):
    if not a:
        u = I_.hooks.get('fset_universe')
        if u is not None:
            return FSet(u())
        return set()
    return set(I_.iterate(a[0]))


def _b_enumerate(I_, a, k):
    return list(enumerate(I_.iterate(a[0]), *(a[1:])))


def _b_zip(I_, a, k):
    return list(zip(*[list(I_.iterate(x)) for x in a]))


def _b_reversed(I_, a, k):
    return list(reversed(list(I_.iterate(a[0]))))


def _b_sorted(I_, a, k):
    xs = list(I_.iterate(a[0]))
    if any(isinstance(x, (Sym, SObj)) for x in xs) or 'key' in k:
        raise Unsupported('sorted with symbolic elements / key')
    return sorted(xs, reverse=k.get('reverse', False))


def _b_str(I_, a, k):
    return '<str>' if a and isinstance(a[0], (Sym, SObj)) else str(*a)


def _b_filter(I_, a, k):
    f, xs = a
    return [x for x in I_.iterate(xs) if I_.truth(I_.call(f, [x]))]


def _b_map(I_, a, k):
    f = a[0]
    return [I_.call(f, list(xs)) for xs in zip(*[list(I_.iterate(x)) for x in a[1:]])]


def _b_type(I_, a, k):
    x = a[0]
    if isinstance(x, SObj):
        return ClassVal(x.cls)
    return '<type>'


def _b_repr(I_, a, k):
    return '<repr>'


def _b_hash(I_, a, k):
    raise Unsupported('hash()')


BUILTINS = {
    'len': Builtin('len', _b_len2), 'isinstance': Builtin('isinstance', _b_isinstance),
    'int': Builtin('int', _b_int), 'bool': Builtin('bool', _b_bool), 'abs': Builtin('abs', _b_abs),
    'max': Builtin('max', _minmax(True)), 'min': Builtin('min', _minmax(False)),
    'sum': Builtin('sum', _b_sum), 'all': Builtin('all', _b_all), 'any': Builtin('any', _b_any),
    'range': Builtin('range', _b_range), 'bin': Builtin('bin', _b_bin),
    'tuple': Builtin('tuple', _b_tuple), 'list': Builtin('list', _b_list),
    'set': Builtin('set', _b_set), 'enumerate': Builtin('enumerate', _b_enumerate),
    'zip': Builtin('zip', _b_zip), 'reversed': Builtin('reversed', _b_reversed),
    'sorted': Builtin('sorted', _b_sorted), 'str': Builtin('str', _b_str),
    'filter': Builtin('filter', _b_filter), 'map': Builtin('map', _b_map),
    'type': Builtin('type', _b_type), 'repr': Builtin('repr', _b_repr),
    'hash': Builtin('hash', _b_hash), 'dict': Builtin('dict', lambda I_, a, k: dict(*a, **k)),
    'True': True, 'False': False, 'None': None,
    'float': Builtin('float', lambda I_, a, k: float(*a)),
    'hex': Builtin('hex', lambda I_, a, k: hex(*a)),
    'print': Builtin('print', lambda I_, a, k: None),
    'NotImplemented': NotImplemented,
    'slice': Builtin('slice', lambda I_, a, k: slice(*a)),
}


def outer_frame(I, module, outer_qualname, extra=None):
    """Frame of an enclosing function for verifying one of its nested functions: the enclosing
    body's nested defs and its assignments of literals / dict-of-lambda tables are evaluated from
    the real source; every other free variable must be supplied in `extra` (ghost objects)."""
    node, mod, cls = locate(module, outer_qualname)
    ofv = FuncVal(node, None, mod, outer_qualname, cls=cls)
    fr = Frame(dict(extra or {}), mod, func=ofv)
    for s in _walk_defs(node.body):
        if isinstance(s, ast.FunctionDef):
            I.st_FunctionDef(s, fr)
        elif isinstance(s, ast.Assign) and len(s.targets) == 1 and isinstance(s.targets[0], ast.Name) \
                and s.targets[0].id not in fr.env:
            v = s.value
            if isinstance(v, ast.Constant):
                fr.env[s.targets[0].id] = v.value
            elif isinstance(v, ast.Dict) and all(isinstance(k, ast.Constant) for k in v.keys) and \
                    all(isinstance(x, (ast.Lambda, ast.Constant)) for x in v.values):
                d = {}
                for k, x in zip(v.keys, v.values):
                    d[k.value] = FuncVal(x, fr, mod, '%s.%s[%r]' % (outer_qualname, s.targets[0].id, k.value)) \
                        if isinstance(x, ast.Lambda) else x.value
                fr.env[s.targets[0].id] = d
    return fr


# ----------------------------------------------------------------------------- driver
def explore(run_path, max_paths=400, solver_timeout=3000):
    """run_path(state) executes one path (raising nothing for normal completion).
    Returns (list of VCs over all paths, stats)."""
    worklist = [[]]
    vcs = []
    stats = dict(paths=0, infeasible=0, inlined=set(), contracts=set(), modelled=set())
    while worklist:
        prefix = worklist.pop()
        st = State(prefix, worklist, solver_timeout)
        try:
            run_path(st)
        except Infeasible:
            stats['infeasible'] += 1
            continue
        except PathEnd:
            pass
        stats['paths'] += 1
        stats['inlined'] |= st.inlined
        stats['contracts'] |= st.used_contracts
        stats['modelled'] |= st.modelled
        for v in st.vcs:
            v.name = '%s@p%d' % (v.name, stats['paths'])
        vcs.extend(st.vcs)
        if stats['paths'] > max_paths:
            raise Unsupported('more than %d paths' % max_paths)
    return vcs, stats
