"""Integer theory used by the VC generator (DESIGN 3.2).

Python ints are mathematical integers (z3 Int).  Bit operations are rewritten:
    1 << k, 2 ** k      -> pow2(k)                       (side condition k >= 0)
    x << k              -> x * pow2(k)
    x >> k              -> x div pow2(k)   (floor; z3 div with positive divisor is floor)
    x & (pow2(k) - 1)   -> x mod pow2(k)
    ~x                  -> -x - 1
    other & | ^         -> uninterpreted band/bor/bxor with ground lemma instances
pow2 is an uninterpreted function; for every pow2(t) occurring in a query the ground instances
    pow2(t) >= 1,  t >= 1 -> pow2(t) = 2*pow2(t-1),  t = 0 -> pow2(t) = 1,  t >= 1 -> pow2(t) >= 2
and pairwise monotonicity are added.  Each rewrite is a lemma over Nat/Int in lean/PyInt.lean.
Because pow2/band/... are partly abstract, a `sat` answer is only a candidate and is always
re-checked on concrete values (pyvc/discharge.py)."""
import z3

I = z3.IntSort()
pow2 = z3.Function('pow2', I, I)
band = z3.Function('band', I, I, I)
bor = z3.Function('bor', I, I, I)
bxor = z3.Function('bxor', I, I, I)
bitlen = z3.Function('bitlen', I, I)          # int.bit_length for x >= 0
UF = {'pow2': pow2, 'band': band, 'bor': bor, 'bxor': bxor, 'bitlen': bitlen}


def _apps(fs):
    seen = set()
    out = {'pow2': [], 'band': [], 'bor': [], 'bxor': [], 'bitlen': []}
    stack = list(fs)
    while stack:
        e = stack.pop()
        if e.get_id() in seen:
            continue
        seen.add(e.get_id())
        if z3.is_app(e):
            nm = e.decl().name()
            if nm in out and e.num_args() > 0:
                out[nm].append(e)
            stack.extend(e.children())
        elif z3.is_quantifier(e):
            stack.append(e.body())
    return out


def ground_axioms(formulas, depth=1):
    """Ground instances of the pow2 / bit-op lemmas for the terms occurring in `formulas`."""
    ax = []
    apps = _apps(formulas)
    pterms = {}
    for e in apps['pow2']:
        pterms[e.arg(0).get_id()] = e.arg(0)
    # one step of definitional unfolding
    frontier = list(pterms.values())
    for _ in range(depth):
        new = []
        for t in frontier:
            tm = z3.simplify(t - 1)
            if tm.get_id() not in pterms:
                pterms[tm.get_id()] = tm
                new.append(tm)
            ax.append(z3.Implies(t >= 1, pow2(t) == 2 * pow2(tm)))
        frontier = new
    ts = list(pterms.values())
    for t in ts:
        ax.append(pow2(t) >= 1)
        ax.append(z3.Implies(t == 0, pow2(t) == 1))
        ax.append(z3.Implies(t >= 1, pow2(t) >= 2))
        ax.append(z3.Implies(t >= 0, pow2(t) > t))
        ax.append(z3.Implies(t < 0, pow2(t) == 1))       # totalisation; never relied on (k>=0 asserted)
    if len(ts) <= 14:
        for i, a in enumerate(ts):
            for b in ts[i + 1:]:
                ax.append(z3.Implies(z3.And(a >= 0, a <= b), pow2(a) <= pow2(b)))
                ax.append(z3.Implies(z3.And(b >= 0, b <= a), pow2(b) <= pow2(a)))
                ax.append(z3.Implies(z3.And(a >= 0, a < b), 2 * pow2(a) <= pow2(b)))
                ax.append(z3.Implies(z3.And(b >= 0, b < a), 2 * pow2(b) <= pow2(a)))
    for nm, f in (('band', band), ('bor', bor), ('bxor', bxor)):
        for e in apps[nm]:
            a, b = e.arg(0), e.arg(1)
            ax.append(f(a, b) == f(b, a))
            bits = z3.And(a >= 0, a <= 1, b >= 0, b <= 1)
            if nm == 'band':
                # x & (x - 1) == 0  <=>  x is a power of two   (x > 0)      [lean/PyInt.lean]
                for x, y in ((a, b), (b, a)):
                    if z3.is_true(z3.simplify(y == x - 1)):
                        ispow = x == pow2(bitlen(x) - 1)
                        ax.append(z3.Implies(x > 0, (e == 0) == ispow))
                        ax.append(z3.Implies(x > 0, z3.And(bitlen(x) >= 1, pow2(bitlen(x) - 1) <= x,
                                                           x < pow2(bitlen(x)))))
                        ax.append(pow2(bitlen(x) - 1) >= 1)
                ax.append(z3.Implies(bits, e == z3.If(z3.And(a == 1, b == 1), 1, 0)))
                ax.append(z3.Implies(z3.And(a >= 0, b >= 0), z3.And(e >= 0, e <= a, e <= b)))
                ax.append(z3.Implies(b == 0, e == 0))
                ax.append(z3.Implies(a == 0, e == 0))
                ax.append(z3.Implies(a == b, e == a))
            elif nm == 'bor':
                ax.append(z3.Implies(bits, e == z3.If(z3.Or(a == 1, b == 1), 1, 0)))
                ax.append(z3.Implies(z3.And(a >= 0, b >= 0), z3.And(e >= a, e >= b, e <= a + b)))
                ax.append(z3.Implies(b == 0, e == a))
                ax.append(z3.Implies(a == 0, e == b))
                ax.append(z3.Implies(a == b, e == a))
            else:
                ax.append(z3.Implies(bits, e == z3.If(a == b, 0, 1)))
                ax.append(z3.Implies(z3.And(a >= 0, b >= 0), z3.And(e >= 0, e <= a + b)))
                ax.append(z3.Implies(b == 0, e == a))
                ax.append(z3.Implies(a == 0, e == b))
                ax.append(z3.Implies(a == b, e == 0))
            # operands below 2**k stay below 2**k
            for t in ts:
                ax.append(z3.Implies(z3.And(t >= 0, a >= 0, a < pow2(t), b >= 0, b < pow2(t)),
                                     z3.And(e >= 0, e < pow2(t))))
    for e in apps['bitlen']:
        x = e.arg(0)
        ax.append(z3.Implies(x == 0, e == 0))
        ax.append(z3.Implies(x > 0, z3.And(e >= 1, pow2(e - 1) <= x, x < pow2(e))))
        ax.append(pow2(e) >= 1)
        ax.append(z3.Implies(e >= 1, pow2(e) == 2 * pow2(e - 1)))
        ax.append(pow2(e - 1) >= 1)
        for t in ts:
            ax.append(z3.Implies(z3.And(x > 0, t >= 0, x < pow2(t)), e <= t))
            ax.append(z3.Implies(z3.And(x > 0, t >= 0, x >= pow2(t)), e >= t + 1))
    return ax


def concrete_interp(w_max=12):
    """Pinned tables for the concrete re-check of candidate models."""
    return {'pow2': lambda k: 1 << k if k >= 0 else 1, 'band': lambda a, b: a & b,
            'bor': lambda a, b: a | b, 'bxor': lambda a, b: a ^ b,
            'bitlen': lambda x: int(x).bit_length()}
