"""Integer theory used by the VC generator (DESIGN 3.2).

Python ints are mathematical integers (z3 Int).  Bit operations are rewritten:
    1 << k, 2 ** k      -> pow2(k)                       (side condition k >= 0)
    x << k              -> x * pow2(k)
    x >> k              -> x div pow2(k)   (floor; z3 div with positive divisor is floor)
    x & (pow2(k) - 1)   -> x mod pow2(k)
    ~x                  -> -x - 1
    other & | ^         -> uninterpreted band/bor/bxor with ground lemma instances
pow2 is an uninterpreted function; for every pow2(t) occurring in a query the ground instances
    pow2(t) >= 1,  t >= 1 -> pow2(t) = 2*pow2(t-1),  t = 0 -> pow2(t) = 1,  t >= 1 -> pow2(t) >= 2
and pairwise monotonicity are added.  Each rewrite is a lemma over Nat/Int in lean/PyInt.lean.
Because pow2/band/... are partly abstract, a `sat` answer is only a candidate and is always
re-checked on concrete values (pyvc/discharge.py)."""
import z3

I = z3.IntSort()
pow2 = z3.Function('pow2', I, I)
band = z3.Function('band', I, I, I)
bor = z3.Function('bor', I, I, I)
bxor = z3.Function('bxor', I, I, I)
bitlen = z3.Function('bitlen', I, I)          # int.bit_length for x >= 0
UF = {'pow2': pow2, 'band': band, 'bor': bor, 'bxor': bxor, 'bitlen': bitlen}


def _apps(fs):
    seen = set()
    out = {'pow2': [], 'band': [], 'bor': [], 'bxor': [], 'bitlen': []}
    stack = list(fs)
    while stack:
        e = stack.pop()
        if e.get_id() in seen:
            continue
        seen.add(e.get_id())
        if z3.is_app(e):
            nm = e.decl().name()
            if nm in out and e.num_args() > 0:
                out[nm].append(e)
            stack.extend(e.children())
        elif z3.is_quantifier(e):
            stack.append(e.body())
    return out


def _mods(fs, kind=None):
    """(x, t) for every x % pow2(t) (or x / pow2(t) with kind=Z3_OP_IDIV) occurring in fs"""
    kind = z3.Z3_OP_MOD if kind is None else kind
    seen, out, keys = set(), [], set()
    stack = list(fs)
    while stack:
        e = stack.pop()
        if e.get_id() in seen:
            continue
        seen.add(e.get_id())
        if z3.is_app(e):
            if e.decl().kind() == kind:
                x, p = e.arg(0), e.arg(1)
                if z3.is_app(p) and p.decl().name() == 'pow2':
                    k = (x.get_id(), p.arg(0).get_id())
                    if k not in keys:
                        keys.add(k)
                        out.append((x, p.arg(0)))
            stack.extend(e.children())
        elif z3.is_quantifier(e):
            stack.append(e.body())
    return out


def _mults(fs, generic=False):
    """(x, t) for every product x * pow2(t) occurring in fs (x not a numeral); with generic=True
    the products x * y of two non-numeral, non-pow2 terms"""
    seen, out, keys = set(), [], set()
    stack = list(fs)
    while stack:
        e = stack.pop()
        if e.get_id() in seen:
            continue
        seen.add(e.get_id())
        if z3.is_app(e):
            if generic and e.decl().kind() == z3.Z3_OP_MUL and e.num_args() == 2:
                x, y = e.arg(0), e.arg(1)
                isp = lambda q: z3.is_app(q) and q.decl().name() == 'pow2'      # noqa: E731
                if not z3.is_int_value(x) and not z3.is_int_value(y) and not isp(x) and not isp(y):
                    k = (x.get_id(), y.get_id())
                    if k not in keys:
                        keys.add(k)
                        out.append((x, y))
            elif not generic and e.decl().kind() == z3.Z3_OP_MUL and e.num_args() == 2:
                for x, p in ((e.arg(0), e.arg(1)), (e.arg(1), e.arg(0))):
                    if z3.is_app(p) and p.decl().name() == 'pow2' and not z3.is_int_value(x) and \
                            not (z3.is_app(x) and x.decl().name() == 'pow2'):
                        k = (x.get_id(), p.arg(0).get_id())
                        if k not in keys:
                            keys.add(k)
                            out.append((x, p.arg(0)))
            stack.extend(e.children())
        elif z3.is_quantifier(e):
            stack.append(e.body())
    return out


def ground_axioms(formulas, depth=1):
    """Ground instances of the pow2 / bit-op lemmas for the terms occurring in `formulas`."""
    ax = []
    apps = _apps(formulas)
    pterms = {}
    for e in apps['pow2']:
        pterms[e.arg(0).get_id()] = e.arg(0)
    orig = list(pterms.values())
    # one step of definitional unfolding
    frontier = list(pterms.values())
    for _ in range(depth):
        new = []
        for t in frontier:
            tm = z3.simplify(t - 1)
            if tm.get_id() not in pterms:
                pterms[tm.get_id()] = tm
                new.append(tm)
            ax.append(z3.Implies(t >= 1, pow2(t) == 2 * pow2(tm)))
        frontier = new
    ts = list(pterms.values())
    # syntactically different but equal arguments (bw - 0, 0 + bw, ...) denote the same power
    canon = {}
    for t in ts:
        k = z3.simplify(t, sort_sums=True).sexpr()     # (ids of temporaries are recycled: key by text)
        if k in canon:
            ax.append(pow2(t) == pow2(canon[k]))
        else:
            canon[k] = t
    for t in ts:
        ax.append(pow2(t) >= 1)
        ax.append(z3.Implies(t == 0, pow2(t) == 1))
        ax.append(z3.Implies(t >= 1, pow2(t) >= 2))
        ax.append(z3.Implies(t >= 0, pow2(t) > t))
        ax.append(z3.Implies(t < 0, pow2(t) == 1))       # totalisation; never relied on (k>=0 asserted)
    mono = ts if len(ts) <= 14 else (orig if len(orig) <= 40 else [])
    if mono:
        for i, a in enumerate(mono):
            for b in mono[i + 1:]:
                ax.append(z3.Implies(z3.And(a >= 0, a <= b), pow2(a) <= pow2(b)))
                ax.append(z3.Implies(z3.And(b >= 0, b <= a), pow2(b) <= pow2(a)))
                ax.append(z3.Implies(z3.And(a >= 0, a < b), 2 * pow2(a) <= pow2(b)))
                ax.append(z3.Implies(z3.And(b >= 0, b < a), 2 * pow2(b) <= pow2(a)))
    if len(orig) <= 24:
        # pow2(u + v) == pow2(u) * pow2(v) (incl. u == v) for terms of the query   [lean/PyInt.lean: pow_add]
        byid = {}
        for t in orig:
            byid.setdefault(z3.simplify(t, sort_sums=True).sexpr(), t)
        for i, a in enumerate(orig):
            for b in orig[i:]:
                c = byid.get(z3.simplify(a + b, sort_sums=True).sexpr())
                if c is not None and c.get_id() not in (a.get_id(), b.get_id()):
                    ax.append(z3.Implies(z3.And(a >= 0, b >= 0), pow2(c) == pow2(a) * pow2(b)))
        if len(orig) <= 8:
            # the same lemma for arguments that are equal only under the path condition (slice bounds
            # wrapped in Python's index normalisation): conditional on the equation
            for i, a in enumerate(orig):
                for b in orig[i:]:
                    if byid.get(z3.simplify(a + b, sort_sums=True).sexpr()) is not None:
                        continue
                    for c in orig:
                        if c.get_id() in (a.get_id(), b.get_id()):
                            continue
                        ax.append(z3.Implies(z3.And(a >= 0, b >= 0, a + b == c), pow2(c) == pow2(a) * pow2(b)))
    # x / pow2(k) with 0 <= x < pow2(a), 0 <= k <= a:  x / pow2(k) < pow2(a - k)
    divs = _mods(formulas, kind=z3.Z3_OP_IDIV)
    if len(divs) * len(orig) <= 300 and len(orig) <= 24:
        byid2 = {}
        for t in orig:
            byid2.setdefault(z3.simplify(t, sort_sums=True).sexpr(), t)
        for (x, k) in divs:
            ax.append(z3.Implies(z3.And(x >= 0, k >= 0), x / pow2(k) >= 0))
            ax.append(z3.Implies(z3.And(x >= 0, k >= 0), x == pow2(k) * (x / pow2(k)) + x % pow2(k)))
            # the top bit: x < pow2(k + 1)  ->  x / pow2(k) is 1 iff x >= pow2(k)
            a1 = byid2.get(z3.simplify(k + 1, sort_sums=True).sexpr())
            if a1 is not None:
                ax.append(z3.Implies(z3.And(x >= 0, x < pow2(a1), k >= 0),
                                     x / pow2(k) == z3.If(x >= pow2(k), z3.IntVal(1), z3.IntVal(0))))
            for c in orig:
                a = byid2.get(z3.simplify(c + k, sort_sums=True).sexpr())
                if a is not None:
                    ax.append(z3.Implies(z3.And(x >= 0, x < pow2(a), k >= 0, c >= 0), x / pow2(k) < pow2(c)))
                elif len(orig) <= 8:
                    for a2 in orig:
                        if a2.get_id() != c.get_id():
                            ax.append(z3.Implies(z3.And(x >= 0, x < pow2(a2), k >= 0, c >= 0, a2 == c + k),
                                                 x / pow2(k) < pow2(c)))
    # x % pow2(t): range, and identity on [0, pow2(t))
    for (x, t) in _mods(formulas):
        ax.append(z3.And(x % pow2(t) >= 0, x % pow2(t) < pow2(t)))
        ax.append(z3.Implies(z3.And(x >= 0, x < pow2(t)), x % pow2(t) == x))
        # one wrap in either direction (sums / differences of two in-range values)
        ax.append(z3.Implies(z3.And(x >= pow2(t), x < 2 * pow2(t)), x % pow2(t) == x - pow2(t)))
        ax.append(z3.Implies(z3.And(x < 0, x >= -pow2(t)), x % pow2(t) == x + pow2(t)))
    # x * y with 0 <= x < pow2(u), 0 <= y < pow2(v):  x*y <= (pow2(u)-1)*(pow2(v)-1)
    gm = _mults(formulas, generic=True)
    if len(gm) * len(orig) * len(orig) <= 900:
        for (x, y) in gm:
            ax.append(z3.Implies(z3.And(x >= 0, y >= 0), x * y >= 0))
            for u in orig:
                for v in orig:
                    ax.append(z3.Implies(z3.And(x >= 0, x < pow2(u), y >= 0, y < pow2(v)),
                                         x * y + pow2(u) + pow2(v) <= pow2(u) * pow2(v) + 1))
    # x * pow2(t) with 0 <= x < pow2(u):  x*pow2(t) + pow2(t) <= pow2(u)*pow2(t)   (scaling an
    # inequality by a positive factor; the products are opaque monomials for the linear solver)
    mults = _mults(formulas)
    if len(mults) * len(orig) <= 400:
        for (x, t) in mults:
            ax.append(z3.Implies(x >= 0, x * pow2(t) >= 0))
            for u in orig:
                ax.append(z3.Implies(z3.And(x >= 0, x < pow2(u), t >= 0, u >= 0),
                                     x * pow2(t) + pow2(t) <= pow2(u) * pow2(t)))
    for nm, f in (('band', band), ('bor', bor), ('bxor', bxor)):
        for e in apps[nm]:
            a, b = e.arg(0), e.arg(1)
            ax.append(f(a, b) == f(b, a))
            bits = z3.And(a >= 0, a <= 1, b >= 0, b <= 1)
            if nm == 'band':
                # x & (x - 1) == 0  <=>  x is a power of two   (x > 0)      [lean/PyInt.lean]
                for x, y in ((a, b), (b, a)):
                    if z3.is_true(z3.simplify(y == x - 1)):
                        ispow = x == pow2(bitlen(x) - 1)
                        ax.append(z3.Implies(x > 0, (e == 0) == ispow))
                        ax.append(z3.Implies(x > 0, z3.And(bitlen(x) >= 1, pow2(bitlen(x) - 1) <= x,
                                                           x < pow2(bitlen(x)))))
                        ax.append(pow2(bitlen(x) - 1) >= 1)
                ax.append(z3.Implies(bits, e == z3.If(z3.And(a == 1, b == 1), 1, 0)))
                ax.append(z3.Implies(z3.And(a >= 0, b >= 0), z3.And(e >= 0, e <= a, e <= b)))
                ax.append(z3.Implies(b == 0, e == 0))
                ax.append(z3.Implies(a == 0, e == 0))
                ax.append(z3.Implies(a == b, e == a))
            elif nm == 'bor':
                ax.append(z3.Implies(bits, e == z3.If(z3.Or(a == 1, b == 1), 1, 0)))
                ax.append(z3.Implies(z3.And(a >= 0, b >= 0), z3.And(e >= a, e >= b, e <= a + b)))
                ax.append(z3.Implies(b == 0, e == a))
                ax.append(z3.Implies(a == 0, e == b))
                ax.append(z3.Implies(a == b, e == a))
            else:
                ax.append(z3.Implies(bits, e == z3.If(a == b, 0, 1)))
                ax.append(z3.Implies(z3.And(a >= 0, b >= 0), z3.And(e >= 0, e <= a + b)))
                ax.append(z3.Implies(b == 0, e == a))
                ax.append(z3.Implies(a == 0, e == b))
                ax.append(z3.Implies(a == b, e == 0))
                ax.append(z3.Implies(z3.And(a >= 0, b >= 0), (e == 0) == (a == b)))     # [lean: xor_eq_zero']
            # operands below 2**k stay below 2**k
            for t in ts:
                ax.append(z3.Implies(z3.And(t >= 0, a >= 0, a < pow2(t), b >= 0, b < pow2(t)),
                                     z3.And(e >= 0, e < pow2(t))))
    for e in apps['bitlen']:
        x = e.arg(0)
        xs = z3.simplify(x)
        if z3.is_int_value(xs) and xs.as_long() >= 0:
            ax.append(e == xs.as_long().bit_length())
        ax.append(z3.Implies(x == 0, e == 0))
        ax.append(z3.Implies(x > 0, z3.And(e >= 1, pow2(e - 1) <= x, x < pow2(e))))
        ax.append(pow2(e) >= 1)
        ax.append(z3.Implies(e >= 1, pow2(e) == 2 * pow2(e - 1)))
        ax.append(pow2(e - 1) >= 1)
        for t in ts:
            ax.append(z3.Implies(z3.And(x > 0, t >= 0, x < pow2(t)), e <= t))
            ax.append(z3.Implies(z3.And(x > 0, t >= 0, x >= pow2(t)), e >= t + 1))
    return ax


def concrete_interp(w_max=12):
    """Pinned tables for the concrete re-check of candidate models."""
    return {'pow2': lambda k: 1 << k if k >= 0 else 1, 'band': lambda a, b: a & b,
            'bor': lambda a, b: a | b, 'bxor': lambda a, b: a ^ b,
            'bitlen': lambda x: int(x).bit_length()}


def concrete_theory(formulas, maxw=16):
    """Definitions that pin the uninterpreted symbols to their real meaning on a bounded domain
    (arguments of pow2 in [-1, maxw], operands of the bit operations and of bitlen in
    [0, 2**(maxw+1))).  Used to CONFIRM a `sat` answer of the abstract theory: a counter-model that
    survives these definitions is a genuine counterexample over Python integers; one that does not is
    spurious (a missing lemma instance) or needs larger numbers, and is reported as undecided."""
    out = []
    apps = _apps(formulas)
    seen = set()
    for e in apps['pow2']:
        t = e.arg(0)
        k = t.sexpr()
        if k in seen:
            continue
        seen.add(k)
        out.append(z3.And(t >= -1, t <= maxw))
        tab = z3.IntVal(1)
        for v in range(maxw, 0, -1):
            tab = z3.If(t == v, z3.IntVal(1 << v), tab)
        out.append(pow2(t) == tab)
    nb = maxw + 2
    lim = 1 << (maxw + 1)
    for nm, f in (('band', band), ('bor', bor), ('bxor', bxor)):
        for e in apps[nm]:
            a, b = e.arg(0), e.arg(1)
            out.append(z3.And(a >= 0, a < lim, b >= 0, b < lim))
            x, y = z3.Int2BV(a, nb), z3.Int2BV(b, nb)
            r = {'band': x & y, 'bor': x | y, 'bxor': x ^ y}[nm]
            out.append(e == z3.BV2Int(r))
    for e in apps['bitlen']:
        x = e.arg(0)
        out.append(z3.And(x >= 0, x < lim))
        tab = z3.IntVal(0)
        for v in range(1, maxw + 2):
            tab = z3.If(x >= (1 << (v - 1)), z3.IntVal(v), tab)
        out.append(e == tab)
    return out
