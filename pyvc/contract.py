"""Contract base class, registry, loop invariants.

A contract is bound to a real function by (module, qualname).  The SAME pre/post clause
functions are used three ways:
  verify  - symbolic arguments from `setup`, preconditions assumed, the REAL body executed by
            pyvc.engine, one VC per postcondition clause and path;
  apply   - at a call site inside another verified function: one VC per precondition clause,
            result/modified state havocked, postconditions assumed (callers see only the contract);
  concrete- CPython cross-check / replay: real function called on enumerated small inputs and the
            clauses evaluated over Python ints.
"""
REGISTRY = {}          # (module, qualname) -> Contract instance


def register(c):
    inst = c() if isinstance(c, type) else c
    REGISTRY[(inst.module, inst.key_name)] = inst
    return c


class Contract(object):
    module = None
    qualname = None
    props = ()
    recursive_ok = False      # the function may call itself; the contract is assumed at that call
    invariants = {}           # (qualname, loop ordinal) -> ForInv / WhileInv
    hooks = {}
    max_paths = 400
    variant = ''              # several contracts on one function (different aspects) get a variant tag

    @property
    def key_name(self):
        return self.qualname + ('#' + self.variant if self.variant else '')

    # ---- symbolic side -------------------------------------------------------------
    def cases(self):
        return ['']

    def setup(self, I, case):
        """-> NS with at least .args (list) and optionally .self, .kwargs; may call I.st.assume"""
        raise NotImplementedError

    def bind(self, I, selfobj, args, kwargs):
        """apply mode: NS from the actual arguments at a call site"""
        from pyvc.hl import NS
        return NS(self=selfobj, args=list(args), kwargs=dict(kwargs))

    def pre(self, ns):
        return []

    def snapshot(self, I, ns):
        pass

    def result(self, I, ns):
        """apply mode: fresh result"""
        return I.st.fresh_int('res')

    def havoc(self, I, ns):
        pass

    def post(self, ns):
        """-> list of (name, clause); ns.result is bound"""
        return []

    def raises(self, ns):
        """-> list of (exception name, condition): the function raises `exc` iff `condition`
        (conditions mutually exclusive); when no condition holds it must return normally."""
        return []

    def may_raise(self, ns):
        """-> list of exception names the contract leaves unconstrained (neither required
        nor forbidden)."""
        return []

    # ---- concrete side ---------------------------------------------------------------
    def concrete(self, tier='quick'):
        """yield (label, thunk); thunk() -> (ok, observed, expected) on the real code"""
        return []

    # ---- use at a call site --------------------------------------------------------
    def measure(self, ns):
        """recursive functions: an integer term that decreases at every recursive call and is >= 0
        (the contract is assumed at the recursive call - induction on this measure)"""
        return None

    def apply(self, I, selfobj, args, kwargs):
        import z3
        from pyvc.engine import RaiseSig, Sym
        st = I.st
        st.used_contracts.add(self.module + '.' + self.qualname)
        ns = self.bind(I, selfobj, args, kwargs)
        if getattr(I, 'verifying', None) == (self.module, self.key_name) or \
                getattr(I, 'verifying', None) == (self.module, self.qualname):
            m0, m1 = getattr(I, 'measure0', None), self.measure(ns)
            if m0 is None or m1 is None:
                from pyvc.engine import Unsupported
                raise Unsupported('recursive call of %s without a measure' % self.qualname)
            st.vc('call:%s.measure decreases' % self.qualname, z3.And(m1 >= 0, m1 < m0), kind='callpre')
        for i, c in enumerate(self.pre(ns)):
            nm, cl = c if isinstance(c, tuple) else ('pre%d' % i, c)
            st.vc('call:%s.%s' % (self.qualname, nm), _t(cl), kind='callpre')
        for exc, cond in self.raises(ns):
            if I.truth(Sym(_t(cond))):
                raise RaiseSig(exc)
        self.snapshot(I, ns)
        self.havoc(I, ns)
        ns.result = self.result(I, ns)
        for nm, cl in self.post(ns):
            st.assume(_t(cl))
        return ns.result


def _t(c):
    import z3
    from pyvc.engine import Sym, bterm
    if isinstance(c, Sym):
        return bterm(c)
    if isinstance(c, bool):
        return z3.BoolVal(c)
    return c


def assigned_names(body):
    import ast
    out = set()
    for s in body:
        for n in ast.walk(s):
            if isinstance(n, ast.Name) and isinstance(n.ctx, ast.Store):
                out.add(n.id)
    return out


class ForInv(object):
    """Inductive invariant for `for x in <symbolic sequence>` (or a `while`).
    inv(I, fr, k) -> list of (name, z3 Bool) over the frame's current values with k iterations
    completed.  heap(I, fr) -> list of SMap objects the body may modify (havocked)."""

    def __init__(self, inv, heap=None, decreases=None):
        self.inv, self.heap, self.decreases = inv, heap, decreases

    def _havoc(self, I, s, fr):
        import z3
        from pyvc.engine import Sym, SMap
        names = assigned_names(s.body)
        for n in sorted(names):
            if n not in fr.env:
                continue
            v = fr.env[n]
            if isinstance(v, bool) or (isinstance(v, Sym) and v.is_bool):
                fr.env[n] = I.st.fresh_bool(n)
            elif isinstance(v, (int, Sym)):
                fr.env[n] = I.st.fresh_int(n)
            elif isinstance(v, SMap):
                v.arr = z3.Const('%s!%d' % (n, next(I.st.n)), v.arr.sort())
        if self.heap is not None:
            for m in self.heap(I, fr):
                m.arr = z3.Const('heap!%d' % next(I.st.n), m.arr.sort())
                if m.dom is not None:
                    m.dom = z3.Const('heapdom!%d' % next(I.st.n), m.dom.sort())
                if getattr(m, 'dom2', None) is not None:
                    m.dom2 = z3.Const('heapdom2!%d' % next(I.st.n), m.dom2.sort())

    def run_while(self, I, s, fr, key):
        """`while cond:` cut at the invariant: established at entry, preserved by one arbitrary iteration
        (started in an arbitrary state satisfying invariant and condition), assumed together with the negated
        condition afterwards.  Partial correctness: termination is not an obligation.  inv(I, fr, k) gets a
        fresh symbolic iteration count k (>= 0) it may ignore."""
        import z3
        from pyvc.engine import PathEnd, ContinueSig, BreakSig, Unsupported
        st = I.st
        tag = '%s.loop%d' % key
        I.loop_carried = sorted(n for n in assigned_names(s.body) if n in fr.env)
        I.inv_phase = 'init'
        for nm, g in self.inv(I, fr, z3.IntVal(0)):
            st.vc('%s.init:%s' % (tag, nm), g, kind='inv')
        in_body = st.branch(z3.Bool('%s!enter!%d' % (tag, next(st.n))))
        self._havoc(I, s, fr)
        k = z3.Int('%s!k!%d' % (tag, next(st.n)))
        st.assume(k >= 0)
        if in_body:
            I.inv_phase = 'assume'
            for nm, g in self.inv(I, fr, k):
                st.assume(g)
            if not I.truth(I.eval(s.test, fr)):
                raise PathEnd()
            try:
                I.exec_block(s.body, fr)
            except ContinueSig:
                pass
            except BreakSig:
                raise Unsupported('break inside a loop cut at an invariant')
            I.inv_phase = 'preserved'
            for nm, g in self.inv(I, fr, k + 1):
                st.vc('%s.preserved:%s' % (tag, nm), g, kind='inv')
            raise PathEnd()
        I.inv_phase = 'exit'
        for nm, g in self.inv(I, fr, k):
            st.assume(g)
        if I.truth(I.eval(s.test, fr)):
            raise PathEnd()
        if s.orelse:
            I.exec_block(s.orelse, fr)

    def run_for(self, I, s, fr, seq, key):
        import z3
        from pyvc.engine import PathEnd, ContinueSig, BreakSig, Unsupported
        st = I.st
        tag = '%s.loop%d' % key
        # loop-carried locals (assigned in the body, bound before the loop, not the loop target), in
        # order of first assignment: invariants name the variables they talk about through this list,
        # so that renaming a local in /repo does not break (or falsely refute) a contract
        import ast as _ast
        tnames = {n.id for n in _ast.walk(s.target) if isinstance(n, _ast.Name)} if hasattr(s, 'target') else set()
        carried = []
        for b in s.body:
            for n in _ast.walk(b):
                if isinstance(n, _ast.Name) and isinstance(n.ctx, _ast.Store) and n.id not in tnames \
                        and n.id in fr.env and n.id not in carried:
                    carried.append(n.id)
        I.loop_carried = carried
        I.inv_phase = 'init'
        for nm, g in self.inv(I, fr, z3.IntVal(0)):
            st.vc('%s.init:%s' % (tag, nm), g, kind='inv')
        in_body = st.branch(z3.Bool('%s!enter!%d' % (tag, next(st.n))))
        self._havoc(I, s, fr)
        if in_body:
            k = z3.Int('%s!k!%d' % (tag, next(st.n)))
            st.assume(z3.And(k >= 0, k < seq.length))
            I.inv_phase = 'assume'
            for nm, g in self.inv(I, fr, k):
                st.assume(g)
            I.assign(s.target, seq.elem(k), fr)
            try:
                I.exec_block(s.body, fr)
            except ContinueSig:
                pass
            except BreakSig:
                raise Unsupported('break inside a loop cut at an invariant')
            I.inv_phase = 'preserved'
            for nm, g in self.inv(I, fr, k + 1):
                st.vc('%s.preserved:%s' % (tag, nm), g, kind='inv')
            raise PathEnd()
        else:
            n = seq.length
            I.inv_phase = 'exit'
            for nm, g in self.inv(I, fr, n):
                st.assume(g)
            if s.orelse:
                I.exec_block(s.orelse, fr)
