"""./check <Cxx> [--tier quick|thorough] [--replay FILE]"""
import argparse
import importlib
import json
import os
import sys
import traceback

from vlib.ctx import Ctx, ROOT


def main():
    ap = argparse.ArgumentParser()
    ap.add_argument('pid')
    ap.add_argument('--tier', default=os.environ.get('VERIF_TIER', 'quick'))
    ap.add_argument('--replay', default=None)
    ap.add_argument('--only', default=None, help='substring filter on obligation / family names')
    a = ap.parse_args()
    try:
        seed = int(os.environ.get('VERIF_SEED', '0'))
    except ValueError:
        seed = 0
    if a.tier not in ('quick', 'thorough'):
        a.tier = 'quick'
    os.environ['VERIF_TIER'] = a.tier
    if a.replay:
        return replay(a.pid, a.replay)
    ctx = Ctx(a.pid, a.tier, seed)
    ctx.only = a.only
    try:
        import spec.selfcheck
        spec.selfcheck.run(ctx)
        mod = importlib.import_module('props.' + a.pid)
        rc = mod.run(ctx)
    except SystemExit:
        raise
    except Exception:
        traceback.print_exc()
        print('CHECKER-CRASH property=%s (no verdict)' % a.pid)
        return 3
    return rc


def replay(pid, path):
    with open(path) as f:
        rec = json.load(f)
    ctx = Ctx.__new__(Ctx)
    ctx.pid = pid
    if not rec.get('replayer'):
        print('replay file names obligation %s; no failing input was found; solver output:\n%s'
              % (rec.get('obligation'), rec.get('solver_output')))
        return 1
    res = ctx.replay_in_subprocess(rec['replayer'], rec['replay_args'])
    print(json.dumps(res, indent=1, default=str))
    if res.get('failed'):
        print('REPLAY: still failing on the current tree: obligation %s' % rec.get('obligation'))
        return 1
    print('REPLAY: does not fail on the current tree')
    return 0


if __name__ == '__main__':
    sys.exit(main())
