"""Run context: obligations, bounded-family bookkeeping, violations, known findings, evidence.

Exit codes (DESIGN 2.7): 0 held / 1 violation (replayed or no-failing-input-found)
/ 2 undecided with no bounded route / 3 checker crash.
"""
import hashlib
import json
import os
import subprocess
import sys
import time

ROOT = os.path.dirname(os.path.dirname(os.path.abspath(__file__)))
REPO = os.environ.get('VERIF_REPO', '/repo')
REPLAY_PY = os.environ.get('VERIF_REPLAY_PY', '/venv/bin/python')


def jdump(o):
    return json.dumps(o, sort_keys=True, default=str)


class Ctx(object):
    def __init__(self, pid, tier, seed):
        self.pid = pid
        self.tier = tier
        self.seed = seed
        self.t0 = time.time()
        self.obligations = []      # P-level: dicts
        self.bounded = []          # PB/B-level family records
        self.violations = []       # reported (not known)
        self.known_hits = []
        self.assumptions = []
        self.functions = set()     # functions under contract
        self.inlined = set()
        self.callee_contracts = set()     # contracts applied at call sites (callers see only the contract)
        self.modelled = set()             # constructors / methods replaced by a stated model or stub
        self.trusted = set()
        self.samples = []
        self.undecided_no_route = []
        self.notes = []
        self.engine_unsound = False
        self._known = self._load_known()
        import shutil
        shutil.rmtree(os.path.join(ROOT, 'replays', pid), ignore_errors=True)
        self._printed = set()
        self._fam_reports = {}
        self.replay_errors = []
        self.crashes = []
        self._fam_skipped = {}
        self.max_reports_per_family = 8

    # ---------------------------------------------------------------- known
    def _load_known(self):
        p = os.path.join(ROOT, 'known_findings.json')
        if not os.path.exists(p):
            return []
        with open(p) as f:
            return [e for e in json.load(f).get('findings', []) if e.get('property') == self.pid]

    # ---------------------------------------------------------- obligations
    def obligation(self, name, function, status, backend='z3', time_s=0.0, src_hash=None,
                   detail=None, bounded_fallback=None):
        """status: proved | refuted-replayed | refuted-no-input | undecided | crash"""
        rec = dict(name=name, function=function, status=status, backend=backend,
                   time_s=round(time_s, 4))
        if src_hash:
            rec['src_sha256'] = src_hash[:16]
        if detail:
            rec['detail'] = detail
        if bounded_fallback is not None:
            rec['bounded_fallback'] = bounded_fallback
        self.obligations.append(rec)
        self.functions.add(function)
        return rec

    def family(self, name, level, instances=0, smt_queries=0, evaluations=0, exhaustive=False,
               nontrivial=0, bound='', solver_s=0.0, sample=None):
        """level: 'PB' (bounded structure, all data by SMT) or 'B' (executable contract)."""
        rec = dict(family=name, level=level, instances=instances, smt_queries=smt_queries,
                   evaluations=evaluations, exhaustive=exhaustive, nontrivial=nontrivial,
                   bound=bound, solver_s=round(solver_s, 3))
        self.bounded.append(rec)
        if sample is not None and len(self.samples) < 12:
            self.samples.append({'family': name, 'case': sample})
        return rec

    def assume(self, text):
        if text not in self.assumptions:
            self.assumptions.append(text)

    # ------------------------------------------------------------ violations
    def replay_in_subprocess(self, replayer, args, timeout=600):
        """Run vlib.replayers.<replayer>(**args) in a clean interpreter (no solver loaded).
        Returns dict(failed=bool, observed=..., expected=..., error=...)"""
        payload = json.dumps({'replayer': replayer, 'args': args})
        env = dict(os.environ)
        env['PYTHONPATH'] = REPO + os.pathsep + ROOT
        env.pop('PYTHONHASHSEED', None)
        try:
            p = subprocess.run([REPLAY_PY, '-m', 'vlib.replayers'], input=payload, text=True,
                               capture_output=True, env=env, cwd=ROOT, timeout=timeout)
        except subprocess.TimeoutExpired:
            return dict(failed=False, error='replay timeout')
        last = [l for l in p.stdout.splitlines() if l.startswith('REPLAY-RESULT ')]
        if not last:
            return dict(failed=False, error='replay crashed: ' + (p.stderr or p.stdout)[-2000:])
        return json.loads(last[-1][len('REPLAY-RESULT '):])

    def violation(self, obligation, canonical_input, observed, expected, replayer=None,
                  replay_args=None, solver_output='', function=None, no_input=False, text=''):
        """Report a violation (after it was confirmed on real code, or no_input=True).
        Matches known_findings; writes the replay file; prints the line once."""
        for e in self._known:
            if e.get('status') != 'known':
                continue
            if e.get('obligation') == obligation and \
                    jdump(e.get('canonical_input')) == jdump(canonical_input) and \
                    ('observed' not in e or jdump(e.get('observed')) == jdump(observed)):
                key = ('K', obligation, jdump(canonical_input))
                if key not in self._printed:
                    self._printed.add(key)
                    print('KNOWN-FINDING: property=%s %s' % (self.pid, e.get('text', obligation)))
                    self.known_hits.append(dict(obligation=obligation, input=canonical_input))
                return 'known'
        key = ('V', obligation)
        rdir = os.path.join(ROOT, 'replays', self.pid)
        os.makedirs(rdir, exist_ok=True)
        fn = ''.join(ch if ch.isalnum() or ch in '._-' else '_' for ch in obligation)[:120]
        path = os.path.join(rdir, fn + '.json')
        rec = dict(property=self.pid, obligation=obligation, function=function,
                   canonical_input=canonical_input, observed=observed, expected=expected,
                   replayer=replayer, replay_args=replay_args, solver_output=str(solver_output)[-4000:],
                   no_failing_input_found=bool(no_input), text=text)
        if key not in self._printed:
            self._printed.add(key)
            with open(path, 'w') as f:
                json.dump(rec, f, indent=1, sort_keys=True, default=str)
            line = 'VIOLATION property=%s replay=%s' % (self.pid, path)
            if no_input:
                line += ' no-failing-input-found'
            print(line)
            sys.stdout.flush()
            self.violations.append(dict(obligation=obligation, replay=path,
                                        input=canonical_input, observed=observed,
                                        expected=expected))
        return 'violation'

    def confirm_and_report(self, obligation, replayer, replay_args, canonical_input=None,
                           function=None, solver_output='', text=''):
        """Replay a candidate counterexample on the real code in a clean interpreter.
        Only a replay that fails there is reported.  Returns True if reported/known."""
        fam = obligation.split('[')[0]
        cnt = self._fam_reports.get(fam, 0)
        if cnt >= self.max_reports_per_family:
            self._fam_skipped[fam] = self._fam_skipped.get(fam, 0) + 1
            return False
        res = self.replay_in_subprocess(replayer, replay_args)
        if res.get('failed'):
            ci = canonical_input if canonical_input is not None else replay_args
            r = self.violation(obligation, ci, res.get('observed'), res.get('expected'),
                               replayer=replayer, replay_args=replay_args, function=function,
                               solver_output=solver_output, text=text)
            if r != 'known':
                self._fam_reports[fam] = cnt + 1
            return r or True
        self.notes.append('candidate for %s did not replay: %s' % (obligation, jdump(res)[:300]))
        if res.get('error'):
            # the replayer itself crashed: a fault of the checking machinery, never a verdict
            self.replay_errors.append('%s: %s' % (obligation, str(res.get('error'))[-600:]))
        return False

    # -------------------------------------------------------------- evidence
    def finish(self, level, checker_cmd, trusted_base, explanation, extra=None):
        obl = len(self.obligations)
        dis = sum(1 for o in self.obligations if o['status'] == 'proved')
        und = [o for o in self.obligations if o['status'] == 'undecided']
        if level == 'proof' and (dis != obl or obl == 0):
            level = 'other'
        evals = sum(b['evaluations'] + b['smt_queries'] for b in self.bounded)
        nontriv = sum(b['nontrivial'] for b in self.bounded)
        cov = dict(
            obligations=obl, discharged=dis,
            checker_cmd=checker_cmd, trusted_base=trusted_base,
            explanation=explanation,
            evaluations=max(evals, 0), distinct_nontrivial=nontriv,
            rule='bounded families: one case per structural instance; SMT queries decide all '
                 'data values of an instance; B-level evaluations are executable-contract runs. '
                 'non-trivial = instance whose netlist/text is non-empty and whose contract '
                 'premises were satisfiable',
            samples=self.samples[:12] or [o for o in self.obligations[:6]],
            functions_under_contract=sorted(self.functions),
            inlined_callees=sorted(self.inlined), trusted_callees=sorted(self.trusted),
            callee_contracts_applied=sorted(self.callee_contracts),
            modelled_or_stubbed=sorted(self.modelled),
            proved_obligations=[o for o in self.obligations],
            undecided=[o['name'] for o in und],
            bounded=self.bounded,
            bounded_never_counted_as_proved=True,
            solver_time_s=round(sum(o['time_s'] for o in self.obligations)
                                + sum(b['solver_s'] for b in self.bounded), 3),
            known_findings_hit=self.known_hits,
            notes=self.notes[:40],
            candidates_not_replayed_after_cap=self._fam_skipped,
            engine_flagged_unsound=self.engine_unsound,
            exhaustive=bool(self.bounded) and all(b['exhaustive'] for b in self.bounded),
        )
        if self.bounded:
            cov['programs'] = sum(b['instances'] for b in self.bounded)
            cov['disagreements_checked'] = len(self.violations) + len(self.known_hits)
        if extra:
            cov.update(extra)
        ev = dict(property_id=self.pid, tier=self.tier, seed=self.seed, level=level,
                  coverage=cov, assumptions=self.assumptions,
                  wall_s=round(time.time() - self.t0, 2), violations=len(self.violations))
        # runs against a scratch copy of the repository (seed sweeps) keep their evidence out of the committed
        # directory: /verif/evidence always describes a run on /repo itself
        evdir = os.environ.get('VERIF_EVIDENCE_DIR') or os.path.join(ROOT, 'evidence')
        os.makedirs(evdir, exist_ok=True)
        with open(os.path.join(evdir, self.pid + '.json'), 'w') as f:
            json.dump(ev, f, indent=1, sort_keys=True, default=str)
        print('%s tier=%s level=%s obligations=%d discharged=%d undecided=%d bounded_families=%d '
              'violations=%d known=%d wall=%.1fs'
              % (self.pid, self.tier, level, obl, dis, len(und), len(self.bounded),
                 len(self.violations), len(self.known_hits), time.time() - self.t0))
        if self.violations:
            return 1
        if self.replay_errors or self.crashes:
            print('CHECKER-FAULT: %d replay(s) / %d task(s) crashed, e.g. %s'
                  % (len(self.replay_errors), len(self.crashes),
                     (self.replay_errors + self.crashes)[0]))
            return 3
        if self.undecided_no_route:
            print('UNDECIDED (no bounded route): %s' % self.undecided_no_route[:10])
            return 2
        return 0


def src_hash(text):
    return hashlib.sha256(text.encode()).hexdigest()
