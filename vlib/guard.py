"""Classification of exceptions raised while an executable contract runs.

An exception whose innermost frame is inside the repository under test (the check passed on the
unchanged tree, now the real code raises) is a contract FAILURE; an exception raised by the
checking machinery itself is a crash of the checker and never a verdict."""
import os
import sys
import traceback

REPO = os.environ.get('VERIF_REPO', '/repo')


def classify(exc_info=None):
    et, ev, tb = exc_info or sys.exc_info()
    frames = traceback.extract_tb(tb)
    inner = frames[-1].filename if frames else ''
    text = ''.join(traceback.format_exception(et, ev, tb))[-900:]
    in_repo = os.path.abspath(inner).startswith(os.path.abspath(REPO) + os.sep)
    return in_repo, '%s: %s' % (et.__name__, str(ev)[:200]), text


def guarded(fn, *args, **kwargs):
    """run an executable contract; -> its result dict, or a failure / crash record"""
    try:
        return fn(*args, **kwargs)
    except Exception:
        in_repo, short, text = classify()
        if in_repo:
            return dict(failed=True, raised=True, observed='real code raised ' + short,
                        expected='no exception', trace=text)
        return dict(failed=True, crashed=True, observed=text, expected='-')
