"""Replay of counterexamples on the real code, in a clean interpreter (no solver imported).
Protocol: JSON {'replayer': name, 'args': {...}} on stdin; last stdout line
'REPLAY-RESULT {json}' with failed / observed / expected.

A replay FAILS (failed=true) when the real code, run on the concrete input, disagrees with
the specification evaluated on Python ints.  `pyrtl.Simulation` is the executor for netlists
(it is itself under contract in C01)."""
import contextlib
import io
import json
import sys
import traceback


def _sim_outputs(block, steps, regmap=None, memmap=None, simcls=None):
    import pyrtl
    outs = sorted(block.wirevector_subset(pyrtl.Output), key=lambda w: w.name)
    tr = pyrtl.SimulationTrace(wires_to_track=outs, block=block) if outs else \
        pyrtl.SimulationTrace(block=block)
    simcls = simcls or pyrtl.Simulation
    sim = simcls(tracer=tr, register_value_map=regmap or {}, memory_value_map=memmap or {},
                 block=block)
    for s in steps:
        sim.step(s)
    return {w.name: list(tr.trace[w.name]) for w in outs}, sim


def comb(kind, params, inputs, regs=None):
    """Build a registered case with the real code, run one Simulation step, compare to spec."""
    import pyrtl
    import fam.allcases  # noqa: F401  (registers cases)
    from fam import CASES
    from spec.ops import IntOps
    from elab.constmode import const_inputs
    c = CASES[kind]
    pyrtl.reset_working_block()
    with const_inputs(params.get('_const') if isinstance(params, dict) else None) as consts:
        c.build(params)
    block = pyrtl.working_block()
    regmap = {}
    for nm, v in (regs or {}).items():
        regmap[block.wirevector_by_name[nm]] = v
    got, _ = _sim_outputs(block, [inputs], regmap)
    full = dict(inputs)
    for n, (v, bw) in consts.items():
        full[n] = inputs[bw] if v == 'alias' else v
    exp = c.spec(IntOps, params, full)
    obs = {k: v[0] for k, v in got.items() if k in exp}
    exp = {k: int(v) for k, v in exp.items() if k in obs}
    return dict(failed=(obs != exp), observed=obs, expected=exp)


def build_raises(kind, params, allowed=('PyrtlError',)):
    """Contract: building this case must not raise (or only raise an allowed class)."""
    import pyrtl
    import fam.allcases  # noqa: F401
    from fam import CASES
    pyrtl.reset_working_block()
    try:
        CASES[kind].build(params)
    except Exception as e:
        nm = type(e).__name__
        return dict(failed=True, observed='%s: %s' % (nm, str(e)[:200]), expected='no exception')
    return dict(failed=False, observed='built', expected='no exception')


def _apply_corr_value(pieces, val):
    return {bn: (val >> lo) & ((1 << w) - 1) for (bn, lo, w) in pieces}


def pass_equiv(design, passname, steps, regs=None, mems=None, regsB=None, sanction=False):
    """Source design vs the result of a pass, same stimuli and corresponding initial state, on the
    real Simulation.  Also: the result must pass sanity_check()."""
    import pyrtl
    from fam import designs, passes
    regs = regs or {}
    mems = {k: {int(a): v for a, v in d.items()} for k, d in (mems or {}).items()}
    A = designs.build(design)
    for pre in design.get('pre', []):
        A, _ = passes.get(pre)(A)
    ai = passes.info(A)
    a_regobjs = {r.name: r for r in A.wirevector_subset(pyrtl.Register)}
    regmapA = {a_regobjs[n]: v for n, v in regs.items() if n in a_regobjs}
    memmapA = {ai['mem'][n]: dict(d) for n, d in mems.items()
               if n in ai['mem'] and not isinstance(ai['mem'][n], pyrtl.RomBlock)}
    outA, _ = _sim_outputs(A, steps, regmapA, memmapA)
    origA_mems = dict(ai['mem'])
    try:
        B, corr = passes.get(passname)(A)
    except passes.MapError as e:
        return dict(failed=True, observed='MapError: %s' % e, expected='maps keyed by original objects')
    except Exception as e:
        return dict(failed=True, observed='%s: %s' % (type(e).__name__, str(e)[:300]),
                    expected='pass completes on a well-formed design')
    try:
        B.sanity_check()
    except Exception as e:
        return dict(failed=True, observed='result fails sanity_check: %s: %s'
                    % (type(e).__name__, str(e)[:300]), expected='well-formed block')
    b_regobjs = {r.name: r for r in B.wirevector_subset(pyrtl.Register)}
    regmapB = {}
    for an, v in regs.items():
        for bn, bv in _apply_corr_value(corr['reg'].get(an, []), v).items():
            if bn in b_regobjs:
                regmapB[b_regobjs[bn]] = bv
    for bn, v in (regsB or {}).items():
        if bn in b_regobjs:
            regmapB[b_regobjs[bn]] = v
    memmapB = {}
    for an, d in mems.items():
        if an not in corr['mem']:
            continue
        if isinstance(B, pyrtl.PostSynthBlock) and passname.startswith('synthesize'):
            memmapB[origA_mems[an]] = dict(d)     # testbench written against the original
        else:
            memmapB[corr['mem'][an]] = dict(d)
    stepsB = []
    for s in steps:
        sb = {}
        for an, v in s.items():
            sb.update(_apply_corr_value(corr['in'].get(an, [(an, 0, 4096)]), v))
        stepsB.append(sb)
    try:
        outB_raw, _ = _sim_outputs(B, stepsB, regmapB, memmapB)
    except Exception as e:
        return dict(failed=True, observed='simulating the result raised %s: %s'
                    % (type(e).__name__, str(e)[:300]), expected=outA)
    missing = sorted(bn for an in outA for (bn, lo, w) in corr['out'].get(an, []) if bn not in outB_raw)
    if missing:
        return dict(failed=True, observed='Outputs missing from the result: %s' % missing[:6], expected=outA)
    outB = {}
    for an in outA:
        vals = []
        for t in range(len(steps)):
            v = 0
            for (bn, lo, w) in corr['out'].get(an, []):
                v |= outB_raw[bn][t] << lo
            vals.append(v)
        outB[an] = vals
    return dict(failed=(outA != outB), observed=outB, expected=outA)


def reset_corr(design, passname):
    """Contract: the result's registers carry the source's reset values bit for bit, and an
    unspecified reset value (None) stays unspecified."""
    import pyrtl
    from fam import designs, passes
    A = designs.build(design)
    for pre in design.get('pre', []):
        A, _ = passes.get(pre)(A)
    a_reset = {r.name: r.reset_value for r in A.wirevector_subset(pyrtl.Register)}
    B, corr = passes.get(passname)(A)
    breg = {r.name: r for r in B.wirevector_subset(pyrtl.Register)}
    probs = []
    for an, pieces in corr['reg'].items():
        for (bn, lo, w) in pieces:
            if bn not in breg:
                continue
            exp = None if a_reset[an] is None else (a_reset[an] >> lo) & ((1 << w) - 1)
            if breg[bn].reset_value != exp:
                probs.append([bn, breg[bn].reset_value, an, a_reset[an], exp])
    return dict(failed=bool(probs), observed=probs[:6], expected='reset values carried over')


def pass_raises(design, passname):
    import pyrtl
    from fam import designs, passes
    A = designs.build(design)
    for pre in design.get('pre', []):
        A, _ = passes.get(pre)(A)
    try:
        B, corr = passes.get(passname)(A)
        B.sanity_check()
    except Exception as e:
        return dict(failed=True, observed='%s: %s' % (type(e).__name__, str(e)[:300]),
                    expected='pass completes and result is well-formed')
    return dict(failed=False, observed='ok', expected='ok')


def call(module, func, kwargs):
    """Generic: run vlib-side python replay function module.func(**kwargs) -> result dict."""
    import importlib
    m = importlib.import_module(module)
    return getattr(m, func)(**kwargs)


def main():
    req = json.loads(sys.stdin.read())
    fn = globals()[req['replayer']]
    buf = io.StringIO()
    try:
        with contextlib.redirect_stdout(buf):
            res = fn(**req['args'])
    except Exception:
        from vlib.guard import classify
        in_repo, short, text = classify()
        if in_repo:
            res = dict(failed=True, observed='real code raised ' + short, expected='no exception')
        else:
            res = dict(failed=False, error='replayer crashed: ' + text)
    print('REPLAY-RESULT ' + json.dumps(res, default=str))


if __name__ == '__main__':
    main()
