"""C11 - copying and non-updating passes never disturb the source block."""
from fam import designs, passes
from elab import passcheck


def _reraise():
    raise

FUNCS = 'pyrtl.transform.copy_block / clone_wire / _copy_net / MemBlock._make_copy; ' \
        'synthesize/optimize(update_working_block=False)'
NOUPD = ['copy_block', 'synthesize_noupdate', 'optimize_copy']


def fingerprint(block):
    """Structural fingerprint: everything observable about wires, nets, memories (by identity)."""
    import pyrtl
    wires = sorted((id(w), type(w).__name__, w.name, w.bitwidth,
                    getattr(w, 'val', None), getattr(w, 'reset_value', None), id(w._block))
                   for w in block.wirevector_set)
    nets = sorted((n.op, repr(n.op_param if n.op not in 'm@' else (n.op_param[0], id(n.op_param[1]))),
                   tuple(id(a) for a in n.args), tuple(id(d) for d in n.dests))
                  for n in block.logic)
    mems = {}
    for n in block.logic:
        if n.op in 'm@':
            m = n.op_param[1]
            data = None
            if isinstance(m, pyrtl.RomBlock):
                try:
                    data = tuple(m._get_read_data(a) for a in range(min(2 ** m.addrwidth, 64)))
                except Exception as e:    # noqa
                    data = 'err'
            mems[id(m)] = (type(m).__name__, m.name, m.id, m.bitwidth, m.addrwidth,
                           m.asynchronous, m.max_read_ports, m.max_write_ports,
                           getattr(m, 'pad_with_zeros', None), data,
                           len(m.readport_nets), len(m.writeport_nets))
    byname = sorted((k, id(v)) for k, v in block.wirevector_by_name.items())
    return (wires, nets, sorted(mems.items()), byname, sorted(block.legal_ops),
            sorted(block.memblock_by_name))


def sim_trace(block, nsteps=4, seed=1):
    import random
    import pyrtl
    rnd = random.Random(seed)
    ins = sorted(block.wirevector_subset(pyrtl.Input), key=lambda w: w.name)
    tr = pyrtl.SimulationTrace(block=block)
    sim = pyrtl.Simulation(tracer=tr, block=block)
    for _ in range(nsteps):
        sim.step({w.name: rnd.getrandbits(w.bitwidth) for w in ins})
    return {k: list(v) for k, v in tr.trace.items()}


def frame_check(design, passname, foreign=False):
    """Executable contract (level B). Returns replay-style dict.
    foreign=True: the source is NOT the working block while the pass runs (it is handed over through
    the block= argument); the working block is an unrelated design that must stay untouched."""
    import pyrtl
    probs = []
    A = designs.build(design)
    other = pyrtl.Block()
    if foreign:
        with pyrtl.set_working_block(other, no_sanity_check=True):
            oi = pyrtl.Input(2, 'c11_other_in')
            orr = pyrtl.Register(2, 'c11_other_reg', reset_value=1)
            orr.next <<= oi
            oo = pyrtl.Output(2, 'c11_other_out')
            oo <<= orr
        pyrtl.set_working_block(other, no_sanity_check=True)
        fp_other = fingerprint(other)
    else:
        pyrtl.set_working_block(A, no_sanity_check=True)
    wb_before = pyrtl.working_block()
    fp0 = fingerprint(A)
    tr0 = sim_trace(A)
    fn = passes.get(passname)
    B, corr = fn(A)
    if pyrtl.working_block() is not wb_before:
        probs.append('working block changed by %s' % passname)
    if fingerprint(A) != fp0:
        probs.append('source block modified by %s' % passname)
    if sim_trace(A) != tr0:
        probs.append('source simulation changed after %s' % passname)
    if B is A:
        probs.append('result is the source block itself')
    if foreign:
        if fingerprint(other) != fp_other:
            probs.append('the (unrelated) working block was modified by %s' % passname)
        src_if = sorted((type(w).__name__, w.name, w.bitwidth) for w in A.wirevector_subset((pyrtl.Input, pyrtl.Output)))
        res_if = sorted((type(w).__name__, w.name, w.bitwidth) for w in B.wirevector_subset((pyrtl.Input, pyrtl.Output)))
        if passname in ('copy_block', 'optimize_copy') and src_if != res_if:
            probs.append('result interface %s is not the interface of the source %s' % (res_if[:4], src_if[:4]))
    shared = set(id(w) for w in A.wirevector_set) & set(id(w) for w in B.wirevector_set)
    if shared:
        probs.append('%d wire objects shared between source and result' % len(shared))
    am = set(id(n.op_param[1]) for n in A.logic if n.op in 'm@')
    bm = set(id(n.op_param[1]) for n in B.logic if n.op in 'm@')
    if am & bm:
        probs.append('memory objects shared between source and result')
    for w in B.wirevector_set:
        if w._block is not B:
            probs.append('result wire %s belongs to another block' % w.name)
            break
    # no mutable container is shared between the two blocks (a later in-place edit of one - its legal_ops,
    # its name map, ... - must not reach the other)
    for attr, va in sorted(vars(A).items()):
        vb = vars(B).get(attr)
        if isinstance(va, (set, dict, list)) and va is vb:
            probs.append('Block.%s is one %s object shared by source and result' % (attr, type(va).__name__))
    for mo_a in set(n.op_param[1] for n in A.logic if n.op in 'm@'):
        for mo_b in set(n.op_param[1] for n in B.logic if n.op in 'm@'):
            for attr, va in vars(mo_a).items():
                vb = vars(mo_b).get(attr)
                if isinstance(va, (set, dict, list)) and va is vb and attr not in ('data',):
                    probs.append('memory attribute %s is one object shared by source and result' % attr)
    # attribute preservation for plain copies
    if passname == 'copy_block':
        an = {w.name: w for w in A.wirevector_set}
        for w in B.wirevector_set:
            o = an.get(w.name)
            if o is None or type(o) is not type(w) or o.bitwidth != w.bitwidth or \
                    getattr(o, 'val', None) != getattr(w, 'val', None) or \
                    getattr(o, 'reset_value', None) != getattr(w, 'reset_value', None):
                probs.append('wire %s not copied faithfully' % w.name)
        # memories are identified by id (names need not be unique); copies keep the id
        ams = {n.op_param[1].id: n.op_param[1] for n in A.logic if n.op in 'm@'}
        for n in B.logic:
            if n.op in 'm@':
                m = n.op_param[1]
                o = ams.get(m.id)
                if o is not None and o.name != m.name:
                    o = None
                if o is None or type(o) is not type(m) or (o.id, o.bitwidth, o.addrwidth, o.asynchronous,
                                                           o.max_read_ports, o.max_write_ports,
                                                           getattr(o, 'pad_with_zeros', None),
                                                           repr(getattr(o, 'data', None))) != \
                        (m.id, m.bitwidth, m.addrwidth, m.asynchronous, m.max_read_ports, m.max_write_ports,
                         getattr(m, 'pad_with_zeros', None), repr(getattr(m, 'data', None))) \
                        or n.op_param[0] != m.id:
                    probs.append('memory %s not copied faithfully' % m.name)
    # later edits / simulation of either block do not affect the other
    try:
        trB0 = sim_trace(B)
    except Exception as e:
        probs.append('simulating the result raised %s: %s' % (type(e).__name__, str(e)[:120]))
        return dict(failed=True, observed=probs, expected=[])
    with pyrtl.set_working_block(B, no_sanity_check=True):
        x = pyrtl.Input(1, 'c11_new_in')
        y = pyrtl.Output(1, 'c11_new_out')
        y <<= ~x
    if fingerprint(A) != fp0:
        probs.append('editing the result modified the source')
    # renaming wires of the result while the source (or an unrelated block) is the working block
    names0 = sorted(A.wirevector_by_name)
    for w in sorted(B.wirevector_set, key=lambda w: w.name):
        if not isinstance(w, (pyrtl.Input, pyrtl.Output)):
            w.name = 'c11_renamed_' + w.name
    if sorted(A.wirevector_by_name) != names0 or fingerprint(A) != fp0:
        probs.append('renaming wires of the result changed the by-name map of the source')
    try:
        A.sanity_check()
    except Exception as e:
        probs.append('source fails sanity_check after the result was edited: %s' % str(e)[:100])
    sim_trace(B, seed=3)
    if sim_trace(A) != tr0:
        probs.append('simulating/editing the result changed the source behaviour')
    with pyrtl.set_working_block(A, no_sanity_check=True):
        x2 = pyrtl.Input(1, 'c11_src_in')
        y2 = pyrtl.Output(1, 'c11_src_out')
        y2 <<= x2
    trB1 = sim_trace(B)
    trB1 = {(k[len('c11_renamed_'):] if k.startswith('c11_renamed_') else k): v
            for k, v in trB1.items() if not k.startswith('c11_new')}
    trB0c = {k: v for k, v in trB0.items()}
    # B gained c11_new_in, which consumes random bits in name order; compare only structure:
    if set(trB0c) - set(trB1):
        probs.append('editing the source removed wires from the result')
    return dict(failed=bool(probs), observed=probs, expected=[])


def run(ctx):
    import contracts.transform     # noqa: F401
    from pyvc.contract import REGISTRY
    from pyvc import run as prun
    cs = [c for c in REGISTRY.values() if 'C11' in c.props and c.__class__.__module__ == 'contracts.transform']
    prun.run_contracts(ctx, cs, 'contracts.transform')
    ctx.assume('clone_wire / _make_copy contracts: constructors modelled as records of their arguments '
               '(attribute preservation only; frame and behaviour: bounded families)')
    fam = designs.family(ctx.tier, ctx.seed)
    k = 2 if ctx.tier == 'quick' else 3
    tasks = [(d, p, k, dict(sanction=(p == 'optimize_copy'))) for d in fam for p in NOUPD]
    passcheck.run_family(ctx, 'C11.copy_equiv', tasks, FUNCS,
                         'copy / non-updating pass result is not behaviourally identical to the source')
    # frame conditions (level B: executable contract on each member)
    cases = [(d, p, False) for d in fam for p in NOUPD]
    cases += [(d, p, True) for d in fam if d['name'] in ('counter', 'mem_rw', 'mixed_alu', 'rom_padded', 'regs_reset')
              for p in NOUPD]
    res = passcheck.pmap(_frame, cases)
    bad = 0
    for (d, p, fg), r in zip(cases, res):
        if r.get('crashed'):
            ctx.crashes.append('C11.frame: ' + r['observed'][-400:])
            continue
        if r['failed']:
            bad += 1
            ctx.confirm_and_report('C11.frame[%s|%s%s]' % (p, passcheck._dname(d), '|foreign' if fg else ''), 'call',
                                   dict(module='props.C11', func='frame_check',
                                        kwargs=dict(design=d, passname=p, foreign=fg)),
                                   canonical_input=dict(design=d, passname=p, foreign=fg), function=FUNCS,
                                   text='source block / working block disturbed, or objects shared')
    ctx.family('C11.frame', 'B', instances=len(cases), evaluations=len(cases),
               nontrivial=len(cases), exhaustive=False,
               bound='fingerprint + simulation of the source before/after; identity disjointness; '
                     'edit/simulate one block then re-fingerprint the other',
               sample=dict(design=cases[0][0], pass_=cases[0][1]))
    ctx.assume('frame conditions are checked at run time on the family (no static write-effect proof)')
    return ctx.finish('other', './check C11', ['z3', 'pyvc', 'spec/netsem.py', 'elab/n2smt.py'],
                      'P: clone_wire, MemBlock._make_copy, RomBlock._make_copy preserve class and every '
                      'behaviour-relevant attribute; bounded: behavioural identity by SMT per instance; frame by '
                      'executable contract')


def _frame(case):
    import traceback
    try:
        return frame_check(case[0], case[1], case[2])
    except Exception:
        from vlib.guard import guarded
        return guarded(_reraise)
