"""C06 - hardware operators compute exact integer results at the documented widths."""
from elab import combfam

FUNCS = 'pyrtl.wire.WireVector operators; pyrtl.corecircuits helpers; pyrtl.rtllib.barrel'


def cases(tier):
    cs = []
    wmax = 4 if tier == 'quick' else 6
    for wa in range(1, wmax + 1):
        for wb in range(1, wmax + 1):
            cs.append(('ops.binary', dict(wa=wa, wb=wb)))
    for (wa, wb) in [(1, 8), (8, 1), (7, 7), (5, 9)] + ([(12, 12), (16, 3)] if tier != 'quick' else []):
        cs.append(('ops.binary', dict(wa=wa, wb=wb)))
    sm = 4 if tier == 'quick' else 6
    for wa in range(1, sm + 1):
        for wb in range(1, sm + 1):
            cs.append(('ops.signed_mult', dict(wa=wa, wb=wb)))
    for wa in (1, 2, 3, 5):
        for k in (0, 1, 2, 5, 13, 0xb5, 0xdead, 0xbad, 0xd):
            cs.append(('ops.operand_kinds', dict(wa=wa, k=k)))
    # Const(-m, signed=True) in the unsigned operators (a raw bit pattern, zero-extended); runs of bare literals in concat
    for wa in (1, 4, 6):
        for m in (1, 3, 4, 5):
            cs.append(('ops.signed_const_and_literals', dict(wa=wa, m=m)))
    # int operands of 49..65 bits around powers of two (width inference must be exact, no floating point)
    for k in ((1 << 49) - 1, (1 << 53) - 1, (1 << 53) + 1, (1 << 56) - 2, (1 << 63) - 1, 1 << 63, (1 << 64) - 1, 1 << 64):
        cs.append(('ops.operand_kinds', dict(wa=3, k=k)))
    for w in range(1, 8 if tier == 'quick' else 11):
        for wb in (1, 3):
            cs.append(('ops.slices', dict(w=w, wb=wb)))
    for w in range(1, 8 if tier == 'quick' else 10):
        for ws in range(1, 5 if tier == 'quick' else 6):
            cs.append(('ops.shifts', dict(w=w, ws=ws)))
            cs.append(('ops.barrel', dict(w=w, ws=ws)))
    return cs


def run(ctx):
    import contracts.wire     # noqa: F401
    from pyvc.contract import REGISTRY
    from pyvc import run as prun
    import contracts.corecircuits     # noqa: F401
    for mod in ('contracts.wire', 'contracts.corecircuits'):
        cs = [c for c in REGISTRY.values() if 'C06' in c.props and c.__class__.__module__ == mod]
        prun.run_contracts(ctx, cs, mod)
    ctx.assume('builder model (contracts/wiremodel.py): a wire is (bitwidth, den); Block.add_net is modelled '
               'as [obligation: WF_net] + [dest.den := documented value of the primitive]; WireVector / Const / '
               'LogicNet constructors modelled as records; Const(int) through the _convert_int contract')
    combfam.run_comb_family(ctx, 'C06.operators', cases(ctx.tier), FUNCS,
                            'operator result differs from the exact integer result', opts=dict(const_twins=4))
    # negative Python ints as operands: treated like Const(k)
    from vlib.guard import guarded
    from fam import cases_ops
    n = 0
    for wa in (1, 3, 8):
        for k in (-1, -3, -4, -128):
            n += 1
            r = guarded(lambda: cases_ops.negative_int_operands(wa=wa, k=k))
            if r.get('crashed'):
                ctx.crashes.append('C06.negative_int_operands: ' + r['observed'][-300:])
            elif r['failed']:
                ctx.confirm_and_report('C06.negative_int_operands[wa=%d,k=%d]' % (wa, k), 'call',
                                       dict(module='fam.cases_ops', func='negative_int_operands', kwargs=dict(wa=wa, k=k)),
                                       canonical_input=dict(wa=wa, k=k), function=FUNCS,
                                       text='a negative int operand is not treated like the equivalent Const')
    ctx.family('C06.negative_int_operands', 'B', instances=n, evaluations=n * 14, nontrivial=n,
               bound='widths 1,3,8 x k in -1,-3,-4,-128 x 14 operator / helper forms: accepted iff Const(k) is',
               sample=dict(wa=3, k=-3))
    ctx.assume('z3 soundness; spec/netsem.py; spec functions in fam/cases_ops.py state the documented result')
    return ctx.finish('other', './check C06', ['z3', 'pyvc', 'spec/netsem.py', 'elab/n2smt.py'],
                      'P: (len, den) contracts of _two_var_op, __invert__, __getitem__, _extend_with_bit, concat, select, '
                      'signed_add / signed_lt / signed_gt (two\'s-complement reading) '
                      'discharged by z3 for all widths and values over the builder model; bounded stand-in: '
                      'each operator/helper elaborated by the real code per width combination; all operand '
                      'values decided by SMT')
