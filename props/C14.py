"""C14 - multiplexing and bit-manipulation helpers select exactly the documented bits."""
import itertools
from elab import combfam

FUNCS = 'pyrtl.corecircuits.{mux,select,enum_mux,bitfield_update,bitfield_update_set}; ' \
        'pyrtl.rtllib.muxes; pyrtl.helperfuncs.{match_bitpattern,chop,wire_struct,wire_matrix}; ' \
        'pyrtl.rtllib.libutils.partition_wire'


def patterns(tier):
    alpha = ['0', '1', '?', 'a', 'b']
    out = []
    maxlen = 4 if tier == 'quick' else 5
    for n in range(1, maxlen + 1):
        for tup in itertools.product(alpha, repeat=n):
            out.append(''.join(tup))
    if tier == 'quick':
        out = out[::7]
    out += ['01aa1?bbb11a', '??_0 1', 'a_b a', '1 0', 'ab?ba01b', 'zzzz', 'a?a?a?a?']
    return out


def cases(tier):
    cs = []
    for iw in (1, 2, 3):
        for w in (1, 3):
            cs.append(('mux.mux', dict(iw=iw, n=2 ** iw, w=w)))
            for n in range(1, 2 ** iw):
                cs.append(('mux.mux', dict(iw=iw, n=n, w=w, default=True)))
    for iw in (1, 2, 3):
        keysets = []
        allk = list(range(2 ** iw))
        for r in range(1, len(allk) + 1):
            for ks in itertools.combinations(allk, r):
                keysets.append(list(ks))
        if tier == 'quick' and iw == 3:
            keysets = keysets[::5]
        for ks in keysets:
            for dflt in (False, True):
                cs.append(('mux.sparse', dict(iw=iw, w=2, keys=ks, default=dflt)))
        cs.append(('mux.sparse', dict(iw=iw, w=2, keys=allk, default=False, const_dup=True)))
    for names in (['A', 'B', 'C', 'D'], ['A', 'C'], ['B'], ['D', 'A', 'B']):
        for dflt in (None, 'kw', 'otherwise'):
            cs.append(('mux.enum', dict(w=2, names=names, default=dflt)))
    for names in (['A', 'B'], ['A'], ['B']):
        for dflt in (None, 'kw', 'otherwise'):
            cs.append(('mux.enum', dict(w=2, names=names, default=dflt, sparse=True)))
            cs.append(('mux.enum', dict(w=2, names=names, default=dflt, sparse=True, cw=3)))
    for dflt in ('kw', 'otherwise', None):
        cs.append(('mux.enum', dict(w=2, names=['A', 'C'], default=dflt, cw=3)))
        cs.append(('mux.enum', dict(w=2, names=['A', 'B', 'C', 'D'], default=dflt, cw=3)))
    for n in range(1, 7 if tier == 'quick' else 10):
        cs.append(('mux.prioritized', dict(n=n, w=2)))
    for iw in (1, 2, 3):
        cs.append(('mux.demux', dict(iw=iw)))
    for iw in (1, 2):
        for ks in ([0], [0, 1], [1, 2] if iw == 2 else [1], list(range(2 ** iw))):
            for dflt in (False, True):
                cs.append(('mux.multiselector', dict(iw=iw, w=2, keys=ks, default=dflt)))
    for w in range(1, 6 if tier == 'quick' else 8):
        seen = set()
        for lo in [None] + list(range(-w, w)):
            for hi in [None] + list(range(-w, w + 1)):
                idx = tuple(range(w)[lo:hi])
                if not idx or idx in seen and (lo is not None and hi is not None and lo >= 0 and hi >= 0):
                    continue
                seen.add(idx)
                cs.append(('mux.bitfield_update', dict(w=w, lo=lo, hi=hi)))
    cs.append(('mux.bitfield_update_set', dict(w=6, ranges=[(0, 2), (3, 5)])))
    cs.append(('mux.bitfield_update_set', dict(w=6, ranges=[(None, 1), (-2, None), (2, 3)])))
    cs.append(('mux.bitfield_update_set', dict(w=3, ranges=[(1, 2)])))
    for pat in patterns(tier):
        cs.append(('mux.match_bitpattern', dict(pattern=pat)))
    cs.append(('mux.match_bitpattern', dict(pattern='aab0', field_map={'a': 'foo', 'b': 'bar'})))
    for segs, part in [([1], 1), ([2, 1], 1), ([1, 2, 3], 2), ([3, 3], 3), ([1, 1, 1, 1], 2),
                       ([4, 1, 3], 4), ([5], None), ([2, 5], None)]:
        cs.append(('mux.chop', dict(segs=segs, part=part)))
    for segs, val in [([8, 8], 0xABCD), ([3, 2, 1], 0b101101), ([1, 4], 0b10110), ([2, 2, 2], 0b011011)]:
        cs.append(('mux.chop', dict(segs=segs, part=None, const=val)))
        cs.append(('mux.chop', dict(segs=segs, part=None, const=val, kind='str')))
    cs.append(('mux.wire_struct', dict()))
    # prioritized_mux with selects tied to constants (the last entry is the fallback whatever its select is)
    for n, csel in ((2, {'1': 0}), (3, {'2': 0}), (3, {'2': 0, '0': 0}), (3, {'1': 0}), (3, {'0': 1}), (4, {'3': 0, '1': 1}),
                    (3, {'0': 0, '1': 0, '2': 0}), (2, {'1': 1})):
        cs.append(('mux.prioritized', dict(n=n, w=3, const_sel=csel)))
    # mux in its keyword (predicate) form
    for k in (1, 2):
        cs.append(('mux.mux', dict(iw=1, n=2, w=3, kwform=k)))
    # the default object listed explicitly as well (at the first slot of a half / elsewhere); int LUTs whose
    # default value also occurs in the table
    for shared in ([4], [2], [4, 5], [0], [1, 6]):
        cs.append(('mux.mux', dict(iw=3, n=7, w=3, default=True, shared=shared)))
    for shared in ([2], [8], [12], [8, 9, 10]):
        cs.append(('mux.mux', dict(iw=4, n=14, w=2, default=True, shared=shared)))
    cs.append(('mux.mux', dict(iw=3, n=7, w=3, lut=[4, 3, 1, 7, 0, 6, 2], lut_default=0)))
    cs.append(('mux.mux', dict(iw=3, n=6, w=3, lut=[5, 5, 1, 5, 5, 2], lut_default=5)))
    cs.append(('mux.mux', dict(iw=2, n=4, w=3, lut=[7, 0, 3, 6])))
    # barrel_shifter: widths that are not powers of two with shift amounts reaching past the width
    for w in ((3, 5, 6, 7) if tier == 'quick' else (3, 5, 6, 7, 9, 10, 12)):
        for ws in (2, 3, 4):
            cs.append(('ops.barrel', dict(w=w, ws=ws)))
    return cs


def run(ctx):
    import contracts.corecircuits     # noqa: F401
    from pyvc.contract import REGISTRY
    from pyvc import run as prun
    for mod in ('contracts.wire', 'contracts.corecircuits'):
        cs = [c for c in REGISTRY.values() if 'C14' in c.props and c.__class__.__module__ == mod]
        prun.run_contracts(ctx, cs, mod)
    ctx.assume('builder model (contracts/wiremodel.py); bitfield_update: exact-value clause only without an '
               'explicit end (quick tier runs the end=None cases; explicit end in the thorough tier, length / '
               'range / refusal / WF only)')
    combfam.run_comb_family(ctx, 'C14.helpers', cases(ctx.tier), FUNCS,
                            'helper does not deliver exactly the documented bits', opts=dict(const_twins=3))
    ctx.assume('z3 soundness; spec/netsem.py; sparse_mux/enum_mux without default: unlisted indices are don\'t-cares (precondition)')
    return ctx.finish('other', './check C14', ['z3', 'pyvc', 'spec/netsem.py', 'elab/n2smt.py'],
                      'P: select, w[i] / w[lo:hi], concat, bitfield_update (len, den) contracts for all widths and '
                      'values; bounded stand-in: each helper elaborated by the real code per shape; all data '
                      'values by SMT')
