"""C10 - malformed netlists are rejected; API-built designs iterate in dependency order."""
from elab import passcheck


def _reraise():
    raise
from fam import designs


def _fault(task):
    import traceback
    from fam import faults
    import contextlib
    import io
    try:
        with contextlib.redirect_stdout(io.StringIO()):
            return faults.check_fault(*task)
    except Exception:
        from vlib.guard import guarded
        return guarded(_reraise)


def _sites(d):
    from fam import faults
    return [(d, k, i) for (k, i) in faults.fault_sites(designs.build(d))]


def _accept(d):
    import traceback
    from fam import faults
    try:
        return faults.check_accepts(d)
    except Exception:
        from vlib.guard import guarded
        return guarded(_reraise)


def _sched(task):
    import traceback
    from fam import faults
    try:
        return faults.schedules(task[0], task[1])
    except Exception:
        from vlib.guard import guarded
        return guarded(_reraise)


FAULT_DESIGNS = [
    {'name': 'binop', 'params': {'op': '+', 'wa': 3, 'wb': 3}},
    {'name': 'binop', 'params': {'op': '<', 'wa': 2, 'wb': 4}},
    {'name': 'binop', 'params': {'op': 'n', 'wa': 2, 'wb': 2}},
    {'name': 'mux2', 'params': {'w': 3}},
    {'name': 'concat3', 'params': {}},
    {'name': 'slices', 'params': {'w': 5}},
    {'name': 'counter', 'params': {'w': 3}},
    {'name': 'regs_reset', 'params': {'w': 4}},
    {'name': 'mem_rw', 'params': {}},
    {'name': 'mem_sync', 'params': {}},
    {'name': 'rom_list', 'params': {}},
    {'name': 'mixed_alu', 'params': {'w': 3}},
    {'name': 'wire_chain', 'params': {'w': 3}},
    {'name': 'shared_subexp', 'params': {'w': 3}},
]


def run(ctx):
    import contracts.core     # noqa: F401
    from pyvc.contract import REGISTRY
    from pyvc import run as prun
    prun.run_contracts(ctx, [c for c in REGISTRY.values() if 'C10' in c.props and
                             c.__class__.__module__ == 'contracts.core'], 'contracts.core')
    import contracts.blockiter     # noqa: F401
    prun.run_contracts(ctx, [c for c in REGISTRY.values() if 'C10' in c.props and
                             c.__class__.__module__ == 'contracts.blockiter'], 'contracts.blockiter')
    ctx.assume('Block.__iter__ contract (contracts/blockiter.py): Python sets of wires / nets as membership arrays '
               '(pop = arbitrary member, remove of a non-member raises KeyError); net_connections returns the '
               'driver map and arbitrary user lists of block nets; partial correctness (termination of the '
               'worklist loop is not an obligation); PyrtlError is permitted on every path (which blocks are '
               'refused is the bounded family\'s subject)')
    fds = list(FAULT_DESIGNS)
    if ctx.tier != 'quick':
        fds += [{'name': 'rand_design', 'params': {'seed': s}} for s in range(12)]
    tasks = []
    for lst in passcheck.pmap(_sites, fds):
        tasks.extend(lst)
    res = passcheck.pmap(_fault, tasks)
    applied = 0
    kinds = {}
    first_by_kind = {}
    for t, r in zip(tasks, res):
        if r.get('crashed'):
            ctx.crashes.append('C10.fault %r: %s' % (t[1:], r['observed'][-300:]))
            continue
        if r.get('skipped'):
            continue
        applied += 1
        kinds[t[1]] = kinds.get(t[1], 0) + 1
        if r['failed'] and t[1] not in first_by_kind:
            first_by_kind[t[1]] = (t, r)
    # one obligation per fault class, identified by its first failing site (design order fixed)
    for kind in sorted(first_by_kind):
        t, r = first_by_kind[kind]
        ctx.confirm_and_report('C10.fault[%s]' % kind, 'call',
                               dict(module='fam.faults', func='check_fault',
                                    kwargs=dict(design=t[0], kind=t[1], idx=t[2])),
                               canonical_input=dict(fault=kind, design=t[0], site=t[2],
                                                    outcome=r['observed']),
                               function='pyrtl.core.Block.sanity_check / sanity_check_net',
                               text='malformed netlist not rejected with PyrtlError/PyrtlInternalError')
    ctx.family('C10.fault_enumeration', 'B', instances=len(fds), evaluations=applied * 4,
               nontrivial=applied, exhaustive=True,
               bound='%d designs; every applicable site of %d fault classes (%d faulted blocks), each '
                     'offered to sanity_check and the three simulator constructors'
                     % (len(fds), len(kinds), applied),
               sample=dict(design=tasks[0][0], fault=tasks[0][1], site=tasks[0][2]))
    # unfaulted designs are accepted
    fam = designs.family(ctx.tier, ctx.seed) + designs.wide_family(ctx.tier)
    ares = passcheck.pmap(_accept, fam)
    for d, r in zip(fam, ares):
        if r.get('crashed'):
            ctx.crashes.append('C10.accept: %s' % r['observed'][-300:])
        elif r['failed']:
            ctx.confirm_and_report('C10.accepts[%s]' % passcheck._dname(d), 'call',
                                   dict(module='fam.faults', func='check_accepts', kwargs=dict(design=d)),
                                   canonical_input=dict(design=d),
                                   function='pyrtl.core.Block.sanity_check',
                                   text='well-formed API-built design rejected')
    ctx.family('C10.accepts', 'B', instances=len(fam), evaluations=len(fam) * 4, nontrivial=len(fam),
               bound='every family design passes sanity_check and constructs+steps on 3 simulators',
               sample=fam[0])
    # iteration schedules
    sds = [d for d in designs.family('quick', 0) if d['name'] not in ('rand_design', 'const_fold', 'wide_ops')]
    limit = 3000 if ctx.tier == 'quick' else 40000
    sres = passcheck.pmap(_sched, [(d, limit) for d in sds])
    total = 0
    exh = 0
    for d, r in zip(sds, sres):
        if r.get('crashed'):
            ctx.crashes.append('C10.schedules: %s' % r['observed'][-300:])
            continue
        total += r.get('schedules', 0)
        exh += 1 if r.get('exhaustive') else 0
        if r['failed']:
            ctx.confirm_and_report('C10.iter_schedules[%s]' % passcheck._dname(d), 'call',
                                   dict(module='fam.faults', func='schedules',
                                        kwargs=dict(design=d, limit=limit)),
                                   canonical_input=dict(design=d), function='pyrtl.core.Block.__iter__',
                                   text='Block iteration order violates dependency order / exactly-once')
    ctx.family('C10.iter_schedules', 'B', instances=len(sds), evaluations=total, nontrivial=total,
               exhaustive=(exh == len(sds)),
               bound='all tie-break schedules of to_clear.pop() enumerated (cap %d per design; %d of %d '
                     'designs complete)' % (limit, exh, len(sds)), sample=sds[0])
    ctx.assume('sanity_check_net contract: arities 0..4, 0..2 destinations, the parameter shapes of '
               'contracts/core.py (None, int tuples of length 0..2, (int, MemBlock), malformed tuples, int, '
               'list); wires are valid WireVectors registered with the block (sanity_check_wirevector '
               'stubbed); bitwidths and wire kinds symbolic')
    return ctx.finish('fault_enumeration', './check C10', ['z3', 'pyvc', 'CPython'],
                      'P: sanity_check_net accepts exactly WF_net (DESIGN A.2) for all bitwidths / wire kinds '
                      'per (op, arity, parameter shape) case; fault enumeration over API-built designs + '
                      'exhaustive iteration schedules (bounded)')
