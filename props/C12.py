"""C12 - imported BLIF and ISCAS netlists compute the function the file defines."""
import itertools
import random
from elab import passcheck


def _reraise():
    raise


def _call(task):
    import traceback
    import importlib
    fn = getattr(importlib.import_module('fam.blifcheck'), task['fn'])
    try:
        return fn(**task['kw'])
    except Exception:
        from vlib.guard import guarded
        return guarded(_reraise)


def cover_tasks(tier, seed):
    tasks = []
    for nin in (1, 2, 3):
        planes = [''.join(p) for p in itertools.product('01-', repeat=nin)]
        maxterms = 3 if nin < 3 else 2
        for k in range(1, maxterms + 1):
            for rows in itertools.combinations(planes, k):
                tasks.append(dict(fn='check_cover', kw=dict(nin=nin, rows=[[p, '1'] for p in rows])))
            for rows in itertools.combinations(planes, min(k, 2)):
                tasks.append(dict(fn='check_offset_refused', kw=dict(nin=nin, rows=[[p, '0'] for p in rows])))
    rnd = random.Random(seed)
    planes4 = [''.join(p) for p in itertools.product('01-', repeat=4)]
    for _ in range(150 if tier == 'quick' else 6000):
        k = rnd.randint(1, 4)
        outv = '1'
        tasks.append(dict(fn='check_cover', kw=dict(nin=4, rows=[[rnd.choice(planes4), outv] for _ in range(k)])))
    for _ in range(40 if tier == 'quick' else 2000):
        k = rnd.randint(1, 3)
        tasks.append(dict(fn='check_cover', kw=dict(nin=3, rows=[[rnd.choice([''.join(p) for p in itertools.product('01-', repeat=3)]), '1'] for _ in range(k)])))
    # many product terms (every term count 5..24): distinct minterms of 5 inputs, so that each row is the only
    # one covering its valuation, and mixed don't-care rows
    planes5 = [''.join(p) for p in itertools.product('01', repeat=5)]
    dc5 = [''.join(p) for p in itertools.product('01-', repeat=5)]
    for k in range(5, 25):
        for _ in range(2 if tier == 'quick' else 12):
            tasks.append(dict(fn='check_cover', kw=dict(nin=5, rows=[[p, '1'] for p in rnd.sample(planes5, k)])))
        tasks.append(dict(fn='check_cover', kw=dict(nin=5, rows=[[p, '1'] for p in rnd.sample(dc5, k)])))
    return tasks


def run(ctx):
    from fam import blifcheck
    import contracts.importexport     # noqa: F401
    from pyvc.contract import REGISTRY
    from pyvc import run as prun
    prun.run_contracts(ctx, [c for c in REGISTRY.values() if 'C12' in c.props], 'contracts.importexport')
    ctx.assume('flop_next contract: builder model of contracts/wiremodel.py; select / ~ summarised by their own '
               'contracts; the Yosys cell naming grammar (contracts/importexport.yosys_next) is the specification')
    tasks = cover_tasks(ctx.tier, ctx.seed)
    ncov = len(tasks)
    names = blifcheck.flop_names()
    if len(names) < 30:
        raise RuntimeError('could not read the supported flop names from the importer (%d)' % len(names))
    for nm in names:
        tasks.append(dict(fn='check_flop', kw=dict(name=nm)))
    for merge in (True, False):
        for seed in range(3):
            tasks.append(dict(fn='check_misc', kw=dict(merge=merge, seed=seed + ctx.seed)))
    for merge in (True, False):
        tasks.append(dict(fn='check_hier', kw=dict(merge=merge)))
        tasks.append(dict(fn='check_import_history', kw=dict(merge=merge)))
        for variant in ('dual_clock', 'first_model_reused') + tuple(
                'local_clock_name:%s:%s' % (o_, s_) for o_ in ('buffer_first', 'instance_first') for s_ in ('latch', 'cell')):
            tasks.append(dict(fn='check_seq_hier', kw=dict(merge=merge, variant=variant)))
    for n in (2, 10, 11, 12, 23):
        for merge in (True, False):
            tasks.append(dict(fn='check_wide_vector', kw=dict(n=n, merge=merge)))
    for n in (3, 12):
        for order in ('desc', 'shuffled'):
            for merge in (True, False):
                tasks.append(dict(fn='check_wide_vector', kw=dict(n=n, merge=merge, order=order)))
    for gate in ('AND', 'OR', 'NAND', 'NOR', 'XOR'):
        for nin in (2, 3, 4):
            tasks.append(dict(fn='check_bench', kw=dict(gate=gate, nin=nin)))
    for gate in ('NOT', 'BUFF'):
        tasks.append(dict(fn='check_bench', kw=dict(gate=gate, nin=1)))
    for order in range(6):
        tasks.append(dict(fn='check_bench_order', kw=dict(order=order)))
        for merge in (True, False):
            tasks.append(dict(fn='check_blif_order', kw=dict(order=order, merge=merge)))
    # one signal in both operand positions of a two-input gate (XOR(s, s) is constant 0)
    for gate in ('AND', 'OR', 'NAND', 'NOR', 'XOR'):
        tasks.append(dict(fn='check_bench', kw=dict(gate=gate, nin=1, operands=[0, 0])))
        tasks.append(dict(fn='check_bench', kw=dict(gate=gate, nin=2, operands=[1, 1])))
    res = passcheck.pmap(_call, tasks)
    first = {}
    multi = []
    for t, r in zip(tasks, res):
        if r.get('crashed'):
            ctx.crashes.append('C12.%s: %s' % (t['fn'], r['observed'][-300:]))
            continue
        if r['failed']:
            kw = t['kw']
            if t['fn'] == 'check_offset_refused':
                key = 'offset_cover_refused[nin=%d]' % kw['nin']
            elif t['fn'] == 'check_cover':
                key = 'cover[nin=%d,terms=%d,out=%s]' % (kw['nin'], len(kw['rows']), kw['rows'][0][1])
            elif t['fn'] == 'check_flop':
                key = 'flop[%s]' % kw['name']
            elif t['fn'] == 'check_blif_order':
                key = 'blif[command order %d, merge=%s]' % (kw['order'], kw['merge'])
            elif t['fn'] == 'check_bench_order':
                key = 'bench[statement order %d]' % kw['order']
            elif t['fn'] == 'check_bench' and kw.get('operands'):
                key = 'bench[%s with a repeated operand]' % kw['gate']
            elif t['fn'] == 'check_bench' and kw['nin'] > 2:
                multi.append('%s/%d' % (kw['gate'], kw['nin']))
                key = 'bench[gates with more than two inputs]'
            elif t['fn'] == 'check_bench':
                key = 'bench[%s/%d]' % (kw['gate'], kw['nin'])
            elif t['fn'] == 'check_wide_vector':
                key = 'wide_vector[merge=%s]' % kw['merge']
            elif t['fn'] == 'check_import_history':
                key = 'import_history[merge=%s]' % kw['merge']
            elif t['fn'] == 'check_seq_hier':
                key = 'hierarchy[%s, merge=%s]' % (kw['variant'], kw['merge'])
            elif t['fn'] == 'check_hier':
                key = 'hierarchy[merge=%s]' % kw['merge']
            else:
                key = 'misc[merge=%s]' % kw['merge']
            if key not in first:
                first[key] = (t, r)
    for key in sorted(first):
        t, r = first[key]
        ctx.confirm_and_report('C12.' + key, 'call',
                               dict(module='fam.blifcheck', func=t['fn'], kwargs=t['kw']),
                               canonical_input=dict(fn=t['fn'], kw=t['kw'],
                                                    **({'failing_gates': sorted(multi)} if 'more than two' in key else {})),
                               function='pyrtl.importexport.input_from_blif / input_from_iscas_bench',
                               text='imported netlist does not compute the function the file defines')
    ctx.family('C12.blif_covers', 'B', instances=ncov, evaluations=ncov, nontrivial=ncov, exhaustive=False,
               bound='all covers over <=3 inputs with <=3 (2 for 3 inputs) product terms, ON- and OFF-set; '
                     'sampled 4-input covers; 5-input covers with every term count 5..24 (distinct minterms / mixed); every input valuation of each', sample=tasks[5])
    ctx.family('C12.flops', 'B', instances=len(names), evaluations=len(names) * 32, nontrivial=len(names),
               exhaustive=True, bound='each of the %d supported cell names x every (state, d, e, s, r)' % len(names),
               sample=dict(name=names[0]))
    ctx.family('C12.misc_and_bench', 'B', instances=len(tasks) - ncov - len(names),
               evaluations=len(tasks) - ncov - len(names), nontrivial=len(tasks) - ncov - len(names),
               bound='constants, latch init codes, internal reads of outputs, vector ports merged/unmerged, '
                     '.subckt nested two levels; a model instantiated on several nets / models sharing local names; ISCAS gates with 2..4 inputs + DFF',
               sample=dict(fn='check_misc'))
    return ctx.finish('other', './check C12', ['z3', 'pyvc', 'CPython', 'pyparsing'],
                      'P: every entry of the flop_next table builds the next-state function of its Yosys cell name '
                      '(all values); bounded (level B): structure enumerated, data exhaustive per instance, against '
                      'BLIF cover semantics and the Yosys cell naming grammar')
