"""C09 - lowering/restructuring passes preserve behaviour and meet their postconditions."""
from fam import designs, passes
from elab import passcheck

FUNCS = 'pyrtl.passes.{nand_synth,and_inverter_synth,two_way_concat,one_bit_selects,' \
        'direct_connect_outputs,two_way_fanout}'

GATE = ['nand_synth', 'and_inverter_synth']
ANY = ['two_way_concat', 'one_bit_selects', 'direct_connect_outputs', 'two_way_fanout']


def post(B, design, passname):
    """Stated postcondition of the LAST pass in the sequence."""
    import pyrtl
    last = passname.split('+')[-1].replace('@foreign', '')
    probs = []
    if last == 'nand_synth':
        for n in B.logic:
            if n.op in '&|^':
                probs.append('logic gate %s remains (only NAND/NOT promised)' % n.op)
    elif last == 'and_inverter_synth':
        for n in B.logic:
            if n.op in '|^n':
                probs.append('logic gate %s remains (only AND/NOT promised)' % n.op)
    elif last == 'two_way_concat':
        for n in B.logic:
            if n.op == 'c' and len(n.args) > 2:
                probs.append('concat with %d operands' % len(n.args))
    elif last == 'one_bit_selects':
        for n in B.logic:
            if n.op == 's' and len(n.op_param) != 1:
                probs.append('select of %d bits' % len(n.op_param))
    elif last == 'direct_connect_outputs':
        # no redundant wire net before an Output: a 'w' net into an Output whose source wire
        # is produced by a net and read by nothing else
        readers = {}
        src = {}
        for n in B.logic:
            for a in n.args:
                readers[a] = readers.get(a, 0) + 1
            for d in n.dests:
                src[d] = n
        for n in B.logic:
            if n.op == 'w' and isinstance(n.dests[0], pyrtl.Output):
                a = n.args[0]
                if a in src and readers.get(a, 0) == 1 and src[a].op not in 'r@' and \
                        not isinstance(a, (pyrtl.Input, pyrtl.Register, pyrtl.Const)):
                    probs.append('redundant wire net before Output %s' % n.dests[0].name)
    elif last == 'two_way_fanout':
        readers = {}
        for n in B.logic:
            for a in n.args:
                readers[a] = readers.get(a, 0) + 1      # argument positions, counted here
        for w, c in readers.items():
            if c > 2:
                probs.append('wire %s read by %d net arguments' % (w.name, c))
    return sorted(set(probs)) or None


def replay_post(design, passname, postfn):
    from props.C03 import replay_post as rp
    return rp(design, passname, postfn)


def run(ctx):
    import contracts.passes     # noqa: F401
    from pyvc.contract import REGISTRY
    from pyvc import run as prun
    cs = [c for c in REGISTRY.values() if 'C09' in c.props]
    prun.run_contracts(ctx, cs, 'contracts.passes')
    ctx.assume('nand_synth / and_inverter_synth rule contracts: one-bit operands (synthesized netlists), builder '
               'model of contracts/wiremodel.py; transform.all_nets / net_transform glue (remove the original net '
               'when the rule returns a falsy value) covered by the bounded family')
    fam = designs.family(ctx.tier, ctx.seed)
    k = 2 if ctx.tier == 'quick' else 3
    tasks = []
    opts = dict(post='props.C09.post')
    # concatenations with 9..23 operands (restructuring passes may treat wide concats differently)
    fam = fam + [{'name': 'concat_many', 'params': {'n': n, 'w': w}} for (n, w) in
                 ((9, 18), (11, 22), (13, 26), (14, 21), (15, 30), (19, 23), (23, 27))]
    for d in fam:
        ds = passcheck.design_with_pre(d, ['synthesize'])
        for p in GATE:
            tasks.append((ds, p, k, opts))
        for p in ANY:
            tasks.append((d, p, k, opts))
        # the same passes handed the block through block= while an unrelated block is the working block
        if d['name'] in ('fanout', 'repeat_args', 'mixed_alu', 'slices', 'concat3', 'mem_rw', 'binop'):
            for p in ANY:
                tasks.append((d, p + '@foreign', k, opts))
            for p in GATE:
                tasks.append((ds, p + '@foreign', k, opts))
        if d['name'] != 'rand_design' or ctx.tier == 'thorough' or d['params']['seed'] % 4 == 0:
            # orderings of length 2
            for p in ANY:
                for q in ANY:
                    if p != q:
                        tasks.append((d, passes.seq(p, q), k, opts))
            for p in GATE:
                for q in ANY:
                    tasks.append((ds, passes.seq(p, q), k, opts))
                tasks.append((ds, passes.seq('optimize', p), k, dict(opts, sanction=True)))
            tasks.append((ds, passes.seq('nand_synth', 'and_inverter_synth'), k, opts))
            tasks.append((ds, passes.seq('and_inverter_synth', 'nand_synth'), k, opts))
        if d['name'] in ('fanout', 'repeat_args', 'mixed_alu', 'shared_subexp', 'binop', 'concat3', 'mux2'):
            # histories: a pass run again after another pass added readers to the wires it built
            for p in GATE:
                tasks.append((ds, passes.seq('two_way_fanout', p, 'two_way_fanout'), k, opts))
                tasks.append((ds, passes.seq(p, 'two_way_fanout', p), k, opts))
            tasks.append((ds, passes.seq('two_way_fanout', 'two_way_fanout'), k, opts))
            tasks.append((d, passes.seq('two_way_fanout', 'one_bit_selects', 'two_way_fanout'), k, opts))
            tasks.append((d, passes.seq('direct_connect_outputs', 'two_way_fanout', 'direct_connect_outputs'), k, opts))
    passcheck.run_family(ctx, 'C09.pass_equiv', tasks, FUNCS,
                         'lowering pass changed behaviour, interface, well-formedness or missed its postcondition')
    ctx.assume('z3 soundness; spec/netsem.py is the reading of the LogicNet docstring')
    return ctx.finish('other', './check C09', ['z3', 'pyvc', 'spec/netsem.py', 'elab/n2smt.py'],
                      'P: every rewrite rule of nand_synth / and_inverter_synth drives the destination with the '
                      'documented value of the replaced net using only the target gate set (one-bit wires, all '
                      'values); bounded stand-in: real passes per design; equivalence by SMT for all '
                      'inputs/states; structural postconditions evaluated on the result')
