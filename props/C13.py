"""C13 - rtllib adders and multipliers are exact for all widths and values."""
from elab import combfam, passcheck

FUNCS = 'pyrtl.rtllib.adders / pyrtl.rtllib.multipliers'


def cases(tier):
    cs = []
    wmax = 5 if tier == 'quick' else 8
    for wa in range(1, wmax + 1):
        for wb in range(1, wmax + 1):
            cs.append(('arith.adders', dict(wa=wa, wb=wb)))
    for w in ([(1, 1, 1), (2, 3, 1), (3, 3, 3), (4, 2, 5)] + ([(6, 6, 6), (1, 7, 3)] if tier != 'quick' else [])):
        cs.append(('arith.carrysave', dict(wa=w[0], wb=w[1], wc=w[2])))
    for red in ('wallace', 'dada'):
        for add in ('kogge', 'ripple', 'cla'):
            # operand counts around every power of two, equal widths so that the top column is reached
            more = [(3,) * 5] if (add == 'kogge' or tier != 'quick') else []
            if tier != 'quick':
                more += [(4,) * n for n in (6, 7, 9, 10, 11)]
            for ws in [(1, 1), (1, 1, 1), (2, 2, 2), (3, 1, 2), (3, 3, 3, 3), (1, 2, 3, 4, 5), (4, 4)] + more:
                cs.append(('arith.group_adder', dict(ws=list(ws), reducer=red, adder=add)))
            cs.append(('arith.group_adder', dict(ws=[1, 1], reducer=red, adder=add, dup=True)))
            cs.append(('arith.group_adder', dict(ws=[2, 3], reducer=red, adder=add, dup=True)))
    mm = 4 if tier == 'quick' else 6
    for red in ('wallace', 'dada'):
        for add in ('kogge', 'ripple'):
            for wa in range(1, mm + 1):
                for wb in range(1, mm + 1):
                    cs.append(('arith.tree_mult', dict(wa=wa, wb=wb, reducer=red, adder=add)))
    for red in ('wallace', 'dada'):
        for (wa, wb, wc) in [(1, 1, 1), (2, 2, 2), (3, 3, 3), (4, 4, 7), (2, 3, 8), (3, 2, 1),
                             (4, 4, 2)]:
            cs.append(('arith.fma', dict(wa=wa, wb=wb, wc=wc, reducer=red, adder='kogge',
                                         general=(wa <= 3))))
    return cs


def _reg_order(block):
    """registers in a process-independent order: named ones by name, auto-named ones (tmpN) by N"""
    import re
    import pyrtl

    def key(r):
        m = re.match(r'^tmp(\d+)$', r.name)
        return (1, int(m.group(1)), '') if m else (0, 0, r.name)
    return sorted(block.wirevector_subset(pyrtl.Register), key=key)


def seq_mult_check(task):
    """BMC: start pulsed in cycle 0 with operands held stable; done rises within len(A)+1 cycles of
    start and from then on prod == A*B while inputs are stable."""
    import time
    import traceback
    try:
        import z3
        import pyrtl
        from fam.cases_arith import seq_mult_build
        from elab.n2smt import Sym, model_int
        p = task
        pyrtl.reset_working_block()
        seq_mult_build(p)
        block = pyrtl.working_block()
        sym = Sym(block)
        wa, wb = p['wa'], p['wb']
        A = z3.BitVec('A', wa)
        B = z3.BitVec('B', wb)
        st = sym.fresh_state('s0')
        outs = sym.outputs
        ow = {w.name: w for w in outs}
        n = wa + 3
        dones, prods = [], []
        for t in range(n):
            ins = {'A': A, 'B': B, 'start': z3.BitVecVal(1 if t == 0 else 0, 1)}
            v, st = sym.step(st, ins)
            dones.append(v[ow['done']])
            prods.append(v[ow['prod']])
        pw = prods[0].size()
        exact = z3.ZeroExt(pw - wa, A) * z3.ZeroExt(pw - wb, B)
        # cycle 0 is the start cycle; "within len(A)+1 cycles of start": done in some cycle 1..wa+1
        goals = [z3.Or(*[dones[t] == 1 for t in range(1, wa + 2)])]
        for t in range(1, n):
            # once done (after start), the product is held and exact
            goals.append(z3.Implies(dones[t] == 1, prods[t] == exact))
            if t + 1 < n:
                goals.append(z3.Implies(dones[t] == 1, dones[t + 1] == 1))
        if pw < wa + wb:
            return dict(task=task, status='refuted', cex=dict(A=0, B=0, why='product register narrower than len(A)+len(B)'))
        s = z3.Solver()
        s.set('timeout', 120000)
        s.add(z3.Not(z3.And(*goals)))
        t0 = time.time()
        r = s.check()
        dt = time.time() - t0
        if r == z3.sat:
            m = s.model()
            byname = {r_.name: model_int(m, t_) for r_, t_ in sym.fresh_state('s0')['regs'].items()}
            # auto-generated register names (tmpN) differ between processes: identify by position
            regs = [[i, byname[r_.name]] for i, r_ in enumerate(_reg_order(block)) if r_.name in byname]
            return dict(task=task, status='refuted', solver_s=dt,
                        cex=dict(A=model_int(m, A), B=model_int(m, B), regs=regs))
        return dict(task=task, status='proved' if r == z3.unsat else 'unknown', solver_s=dt)
    except Exception:
        return dict(task=task, status='crash', why=traceback.format_exc()[-1200:])


def seq_mult_replay(p, A, B, regs=None):
    """Replayer on the real Simulation: arbitrary initial register state, start pulse, stable inputs."""
    import pyrtl
    from fam.cases_arith import seq_mult_build
    pyrtl.reset_working_block()
    seq_mult_build(p)
    block = pyrtl.working_block()
    rm = {}
    order = _reg_order(block)
    for i, v in (regs or []):
        rm[order[i]] = v
    sim = pyrtl.Simulation(register_value_map=rm)
    wa = p['wa']
    seen_done = None
    for t in range(wa + 3):
        sim.step({'A': A, 'B': B, 'start': 1 if t == 0 else 0})
        d, pr = sim.inspect('done'), sim.inspect('prod')
        if t >= 1 and d == 1:
            if seen_done is None:
                seen_done = t
            if pr != A * B:
                return dict(failed=True, observed={'cycle': t, 'prod': pr, 'done': d}, expected={'prod': A * B})
        if t >= 1 and seen_done is not None and d != 1:
            return dict(failed=True, observed={'cycle': t, 'done': d}, expected={'done': 1})
    if seen_done is None or seen_done > wa + 1:
        return dict(failed=True, observed={'done_first_seen': seen_done}, expected={'done_within': wa + 1})
    return dict(failed=False, observed='ok', expected='ok')


def run(ctx):
    import contracts.adders     # noqa: F401
    from pyvc.contract import REGISTRY
    from pyvc import run as prun
    cs = [c for c in REGISTRY.values() if 'C13' in c.props]
    prun.run_contracts(ctx, cs, 'contracts.adders')
    ctx.assume('builder model (contracts/wiremodel.py): wire = (bitwidth, den); add_net = [WF_net obligation] + '
               '[dest.den := documented value]; operators summarised by their contracts (contracts/wire.py); '
               'ripple adders by induction on the operand length')
    combfam.run_comb_family(ctx, 'C13.arith', cases(ctx.tier), FUNCS,
                            'adder/multiplier result is not the exact sum/product', opts=dict(const_twins=4))
    # sequential multipliers
    tasks = []
    wm = 4 if ctx.tier == 'quick' else 6
    for wa in range(1, wm + 1):
        for wb in range(1, wm + 1):
            tasks.append(dict(kind='simple', wa=wa, wb=wb))
            for sh in (1, 2, 3):
                if sh <= wa and sh <= wb:
                    tasks.append(dict(kind='complex', wa=wa, wb=wb, shifts=sh))
    res = passcheck.pmap(seq_mult_check, tasks)
    solver_s = 0.0
    for r in res:
        if r['status'] == 'crash':
            raise RuntimeError(r['why'])
        solver_s += r.get('solver_s', 0.0)
        if r['status'] == 'refuted':
            p = r['task']
            ctx.confirm_and_report('C13.seq_mult[%s]' % ','.join('%s=%s' % kv for kv in sorted(p.items())),
                                   'call', dict(module='props.C13', func='seq_mult_replay',
                                                kwargs=dict(p=p, A=r['cex'].get('A', 0), B=r['cex'].get('B', 0),
                                                            regs=r['cex'].get('regs'))),
                                   canonical_input=dict(p=p), function=FUNCS,
                                   text='sequential multiplier: done/product protocol violated')
    ctx.family('C13.seq_mult', 'PB', instances=len(tasks), smt_queries=len(tasks),
               nontrivial=len(tasks), solver_s=solver_s,
               bound='BMC of len(A)+3 cycles from an arbitrary register state, start pulsed once, '
                     'operands stable; all operand values', sample=tasks[0])
    ctx.assume('z3 soundness; spec/netsem.py')
    return ctx.finish('other', './check C13', ['z3', 'pyvc', 'spec/netsem.py', 'elab/n2smt.py'],
                      'P: half_adder, _one_bit_add_no_concat, one_bit_add, ripple_half_add, ripple_add exact at '
                      'the documented width for all widths and values (induction); bounded stand-in: the other '
                      'generators elaborated per width/parameter combination; all operand values decided by SMT')
