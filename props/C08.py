"""C08 - MemBlock/RomBlock behave as arrays under every history of reads and writes."""
from elab import passcheck


def _reraise():
    raise
from props.C01 import sim_family
from fam import designs

SIMS = ('Simulation', 'FastSimulation', 'CompiledSimulation')


def _walk(task):
    import traceback
    from fam import memcheck
    try:
        return memcheck.array_walk(**task)
    except Exception:
        from vlib.guard import guarded
        return guarded(_reraise)


def _tb(task):
    from fam import tbcheck
    try:
        return tbcheck.testbench(**task)
    except Exception:
        from vlib.guard import guarded
        return guarded(_reraise)


def _multi(task):
    from fam import simcheck
    try:
        if task.get('pre'):
            # after a pass: against the design BEFORE the pass (same stimuli), not against the post-pass netlist
            return simcheck.pass_preserves(design=task['design'], simname=task['simname'], pre=task['pre'],
                                           seed=task['seed'] + task['use_init'], nsteps=task['nsteps'])
        return simcheck.run_case(**task)
    except Exception:
        from vlib.guard import guarded
        return guarded(_reraise)


def _rom(task):
    import traceback
    from fam import memcheck
    try:
        return memcheck.rom_check(**task)
    except Exception:
        from vlib.guard import guarded
        return guarded(_reraise)


def lemmas(ctx):
    """Array lemmas over the *contracts* of _execute('m') and _mem_update (callers see only the
    contract): read-after-write, read-during-write sees the old word, disabled write is the
    identity, writes to distinct addresses commute."""
    import time
    import z3
    A = z3.ArraySort(z3.IntSort(), z3.IntSort())
    mem = z3.Const('mem', A)
    a1, d1, e1, a2, d2, e2, r, dflt = z3.Ints('a1 d1 e1 a2 d2 e2 r dflt')
    dom = z3.Const('dom', z3.ArraySort(z3.IntSort(), z3.BoolSort()))

    def read(m, dm, addr):            # contract of _execute('m') (memory case), before masking
        return z3.If(z3.Select(dm, addr), z3.Select(m, addr), dflt)

    def write(m, dm, a, d, e):        # contract of _mem_update
        return (z3.If(e != 0, z3.Store(m, a, d), m), z3.If(e != 0, z3.Store(dm, a, True), dm))
    m1, dm1 = write(mem, dom, a1, d1, e1)
    goals = {
        'read-after-write (next cycle sees the written word)':
            z3.Implies(e1 != 0, read(m1, dm1, a1) == d1),
        'disabled write is the identity': z3.Implies(e1 == 0, z3.And(m1 == mem, dm1 == dom)),
        'other addresses keep their word':
            z3.Implies(r != a1, read(m1, dm1, r) == read(mem, dom, r)),
        'writes to distinct addresses commute':
            z3.Implies(a1 != a2, z3.And(
                write(*write(mem, dom, a1, d1, e1), a2, d2, e2)[0] ==
                write(*write(mem, dom, a2, d2, e2), a1, d1, e1)[0])),
    }
    for nm, g in goals.items():
        s = z3.Solver()
        s.add(z3.Not(g))
        t0 = time.time()
        r_ = s.check()
        ctx.obligation('C08.lemma:' + nm, 'contracts of Simulation._execute[m] + _mem_update',
                       'proved' if r_ == z3.unsat else 'undecided', 'z3', time.time() - t0)


def run(ctx):
    import contracts.simulation   # noqa: F401
    import contracts.memory       # noqa: F401
    from pyvc.contract import REGISTRY
    from pyvc import run as prun
    import contracts.transform    # noqa: F401
    cs = [c for c in REGISTRY.values() if 'C08' in c.props and c.__class__.__module__ != 'contracts.transform']
    prun.run_contracts(ctx, cs, 'contracts.simulation')
    cs = [c for c in REGISTRY.values() if 'C08' in c.props and c.__class__.__module__ == 'contracts.transform']
    prun.run_contracts(ctx, cs, 'contracts.transform')
    lemmas(ctx)
    # complete (content x operation) space of a 2-word x 2-bit memory, three simulators,
    # plain / synthesized / optimized blocks
    tasks = []
    for sim in SIMS:
        for pre in ((), ('synthesize',), ('optimize',), ('synthesize', 'optimize')):
            tasks.append(dict(simname=sim, aw=1, dw=2, pre=pre, seed=ctx.seed))
        tasks.append(dict(simname=sim, aw=1, dw=2, pre=(), seed=ctx.seed + 1, init={0: 3, 1: 1}))
        for (aw, dw) in [(1, 1), (2, 3), (3, 63), (3, 64), (3, 65), (4, 70), (2, 130)]:
            tasks.append(dict(simname=sim, aw=aw, dw=dw, pre=(), seed=ctx.seed,
                              max_steps=300 if ctx.tier == 'quick' else 6000,
                              init={0: (1 << dw) - 1}))
        # write ports fed by registers directly; one port folded from two conditional branches
        # address spaces wider than 32 bits (aliases modulo 2**32 and 2**8)
        tasks.append(dict(simname=sim, aw=33, dw=4, pre=(), seed=ctx.seed, max_steps=300,
                          addr_pool=[3, (1 << 32) + 3, (1 << 32), 0, (1 << 33) - 1, (1 << 32) - 1, 259, (1 << 32) + 259]))
        tasks.append(dict(simname=sim, aw=40, dw=9, pre=(), seed=ctx.seed + 2, max_steps=200,
                          addr_pool=[7, (1 << 32) + 7, (1 << 39) + 7, (5 << 32) + 7, 1 << 36]))
        for style in ('regports', 'cond', 'constenable'):
            for (aw, dw) in [(1, 2), (2, 3), (3, 70)]:
                tasks.append(dict(simname=sim, aw=aw, dw=dw, pre=(), seed=ctx.seed, max_steps=200, style=style))
            tasks.append(dict(simname=sim, aw=2, dw=3, pre=('synthesize',), seed=ctx.seed, max_steps=120, style=style))
        # addresses that collide in a 256-bucket table, rewritten repeatedly (hash-map back ends)
        tasks.append(dict(simname=sim, aw=10, dw=5, pre=(), seed=ctx.seed, max_steps=400,
                          addr_pool=[44, 300, 556, 812, 45, 301, 0, 256, 512, 1023, 767]))
        tasks.append(dict(simname=sim, aw=9, dw=65, pre=(), seed=ctx.seed + 3, max_steps=300,
                          addr_pool=[7, 263, 8, 264, 511, 255]))
    res = passcheck.pmap(_walk, tasks)
    steps = 0
    exh = 0
    for t, r in zip(tasks, res):
        steps += r.get('steps', 0)
        exh += 1 if r.get('exhaustive') else 0
        if r.get('crashed'):
            ctx.crashes.append('C08.array_walk: ' + r['observed'][-400:])
        elif r['failed']:
            ctx.confirm_and_report('C08.array_walk[%s aw=%d dw=%d pre=%s%s]'
                                   % (t['simname'], t['aw'], t['dw'], '+'.join(t['pre']),
                                      (' ' + t['style']) if t.get('style') else ''),
                                   'call', dict(module='fam.memcheck', func='array_walk', kwargs=t),
                                   canonical_input=dict(sim=t['simname'], aw=t['aw'], dw=t['dw'],
                                                        pre=list(t['pre'])),
                                   function='pyrtl.%s' % t['simname'],
                                   text='memory does not behave as an array')
        elif t['aw'] == 1 and t['dw'] == 2 and not t.get('style') and not r.get('exhaustive'):
            raise RuntimeError('array walk did not cover the complete (content, op) space: %r' % r)
    ctx.family('C08.array_walk', 'B', instances=len(tasks), evaluations=steps, nontrivial=steps,
               exhaustive=False,
               bound='%d runs; the 2-word x 2-bit memory walks cover every (content, operation) pair '
                     '(%d of them complete); wide memories sampled' % (len(tasks), exh),
               sample=tasks[0])
    rtasks = [dict(simname=s, kind=k, pre=p) for s in SIMS
              for k in ('list', 'dict', 'func', 'short_list_pad')
              for p in ((), ('synthesize',), ('optimize',))]
    # data wider than 16 / 32 / 64 bits (the compiled back end picks a C element type per width)
    rtasks += [dict(simname=s, kind=k, pre=(), dw=dw, aw=2) for s in SIMS for k in ('list', 'func')
               for dw in (9, 17, 32, 33, 64, 65, 70)]
    rres = passcheck.pmap(_rom, rtasks)
    for t, r in zip(rtasks, rres):
        if r.get('crashed'):
            ctx.crashes.append('C08.rom: ' + r['observed'][-400:])
        elif r['failed']:
            ctx.confirm_and_report('C08.rom[%s %s pre=%s]' % (t['simname'], t['kind'], '+'.join(t['pre'])),
                                   'call', dict(module='fam.memcheck', func='rom_check', kwargs=t),
                                   canonical_input=t, function='pyrtl.memory.RomBlock',
                                   text='RomBlock does not return romdata[address]')
    ctx.family('C08.rom', 'B', instances=len(rtasks), evaluations=len(rtasks) * 8,
               nontrivial=len(rtasks), exhaustive=True,
               bound='every address of an 8-word ROM; list/dict/function/padded data; 3 simulators; '
                     'plain/synthesized/optimized; data widths up to 70 bits; each ROM rebuilt twice in one '
                     'process under the same name with different contents', sample=rtasks[0])
    # the initial contents a simulation started from, as recorded for the testbench, are not disturbed by the
    # writes of the run (each simulator keeps its own record)
    ttasks = [dict(design=d, simname=s, seed=ctx.seed, add_reset=True, init_mode=im, default_value=0)
              for d in ({'name': 'mem_rw', 'params': {}}, {'name': 'mem_two_writes', 'params': {}},
                        {'name': 'mem_chain', 'params': {}})
              for s in SIMS for im in (1, 2)]
    tres = passcheck.pmap(_tb, ttasks)
    for t, r in zip(ttasks, tres):
        if r.get('crashed'):
            ctx.crashes.append('C08.initial_contents: ' + r['observed'][-400:])
        elif r['failed']:
            ctx.confirm_and_report('C08.initial_contents[%s %s init=%d]' % (t['simname'], t['design']['name'], t['init_mode']),
                                   'call', dict(module='fam.tbcheck', func='testbench', kwargs=t),
                                   canonical_input=t, function='pyrtl.simulation / output_verilog_testbench',
                                   text='recorded initial memory contents differ from what the simulation started from')
    ctx.family('C08.initial_contents', 'B', instances=len(ttasks), evaluations=len(ttasks), nontrivial=len(ttasks),
               bound='3 memory designs x 3 simulators x 2 initial-state modes: testbench initial words vs the '
                     'memory_value_map the run started from, after a run with writes', sample=ttasks[0])
    # designs with SEVERAL memories (each its own array), with and without initial contents, plain and optimized
    mtasks = [dict(design=d, simname=sname, seed=ctx.seed, nsteps=60, use_init=ui, pre=pre)
              for d in ({'name': 'mems_same_name', 'params': {}}, {'name': 'mem_chain', 'params': {}},
                        {'name': 'mem_clear', 'params': {}})
              for sname in SIMS for ui in (0, 1) for pre in ((), ('optimize',))]
    mres = passcheck.pmap(_multi, mtasks)
    for t, r in zip(mtasks, mres):
        if r.get('crashed'):
            ctx.crashes.append('C08.multi_memory: ' + r['observed'][-400:])
        elif r['failed']:
            ctx.confirm_and_report('C08.multi_memory[%s %s init=%d pre=%s]' % (t['simname'], t['design']['name'], t['use_init'],
                                                                               '+'.join(t['pre'])),
                                   'call', dict(module='props.C08', func='_multi', kwargs=dict(task=t)),
                                   canonical_input=t, function='pyrtl.%s' % t['simname'],
                                   text='a memory of a multi-memory design does not behave as its own array')
    ctx.family('C08.multi_memory', 'B', instances=len(mtasks), evaluations=len(mtasks) * 60, nontrivial=len(mtasks),
               bound='3 multi-memory designs (same-named memories, memories chained through write ports, constant write '
                     'data) x 3 simulators x {no initial state (two simulations in a row), random initial state} x '
                     '{plain, optimized}: every traced wire and the final contents vs the reference cycle semantics',
               sample=mtasks[0])
    ctx.assume('Verilog memory emission is covered by C05; multi-port/wide memories in the C02/C03/C04 families')
    return ctx.finish('proof', './check C08',
                      ['z3', 'pyvc', 'int theory of DESIGN 3.2'],
                      'P: Simulation memory semantics by contract (+ array lemmas over the contracts); '
                      'B: complete (content x operation) space of a 2-word memory on all three simulators')
