"""C15 - all observation channels of a simulation agree; illegal inputs are refused."""
from elab import passcheck


def _reraise():
    raise
from fam import designs

SIMS = ('Simulation', 'FastSimulation', 'CompiledSimulation')


def _call(task):
    import traceback
    import importlib
    fn = getattr(importlib.import_module('fam.obscheck'), task['fn'])
    try:
        return fn(**task['kw'])
    except Exception:
        from vlib.guard import guarded
        return guarded(_reraise)


def contracts_part(ctx):
    """P: step's input validation and trace hand-over (shared with C01), SimulationTrace.add_step /
    add_fast_step for any number of traced names, Simulation.inspect, and the lemma over those contracts:
    after a step inspect(n) == trace[n][-1] and every trace list is one entry longer."""
    import time
    import z3
    import contracts.simulation   # noqa: F401
    import contracts.trace as CT
    from pyvc.contract import REGISTRY
    from pyvc import run as prun
    cs = [c for c in REGISTRY.values() if 'C15' in c.props and c.__class__.__module__ == 'contracts.trace']
    prun.run_contracts(ctx, cs, 'contracts.trace')
    cs = [c for c in REGISTRY.values() if c.__class__.__module__ == 'contracts.simulation' and
          c.qualname == 'Simulation.step']
    prun.run_contracts(ctx, cs, 'contracts.simulation')
    import contracts.faststep   # noqa: F401
    cs = [c for c in REGISTRY.values() if c.__class__.__module__ == 'contracts.faststep']
    prun.run_contracts(ctx, cs, 'contracts.faststep')
    for vc in CT.inspect_is_last_trace_entry():
        s = z3.Solver()
        s.set('timeout', 20000)
        s.add(*vc.pc)
        s.add(z3.Not(vc.goal))
        t0 = time.time()
        r = s.check()
        ctx.obligation('C15.' + vc.name, 'contracts of Simulation.step (S6) + SimulationTrace.add_step + '
                       'Simulation.inspect', 'proved' if r == z3.unsat else 'undecided', 'z3', time.time() - t0)
    ctx.assume('trace storage model (contracts/trace.py): a mapping from pairwise distinct names to lists '
               '(length + contents as arrays); `_wires` maps a name to its wire; list.append is the only '
               'mutation; TraceStorage.__len__/__getitem__/iteration modelled as that mapping')


def run(ctx):
    contracts_part(ctx)
    fam = [d for d in designs.family(ctx.tier, ctx.seed)
           if d['name'] not in ('rand_design',) or d['params']['seed'] % 2 == 0]
    wide = [d for d in designs.wide_family(ctx.tier) if d['params'].get('w', 0) in (1, 64, 65, 130)
            or d['name'] != 'wide_ops']
    tasks = []
    for sim in SIMS:
        for d in fam + wide + [{'name': 'long_names', 'params': {'w': 3}}, {'name': 'long_names', 'params': {'w': 1}}]:
            tasks.append(dict(fn='channels', kw=dict(design=d, simname=sim, seed=ctx.seed)))
        for k in (0, 1, 3, 6):
            tasks.append(dict(fn='assertions', kw=dict(simname=sim, fail_at=k)))
        for exc in ('PyrtlError', 'PyrtlInternalError', 'ValueError', 'LookupError', 'AttributeError', 'KeyError',
                    'KeyErrorSubclass'):
            tasks.append(dict(fn='assertions', kw=dict(simname=sim, fail_at=2, exc=exc)))
        for bw in (1, 4, 63, 64, 65, 130):
            tasks.append(dict(fn='illegal_inputs', kw=dict(simname=sim, bw=bw)))
        for k in (1, 2, 5):
            for we in (False, True):
                tasks.append(dict(fn='illegal_mid_sequence', kw=dict(simname=sim, k=k, with_expected=we)))
    for d in fam + wide + [{'name': 'vcd_names', 'params': {'w': 3}}, {'name': 'vcd_names', 'params': {'w': 1}},
                          {'name': 'long_names', 'params': {'w': 3}}]:
        tasks.append(dict(fn='printers', kw=dict(design=d, seed=ctx.seed)))
    for sd in (0, 1, 2):
        tasks.append(dict(fn='compiled_after_direct_connect', kw=dict(seed=ctx.seed + sd)))
    for sim in SIMS:
        for warm in (1, 3):
            tasks.append(dict(fn='step_multiple_after_warmup', kw=dict(simname=sim, warm=warm)))
    # rtl_assert is specified for Simulation and FastSimulation only
    tasks = [t for t in tasks if not (t['fn'] == 'assertions' and t['kw']['simname'] == 'CompiledSimulation')]
    res = passcheck.pmap(_call, tasks)
    byfn = {}
    for t, r in zip(tasks, res):
        byfn[t['fn']] = byfn.get(t['fn'], 0) + 1
        if r.get('crashed'):
            ctx.crashes.append('C15.%s: %s' % (t['fn'], r['observed'][-400:]))
        elif r['failed']:
            kw = t['kw']
            label = ','.join('%s=%s' % (k, passcheck._dname(v) if k == 'design' else v)
                             for k, v in sorted(kw.items()))
            ctx.confirm_and_report('C15.%s[%s]' % (t['fn'], label), 'call',
                                   dict(module='fam.obscheck', func=t['fn'], kwargs=kw),
                                   canonical_input=dict(fn=t['fn'], kw=kw),
                                   function='pyrtl.simulation / pyrtl.compilesim',
                                   text='observation channels disagree / illegal input simulated')
    for fn, n in sorted(byfn.items()):
        ctx.family('C15.' + fn, 'B', instances=n, evaluations=n, nontrivial=n,
                   bound={'channels': 'per design x simulator: inspect==last trace entry each step, trace '
                                      'length, step_multiple vs single steps, mismatch report with ? and '
                                      'stop_after_first_error',
                          'printers': 'print_trace bases 2/8/10/16 (+compact) and print_vcd parsed back',
                          'assertions': 'assert wire falls at cycle k in {0,1,3,6}',
                          'compiled_after_direct_connect': 'CompiledSimulation trace / inspect vs Simulation on a block whose Outputs are driven directly by logic nets, 3 stimuli',
                          'step_multiple_after_warmup': 'step_multiple with expected outputs after 1 / 3 earlier cycles: no report for correct expectations, exactly one row for one wrong expectation',
                          'illegal_mid_sequence': 'step_multiple with an illegal value at step 1, 2, 5, with/without expected_outputs, vs single stepping',
                          'illegal_inputs': 'bitwidths 1,4,63,64,65,130 x {0,2^bw-1,2^(bw-1),2^bw,2^bw+5,-1,-2^bw,2^(bw+64)}'}[fn],
                   sample=[t for t in tasks if t['fn'] == fn][0])
    return ctx.finish('other', './check C15', ['z3', 'pyvc', 'CPython'],
                      'P: Simulation.step and FastSimulation.step input validation and trace hand-over, SimulationTrace.add_step / '
                      'add_fast_step (any number of traced names), Simulation.inspect, lemma inspect == last '
                      'trace entry; bounded (level B): executable contracts on enumerated designs / inputs for '
                      'the three simulators, printers, step_multiple, assertions')
