"""C18 - AES and PRNG generators implement their published algorithms."""
import time
from elab import passcheck


def _reraise():
    raise


# ----------------------------------------------------------------------------- AES round steps by SMT
def _bv_tbl(z3, table, b):
    """table lookup as an if-then-else chain (built like elab/n2smt.rom_read so that equal tables
    give syntactically equal terms)"""
    r = None
    for a in range(256):
        v = z3.BitVecVal(table[a], 8)
        r = v if r is None else z3.If(b == a, v, r)
    return r


_GM = {}


def _bv_gmul(z3, c, b):
    """GF(2^8) multiplication by the constant c as a table computed from first principles
    (spec/fips197.gmul); the table form keeps the SMT query structural"""
    from spec import fips197 as F
    if c == 1:
        return b
    if c not in _GM:
        _GM[c] = [F.gmul(c, x) for x in range(256)]
    return _bv_tbl(z3, _GM[c], b)


def _bytes(z3, x):
    return [z3.Extract(127 - 8 * i, 120 - 8 * i, x) for i in range(16)]


def _spec_step(z3, step, x, k, rnd):
    from spec import fips197 as F
    s = _bytes(z3, x)
    if step in ('sub_bytes', 'inv_sub_bytes'):
        t = F.INV_SBOX if step.startswith('inv') else F.SBOX
        out = [_bv_tbl(z3, t, b) for b in s]
    elif step == 'shift_rows':
        out = F.shift_rows(s)
    elif step == 'inv_shift_rows':
        out = F.inv_shift_rows(s)
    elif step in ('mix_columns', 'inv_mix_columns'):
        m = [14, 11, 13, 9] if step.startswith('inv') else [2, 3, 1, 1]
        out = []
        for c in range(4):
            col = s[4 * c:4 * c + 4]
            for r in range(4):
                v = z3.BitVecVal(0, 8)
                for kk in range(4):
                    v = v ^ _bv_gmul(z3, m[(kk - r) % 4], col[kk])
                out.append(v)
    elif step == 'add_round_key':
        return x ^ k
    elif step.startswith('key_expansion'):
        w = [s[4 * i:4 * i + 4] for i in range(4)]
        t = w[3][1:] + w[3][:1]
        t = [_bv_tbl(z3, F.SBOX, b) for b in t]
        if step == 'key_expansion_wire':
            rc = _bv_tbl(z3, [F.RCON[(i + 1) % 256] for i in range(256)], z3.ZeroExt(4, rnd))
        else:
            rc = z3.BitVecVal(F.RCON[int(step.split(':')[1]) + 1], 8)
        t[0] = t[0] ^ rc
        n0 = [a ^ b for a, b in zip(w[0], t)]
        n1 = [a ^ b for a, b in zip(w[1], n0)]
        n2 = [a ^ b for a, b in zip(w[2], n1)]
        n3 = [a ^ b for a, b in zip(w[3], n2)]
        out = n0 + n1 + n2 + n3
    else:
        raise KeyError(step)
    return z3.Concat(*out)


def _aes_step(step):
    import traceback
    try:
        import z3
        from fam import aescheck
        from elab.n2smt import Sym, model_int
        block = aescheck.build_step(step)
        sym = Sym(block)
        ins = sym.fresh_inputs('s')
        val, _ = sym.step(sym.fresh_state('s'), ins)
        out = val[sym.outputs[0]]
        spec = _spec_step(z3, step, ins['x'], ins['k'], ins.get('rnd'))
        t0 = time.time()
        r = z3.unsat
        m = None
        for byte in range(16):      # one query per output byte keeps every query small
            s = z3.Solver()
            s.set('timeout', 60000)
            s.add(z3.Extract(8 * byte + 7, 8 * byte, out) != z3.Extract(8 * byte + 7, 8 * byte, spec))
            rb = s.check()
            if rb == z3.sat:
                r = z3.sat
                m = s.model()
                break
            if rb != z3.unsat:
                r = rb
        dt = time.time() - t0
        if r == z3.sat:
            cex = dict(x=model_int(m, ins['x']), k=model_int(m, ins['k']))
            if 'rnd' in ins:
                cex['rnd'] = model_int(m, ins['rnd'])
            return dict(step=step, status='refuted', cex=cex, solver_s=dt)
        return dict(step=step, status='proved' if r == z3.unsat else 'unknown', solver_s=dt)
    except Exception:
        return dict(step=step, status='crash', why=traceback.format_exc()[-1200:])


# ----------------------------------------------------------------------------- AES composition by contracts
class Tok(object):
    def __init__(self, t):
        self.t = t

    def __len__(self):
        return 128


def aes_composition():
    """Run the REAL encryption / decryption / _key_gen with the step methods replaced by their
    contracts (uninterpreted functions): the caller is checked against callee contracts."""
    import z3
    from pyrtl.rtllib import aes
    B = z3.BitVecSort(128)
    SB, ISB, SR, ISR, MC, IMC = (z3.Function(n, B, B) for n in ('SB', 'ISB', 'SR', 'ISR', 'MC', 'IMC'))
    KE = z3.Function('KE', B, z3.IntSort(), B)
    a = aes.AES()
    a._sub_bytes = lambda t, inverse=False: Tok((ISB if inverse else SB)(t.t))
    a._shift_rows = lambda t: Tok(SR(t.t))
    a._inv_shift_rows = lambda t: Tok(ISR(t.t))
    a._mix_columns = lambda t, inverse=False: Tok((IMC if inverse else MC)(t.t))
    a._add_round_key = lambda t, k: Tok(t.t ^ k.t)
    a._key_expansion = lambda k, r: Tok(KE(k.t, z3.IntVal(r)))
    P, K = z3.BitVec('P', 128), z3.BitVec('K', 128)
    enc = a.encryption(Tok(P), Tok(K)).t
    dec = a.decryption(Tok(P), Tok(K)).t
    ks = [K]
    for r in range(10):
        ks.append(KE(ks[-1], z3.IntVal(r)))
    s = P ^ ks[0]
    for r in range(1, 11):
        s = SR(SB(s))
        if r != 10:
            s = MC(s)
        s = s ^ ks[r]
    d = P ^ ks[10]
    for r in range(9, -1, -1):
        d = ISB(ISR(d)) ^ ks[r]
        if r != 0:
            d = IMC(d)
    res = {}
    for nm, got, exp in (('encryption', enc, s), ('decryption', dec, d)):
        sv = z3.Solver()
        sv.set('timeout', 60000)
        sv.add(got != exp)
        t0 = time.time()
        r = sv.check()
        res[nm] = (str(r), time.time() - t0)
    return res


# ----------------------------------------------------------------------------- PRNG one-step relations
def _num(name):
    import re
    m = re.search(r'(\d+)$', name)
    return int(m.group(1)) if m else -1


def _prng_step(task):
    import traceback
    kind, bitwidth, bpc = task
    try:
        import z3
        import pyrtl
        from fam import prngcheck as PC
        from elab.n2smt import Sym, model_int
        block = PC.build(kind, bitwidth, bpc)
        sym = Sym(block)
        ins = sym.fresh_inputs('s')
        st = sym.fresh_state('s')
        val, nxt = sym.step(st, ins)
        regs = sorted(sym.regs, key=lambda r: _num(r.name))
        load, req = ins['load'] == 1, ins['req'] == 1
        goals = []
        if kind == 'lfsr':
            lf = regs[0]
            R = lf.bitwidth
            cur = st['regs'][lf]
            s = cur
            for _ in range(bitwidth):
                nb = z3.Extract(125, 125, s) ^ z3.Extract(126, 126, s)
                s = z3.Concat(z3.Extract(R - 2, 0, s), nb)
            seed = z3.ZeroExt(R - 127, ins['seed']) if R > 127 else ins['seed']
            exp = z3.If(load, seed, z3.If(req, s, cur))
            goals.append(nxt['regs'][lf] == exp)
            goals.append(val[sym.outputs[0]] == z3.Extract(bitwidth - 1, 0, cur))
        elif kind == 'xoroshiro':
            r64 = [r for r in regs if r.bitwidth == 64 and r.name != 'counter']
            s0r, s1r = r64[0], r64[1]
            s0, s1 = st['regs'][s0r], st['regs'][s1r]
            x = s0 ^ s1
            ns0 = z3.RotateLeft(s0, 55) ^ x ^ (x << 14)
            ns1 = z3.RotateLeft(x, 36)
            staterg = [r for r in regs if r.bitwidth == 1 and r.name != 'counter'][0]
            counter = [r for r in regs if r.name == 'counter'][0]
            words = (bitwidth + 63) // 64
            randr = [r for r in regs if r.bitwidth == 64 * words and r is not s0r and r is not s1r][-1]
            gen = st['regs'][staterg] == 1
            gen_done = st['regs'][counter] == (words - 1)
            adv = z3.And(z3.Not(load), z3.Or(req, z3.And(gen, z3.Not(gen_done))))
            goals.append(nxt['regs'][s0r] == z3.If(load, z3.Extract(63, 0, ins['seed']), z3.If(adv, ns0, s0)))
            goals.append(nxt['regs'][s1r] == z3.If(load, z3.Extract(127, 64, ins['seed']), z3.If(adv, ns1, s1)))
            out = s0 + s1
            rcur = st['regs'][randr]
            shifted = z3.Concat(z3.Extract(64 * words - 65, 0, rcur), out) if words > 1 else out
            goals.append(nxt['regs'][randr] == z3.If(adv, shifted, rcur))
        else:
            a = [r for r in regs if r.bitwidth == 93][0]
            b = [r for r in regs if r.bitwidth == 84][0]
            c = [r for r in regs if r.bitwidth == 111][0]
            A, Bv, C = st['regs'][a], st['regs'][b], st['regs'][c]
            # the specification's bit-serial step, iterated bpc times on symbolic bit lists
            bit = lambda v, i: z3.Extract(i, i, v)     # noqa: E731
            s = [bit(A, i) for i in range(93)] + [bit(Bv, i) for i in range(84)] + \
                [bit(C, i) for i in range(111)]
            zs = []
            for _ in range(bpc):
                t1 = s[65] ^ s[92]
                t2 = s[161] ^ s[176]
                t3 = s[242] ^ s[287]
                zs.append(t1 ^ t2 ^ t3)
                t1 = t1 ^ (s[90] & s[91]) ^ s[170]
                t2 = t2 ^ (s[174] & s[175]) ^ s[263]
                t3 = t3 ^ (s[285] & s[286]) ^ s[68]
                s = [t3] + s[0:92] + [t1] + s[93:176] + [t2] + s[177:287]
            nA = z3.Concat(*s[0:93][::-1])
            nB = z3.Concat(*s[93:177][::-1])
            nC = z3.Concat(*s[177:288][::-1])
            staterg = [r for r in regs if r.bitwidth == 2 and r.name != 'counter'][0]
            counter = [r for r in regs if r.name == 'counter'][0]
            randr = [r for r in regs if r.bitwidth == bitwidth
                     and not any(r is x for x in (a, b, c, staterg, counter))][-1]
            stv, cnt = st['regs'][staterg], st['regs'][counter]
            init_cycles = 1152 // bpc
            gen_cycles = (bitwidth + bpc - 1) // bpc
            in_init = z3.And(stv == 1, cnt != init_cycles)
            in_gen = z3.And(stv == 2, cnt != gen_cycles - 1)
            adv = z3.And(z3.Not(load), z3.Or(req, in_init, in_gen))
            key = z3.Extract(159, 80, ins['seed'])
            iv = z3.Extract(79, 0, ins['seed'])
            goals.append(nxt['regs'][a] == z3.If(load, z3.ZeroExt(13, key), z3.If(adv, nA, A)))
            goals.append(nxt['regs'][b] == z3.If(load, z3.ZeroExt(4, iv), z3.If(adv, nB, Bv)))
            goals.append(nxt['regs'][c] == z3.If(load, z3.BitVecVal(7 << 108, 111), z3.If(adv, nC, C)))
            collect = z3.And(z3.Not(load), z3.Or(req, in_gen))
            rcur = st['regs'][randr]
            zcat = z3.Concat(*zs) if len(zs) > 1 else zs[0]
            full = z3.Concat(rcur, zcat)
            goals.append(nxt['regs'][randr] == z3.If(collect, z3.Extract(bitwidth - 1, 0, full), rcur))
        sv = z3.Solver()
        sv.set('timeout', 240000)
        sv.add(z3.Not(z3.And(*goals)))
        t0 = time.time()
        r = sv.check()
        dt = time.time() - t0
        return dict(task=task, status={'unsat': 'proved', 'sat': 'refuted'}.get(str(r), 'unknown'), solver_s=dt)
    except Exception:
        return dict(task=task, status='crash', why=traceback.format_exc()[-1200:])


def _call(task):
    import traceback
    import importlib
    fn = getattr(importlib.import_module(task['mod']), task['fn'])
    try:
        return fn(**task['kw'])
    except Exception:
        from vlib.guard import guarded
        return guarded(_reraise)


def run(ctx):
    q = ctx.tier == 'quick'
    # --- AES tables + vectors (B)
    btasks = [dict(mod='fam.aescheck', fn='tables', kw={}),
              dict(mod='fam.aescheck', fn='full_vectors', kw=dict(n=3 if q else 60, seed=ctx.seed))]
    lf_bw = [1, 2, 7, 32, 64, 126, 127, 128, 200] + ([] if q else [256])
    for bw in lf_bw:
        btasks.append(dict(mod='fam.prngcheck', fn='lfsr_protocol', kw=dict(bitwidth=bw, seed=ctx.seed + 1)))
    xo_bw = [1, 32, 63, 64, 65, 128, 130] + ([] if q else [256])
    for bw in xo_bw:
        btasks.append(dict(mod='fam.prngcheck', fn='xoroshiro_protocol', kw=dict(bitwidth=bw, seed=ctx.seed + 1)))
    for sp in range(6):
        for bw in (64, 100):
            btasks.append(dict(mod='fam.prngcheck', fn='xoroshiro_protocol', kw=dict(bitwidth=bw, seed=ctx.seed + 1, special=sp)))
    tv = [(8, 64), (64, 64), (65, 32), (128, 64), (1, 1), (13, 4)] + ([] if q else [(256, 64), (64, 8), (64, 16), (33, 2)])
    for bw, bpc in tv:
        btasks.append(dict(mod='fam.prngcheck', fn='trivium_protocol', kw=dict(bitwidth=bw, bpc=bpc, seed=ctx.seed + 1)))
    bres = passcheck.pmap(_call, btasks)
    for t, r in zip(btasks, bres):
        if r.get('crashed'):
            ctx.crashes.append('C18.%s: %s' % (t['fn'], r['observed'][-400:]))
        elif r['failed']:
            ctx.confirm_and_report('C18.%s[%s]' % (t['fn'], ','.join('%s=%s' % kv for kv in sorted(t['kw'].items()))),
                                   'call', dict(module=t['mod'], func=t['fn'], kwargs=t['kw']),
                                   canonical_input=dict(fn=t['fn'], kw=t['kw']),
                                   function='pyrtl.rtllib.aes / pyrtl.rtllib.prngs',
                                   text='generator does not implement its published algorithm')
    ctx.family('C18.tables_vectors_protocols', 'B', instances=len(btasks), evaluations=len(btasks),
               nontrivial=len(btasks),
               bound='9 AES tables x 256 entries exhaustive; FIPS example + random vectors through the '
                     'single-cycle circuits and both state machines; PRNG load/req/ready protocol runs '
                     'against the reference algorithms', sample=btasks[1])
    # --- AES round steps: all 2**128 inputs by SMT
    steps = ['sub_bytes', 'inv_sub_bytes', 'shift_rows', 'inv_shift_rows', 'mix_columns',
             'inv_mix_columns', 'add_round_key', 'key_expansion_wire'] + \
        ['key_expansion:%d' % r for r in ((0, 9) if q else range(10))]
    sres = passcheck.pmap(_aes_step, steps)
    ss = 0.0
    for r in sres:
        ss += r.get('solver_s', 0.0)
        if r['status'] == 'crash':
            ctx.crashes.append('C18.aes_step %s: %s' % (r['step'], r['why'][-400:]))
        elif r['status'] == 'refuted':
            from fam import aescheck
            ctx.confirm_and_report('C18.aes_step[%s]' % r['step'], 'call',
                                   dict(module='fam.aescheck', func='step_replay',
                                        kwargs=dict(step=r['step'], **r['cex'])),
                                   canonical_input=dict(step=r['step']), function='pyrtl.rtllib.aes.AES',
                                   text='AES round step differs from FIPS-197')
        elif r['status'] == 'unknown':
            ctx.notes.append('C18.aes_step %s: solver unknown' % r['step'])
    ctx.family('C18.aes_round_steps', 'PB', instances=len(steps), smt_queries=len(steps),
               nontrivial=sum(1 for r in sres if r['status'] == 'proved'), solver_s=ss, exhaustive=True,
               bound='each round step elaborated alone and proved equal to the FIPS-197 step for all '
                     '2**128 inputs (structure fixed at 128 bits): %s'
                     % {r['step']: r['status'] for r in sres}, sample=dict(step=steps[4]))
    # --- composition against callee contracts
    t0 = time.time()
    comp = aes_composition()
    for nm, (verdict, dt) in comp.items():
        ctx.obligation('C18.aes.%s == FIPS-197 composition over the step contracts' % nm,
                       'pyrtl.rtllib.aes.AES.%s' % nm, 'proved' if verdict == 'unsat' else 'undecided',
                       'z3', dt, detail=None if verdict == 'unsat' else verdict)
        if verdict == 'sat':
            ctx.violation('C18.aes.%s.composition' % nm, dict(what=nm), 'term differs', 'FIPS composition',
                          function='pyrtl.rtllib.aes.AES.%s' % nm, no_input=True,
                          solver_output='the round-step call sequence of %s is not the FIPS-197 sequence' % nm,
                          text='AES round composition differs from FIPS-197')
    # --- PRNG one-step relations
    ptasks = [('lfsr', bw, 0) for bw in lf_bw] + [('xoroshiro', bw, 0) for bw in xo_bw] + \
        [('trivium', bw, bpc) for (bw, bpc) in [(64, 1), (64, 2), (64, 4), (64, 8), (64, 16), (64, 32),
                                                 (64, 64), (1, 1), (8, 64), (65, 32), (128, 64)]]
    pres = passcheck.pmap(_prng_step, ptasks)
    ps = 0.0
    verd = {}
    for r in pres:
        ps += r.get('solver_s', 0.0)
        verd[str(r['task'])] = r['status']
        if r['status'] == 'crash':
            ctx.crashes.append('C18.prng_step %r: %s' % (r['task'], r['why'][-400:]))
        elif r['status'] == 'refuted':
            kind, bw, bpc = r['task']
            fn = {'lfsr': 'lfsr_protocol', 'xoroshiro': 'xoroshiro_protocol', 'trivium': 'trivium_protocol'}[kind]
            kw = dict(bitwidth=bw, seed=3)
            if kind == 'trivium':
                kw['bpc'] = bpc
            if not ctx.confirm_and_report('C18.prng_step[%s,%d,%d]' % r['task'], 'call',
                                          dict(module='fam.prngcheck', func=fn, kwargs=kw),
                                          canonical_input=dict(task=list(r['task'])),
                                          function='pyrtl.rtllib.prngs',
                                          text='PRNG state update differs from the published algorithm'):
                ctx.notes.append('C18.prng_step %r refuted by SMT but the protocol run did not fail' % (r['task'],))
    ctx.family('C18.prng_one_step', 'PB', instances=len(ptasks), smt_queries=len(ptasks),
               nontrivial=sum(1 for r in pres if r['status'] == 'proved'), solver_s=ps,
               bound='next-state relation of every generator register equals the published update for all '
                     'states, seeds and load/req values: %s' % verd, sample=dict(task=list(ptasks[0])))
    ctx.assume('Trivium key/IV bit order as documented by the generator (key = seed[80:160] -> s1..s80)')
    ctx.assume('AES structure is fixed at 128 bits; composition proved over uninterpreted step functions')
    return ctx.finish('other', './check C18', ['z3', 'spec/fips197.py', 'fam/prngcheck.py references'],
                      'tables exhaustive; AES steps for all inputs by SMT; composition against step contracts; '
                      'PRNG one-step relations for all states; protocols by concrete runs')
