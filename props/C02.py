"""C02 - FastSimulation and CompiledSimulation are observably identical to Simulation."""
from fam import designs
from elab import passcheck
from props.C01 import sim_family


W_QUICK = [1, 2, 3, 31, 32, 33, 63, 64, 65, 66, 127, 128, 129, 130]
W_THOROUGH = W_QUICK + [191, 192, 193, 255, 256, 257]


def cnet_cases(tier):
    W = W_QUICK if tier == 'quick' else W_THOROUGH
    cs = []
    for w in W:
        for op in 'w~':
            for dw in sorted(set([1, max(1, w - 1), w])):
                cs.append((op, None, [w], dw))
        for op in '&|^n':
            for dw in sorted(set([1, max(1, w - 1), w])):
                cs.append((op, None, [w, w], dw))
        for op in '+-':
            for dw in sorted(set([1, max(1, w - 1), w, w + 1])):
                cs.append((op, None, [w, w], dw))
        for op in '<>=':
            cs.append((op, None, [w, w], 1))
        for dw in sorted(set([1, max(1, w - 1), w])):
            cs.append(('x', None, [1, w, w], dw))
        if w <= (66 if tier == 'quick' else 130):
            for dw in sorted(set([1, w, max(1, 2 * w - 1), 2 * w])):
                cs.append(('*', None, [w, w], dw))
        # selects: contiguous, strided, reversed, repeated, limb-straddling
        prms = [tuple(range(w)), tuple(range(w))[::-1], tuple(range(0, w, 3)), (w - 1,) * 3 + (0,),
                tuple(range(max(0, w - 5), w)), tuple(range(min(w, 70)))[::2] + tuple(range(min(w, 5)))]
        if w > 64:
            prms.append(tuple(range(60, min(w, 70))))
            prms.append(tuple(range(w)) + tuple(range(w)))          # 2w bits
        # index tuples that are no arithmetic progression (hand-built / imported / pass-generated nets): permuted
        # neighbours, repeats between equal endpoints, an interior bit from another limb, random picks
        if w >= 4:
            prms += [(0, 2, 1, 3), (w - 4, w - 2, w - 3, w - 1), (0, w - 1, 1)]
        if w >= 5:
            prms += [(1, 3, 3, 4), (w - 5, w - 3, w - 3, w - 2, w - 1)]
        if w > 66:
            prms += [(60, w - 1, 62), (1, 65, 2, 3), (64, 0, 65, 66)]
        import random
        rnd = random.Random(w)
        for _ in range(4):
            prms.append(tuple(rnd.randrange(w) for _ in range(rnd.randint(2, 9))))
        for prm in prms:
            if prm:
                cs.append(('s', prm, [w], len(prm)))
                if len(prm) > 1:
                    cs.append(('s', prm, [w], len(prm) - 1))
    # multiplication by a Const operand (either side) whose 64-bit limbs include zero limbs below / above non-zero ones
    for wc, cv in ((128, 3), (130, (1 << 129) | 1), (128, 1 << 64), (192, (5 << 128) | 7), (128, (1 << 128) - 1),
                   (64, 0), (128, 0), (65, 1 << 64)):
        for wx in (64, 128):
            for ci in (0, 1):
                argws = [wx, wx]
                argws[ci] = wc
                for dw in (wx + wc, 64):
                    cs.append(('*', ('const', ci, cv), argws, dw))
    # concats: 2-4 arguments from W, full and truncated
    import itertools
    cw = [1, 3, 31, 33, 63, 64, 65] if tier == 'quick' else [1, 2, 3, 31, 32, 33, 63, 64, 65, 127, 129]
    for ws in itertools.product(cw, repeat=2):
        tot = sum(ws)
        for dw in sorted(set([tot, max(1, tot - 1)])):
            cs.append(('c', None, list(ws), dw))
    for ws in itertools.product([1, 31, 63, 64, 65], repeat=3):
        tot = sum(ws)
        for dw in sorted(set([tot, max(1, tot - 1), max(1, tot - 33)])):
            cs.append(('c', None, list(ws), dw))
    for ws in [(31, 31, 31, 31), (63, 1, 63, 1), (64, 64, 1, 64), (1, 1, 1, 1), (130, 3, 130)]:
        cs.append(('c', None, list(ws), sum(ws)))
    return cs


def _cnet(task):
    import traceback
    from elab import cemit
    op, prm, argws, dw = task
    try:
        r = cemit.check_net(op, prm, argws, dw, timeout_ms=90000)
    except Exception:
        r = dict(status='crash', why=traceback.format_exc()[-1200:])
    r['task'] = task
    return r


def cnet_family(ctx):
    cases = cnet_cases(ctx.tier)
    if getattr(ctx, 'only', None) and 'cnet' not in ctx.only:
        return
    res = passcheck.pmap(_cnet, cases)
    solver_s = 0.0
    st_count = {}
    for r in res:
        op, prm, argws, dw = r['task']
        st = r['status']
        st_count[st] = st_count.get(st, 0) + 1
        solver_s += r.get('solver_s', 0.0)
        obl = 'C02.cemit[%s|args=%s|dest=%d|param=%s]' % (op, argws, dw,
                                                          (str(prm)[:40] if prm else None))
        if st == 'crash':
            raise RuntimeError('%s\n%s' % (obl, r['why']))
        if st == 'error':
            ctx.notes.append('%s: %s' % (obl, r['why']))
        if st in ('refuted', 'refuted-abstract'):
            vals = r['cex'] if r.get('cex') is not None else [0] * len(argws)
            ctx.confirm_and_report(obl, 'call',
                                   dict(module='fam.simcheck', func='cnet_replay',
                                        kwargs=dict(op=op, op_param=list(prm) if prm else None,
                                                    argws=argws, dw=dw, vals=vals)),
                                   canonical_input=dict(op=op, argws=argws, dw=dw),
                                   function='pyrtl.compilesim.CompiledSimulation._build_*',
                                   solver_output='sat; emitted C:\n' + '\n'.join(r.get('lines', [])[:40]),
                                   text='emitted C for one net differs from the documented op')
        if st == 'raised':
            ctx.notes.append('%s: emitter raised %s' % (obl, r['why']))
    ctx.family('C02.cemit_translation_validation', 'PB', instances=len(cases),
               smt_queries=sum(v for k, v in st_count.items() if k in ('proved', 'refuted', 'unknown', 'refuted-abstract')),
               nontrivial=st_count.get('proved', 0), solver_s=solver_s,
               bound='one net per (op, limb-crossing widths, destination width / parameter); emitted C '
                     'parsed and decided for all operand values; verdicts: %s' % st_count,
               sample=dict(op=cases[0][0], argws=cases[0][2], dw=cases[0][3]))


def fastsim_emitters(ctx):
    """P: per-op emission of FastSimulation (real templates + real mask-elision table) vs the
    documented value, all widths and values."""
    from contracts import fastsim
    from pyvc import engine as E
    from pyvc import run as prun
    fn = 'pyrtl.simulation.FastSimulation._compiled'
    vcs = []
    for op in fastsim.all_ops():
        try:
            vcs += fastsim.vcs_for_op(op)
        except E.Unsupported as e:
            ctx.obligation('FastSimulation._compiled.simple_func[%s]:symbolic-execution' % op, fn, 'undecided',
                           'pyvc', 0.0, detail='unsupported construct: %s' % e)
    prun.run_vcs(ctx, fn, vcs, E.source_hash('pyrtl.simulation', 'FastSimulation._compiled'),
                 key='FastSimulation._compiled.simple_func')
    ctx.assume('FastSimulation emitters: the text produced by the real simple_func templates is parsed with '
               'ast and evaluated over mathematical integers (CPython semantics of & | ^ ~ + - * < > == int() '
               'and the conditional expression); operand names are placeholders; c / s / m / @ emission and '
               'the surrounding program text: bounded families')


def _mulc(task):
    from fam import simcheck
    try:
        return simcheck.wide_mul_corners(**task)
    except Exception:
        from vlib.guard import guarded

        def _re():
            raise
        return guarded(_re)


def wide_mul_family(ctx):
    tasks = [dict(simname=s, w=w, seed=ctx.seed) for s in ('CompiledSimulation', 'FastSimulation')
             for w in ((128, 129, 192) if ctx.tier == 'quick' else (65, 127, 128, 129, 192, 200, 256))]
    res = passcheck.pmap(_mulc, tasks)
    ev = 0
    for t, r in zip(tasks, res):
        ev += r.get('evaluations', 0)
        if r.get('crashed'):
            ctx.crashes.append('C02.wide_mul: %s' % r['observed'][-300:])
        elif r['failed']:
            ctx.confirm_and_report('C02.wide_mul_corners[%s|w=%d]' % (t['simname'], t['w']), 'call',
                                   dict(module='fam.simcheck', func='wide_mul_corners', kwargs=t),
                                   canonical_input=dict(sim=t['simname'], w=t['w']),
                                   function='pyrtl.compilesim.CompiledSimulation._build_mul / FastSimulation',
                                   text='multi-limb product differs from the exact product')
    ctx.family('C02.wide_mul_corners', 'B', instances=len(tasks), evaluations=ev, nontrivial=ev,
               bound='a*b with both operands spanning 2..4 limbs; limb patterns {0,1,2^64-1,2^64-2,2^63,2^63+1,..} '
                     'in every limb position + random; full and truncated product', sample=tasks[0])


def _walk(task):
    from fam import memcheck
    try:
        return memcheck.array_walk(**task)
    except Exception:
        from vlib.guard import guarded

        def _re():
            raise
        return guarded(_re)


def _runmulti(task):
    from fam import simcheck
    try:
        return simcheck.compiled_run_multi(**task)
    except Exception:
        from vlib.guard import guarded

        def _re():
            raise
        return guarded(_re)


def memory_backends(ctx):
    """hash-map / dict memory back ends: colliding addresses rewritten in every order; registered
    write ports; CompiledSimulation.run with several steps per call"""
    tasks = []
    for sim in ('FastSimulation', 'CompiledSimulation'):
        tasks.append(dict(simname=sim, aw=10, dw=5, pre=(), seed=ctx.seed, max_steps=500,
                          addr_pool=[5, 261, 517, 773, 6, 262, 0, 256, 512, 1023, 767]))
        tasks.append(dict(simname=sim, aw=9, dw=66, pre=(), seed=ctx.seed + 1, max_steps=300,
                          addr_pool=[7, 263, 8, 264, 511, 255]))
        tasks.append(dict(simname=sim, aw=33, dw=4, pre=(), seed=ctx.seed, max_steps=300,
                          addr_pool=[3, (1 << 32) + 3, (1 << 32), 0, (1 << 33) - 1, (1 << 32) - 1, 259, (1 << 32) + 259]))
        tasks.append(dict(simname=sim, aw=64, dw=5, pre=(), seed=ctx.seed, max_steps=200,
                          addr_pool=[9, (1 << 32) + 9, (1 << 63) + 9, (1 << 64) - 1, 1 << 40]))
        tasks.append(dict(simname=sim, aw=2, dw=3, pre=(), seed=ctx.seed, max_steps=200, style='constenable'))
        tasks.append(dict(simname=sim, aw=3, dw=70, pre=(), seed=ctx.seed, max_steps=200, style='regports'))
        tasks.append(dict(simname=sim, aw=2, dw=3, pre=(), seed=ctx.seed, max_steps=200, style='cond'))
    res = passcheck.pmap(_walk, tasks)
    for t, r in zip(tasks, res):
        if r.get('crashed'):
            ctx.crashes.append('C02.memory_backends: %s' % r['observed'][-300:])
        elif r['failed']:
            ctx.confirm_and_report('C02.memory_backends[%s aw=%d dw=%d %s]' % (t['simname'], t['aw'], t['dw'],
                                                                              t.get('style', 'plain')),
                                   'call', dict(module='fam.memcheck', func='array_walk', kwargs=t),
                                   canonical_input=dict(sim=t['simname'], aw=t['aw'], dw=t['dw']),
                                   function='pyrtl.%s' % t['simname'],
                                   text='memory back end differs from the array model')
    rt = [dict(nsteps=n, seed=ctx.seed + n) for n in (2, 5, 9)]
    rres = passcheck.pmap(_runmulti, rt)
    for t, r in zip(rt, rres):
        if r.get('crashed'):
            ctx.crashes.append('C02.run_multi: %s' % r['observed'][-300:])
        elif r['failed']:
            ctx.confirm_and_report('C02.compiled_run_multi[nsteps=%d]' % t['nsteps'], 'call',
                                   dict(module='fam.simcheck', func='compiled_run_multi', kwargs=t),
                                   canonical_input=dict(nsteps=t['nsteps']),
                                   function='pyrtl.compilesim.CompiledSimulation.run',
                                   text='run() over several steps records a different trace than stepping')
    ctx.family('C02.memory_backends_and_run', 'B', instances=len(tasks) + len(rt),
               evaluations=sum(r.get('steps', 0) for r in res) + sum(t['nsteps'] for t in rt),
               nontrivial=len(tasks) + len(rt),
               bound='array walks with addresses colliding mod 256 (rewritten in every order), registered and '
                     'conditional write ports; CompiledSimulation.run with 2/5/9 steps per call, 70-bit input',
               sample=tasks[0])


def run(ctx):
    fastsim_emitters(ctx)
    cnet_family(ctx)
    wide_mul_family(ctx)
    memory_backends(ctx)
    base = designs.family(ctx.tier, ctx.seed)
    wide = designs.wide_family(ctx.tier)
    reps = 3 if ctx.tier == 'quick' else 6
    for simname in ('FastSimulation', 'CompiledSimulation'):
        fn = 'pyrtl.%s' % simname
        sim_family(ctx, simname, base + wide, 'C02.%s_vs_refsem' % simname,
                   '%s disagrees with the documented cycle semantics (which pyrtl.Simulation is '
                   'proved/checked against in C01)' % simname, fn, reps=reps)
        # synthesized / optimized blocks
        sub = [d for d in base if d['name'] != 'rand_design' or d['params']['seed'] % 3 == 0]
        for pre in (['synthesize'], ['synthesize_unmerged'], ['synthesize', 'optimize'], ['optimize']):
            sim_family(ctx, simname, sub, 'C02.%s_vs_refsem.%s' % (simname, '+'.join(pre)),
                       '%s disagrees with the reference semantics on a %s block' % (simname, '+'.join(pre)),
                       fn, reps=2, extra=dict(pre=pre))
    ctx.assume('reference = spec/cycle.py (documented semantics); gcc and the host CPU for CompiledSimulation')
    ctx.assume('sanctioned difference: non-zero default_value is not applied to memories by CompiledSimulation (default_value=0 used)')
    return ctx.finish('translation_validation', './check C02', ['z3', 'pyvc', 'spec/cycle.py', 'gcc'],
                      'P: FastSimulation per-op expression templates + mask elision equal the documented value '
                      'for all widths/values; PB: translation validation of every emitted C op at limb-crossing '
                      'widths; bounded (level B): both code generators are run on the design family with '
                      'limb-crossing widths and compared per cycle/wire with the reference semantics')
