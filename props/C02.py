"""C02 - FastSimulation and CompiledSimulation are observably identical to Simulation."""
from fam import designs
from elab import passcheck
from props.C01 import sim_family


def run(ctx):
    base = designs.family(ctx.tier, ctx.seed)
    wide = designs.wide_family(ctx.tier)
    reps = 2 if ctx.tier == 'quick' else 5
    for simname in ('FastSimulation', 'CompiledSimulation'):
        fn = 'pyrtl.%s' % simname
        sim_family(ctx, simname, base + wide, 'C02.%s_vs_refsem' % simname,
                   '%s disagrees with the documented cycle semantics (which pyrtl.Simulation is '
                   'proved/checked against in C01)' % simname, fn, reps=reps)
        # synthesized / optimized blocks
        sub = [d for d in base if d['name'] != 'rand_design' or d['params']['seed'] % 3 == 0]
        for pre in (['synthesize'], ['synthesize_unmerged'], ['synthesize', 'optimize'], ['optimize']):
            sim_family(ctx, simname, sub, 'C02.%s_vs_refsem.%s' % (simname, '+'.join(pre)),
                       '%s disagrees with the reference semantics on a %s block' % (simname, '+'.join(pre)),
                       fn, reps=1, extra=dict(pre=pre))
    ctx.assume('reference = spec/cycle.py (documented semantics); gcc and the host CPU for CompiledSimulation')
    ctx.assume('sanctioned difference: non-zero default_value is not applied to memories by CompiledSimulation (default_value=0 used)')
    return ctx.finish('other', './check C02', ['spec/cycle.py', 'gcc'],
                      'bounded (level B): both code generators are run on the design family with '
                      'limb-crossing widths and compared per cycle/wire with the reference semantics')
