"""C19 - rtllib Matrix operations equal integer-matrix arithmetic modulo the result width."""
from elab import combfam

FUNCS = 'pyrtl.rtllib.matrix'


def cases(tier):
    cs = []
    shapes = [(1, 1), (1, 2), (2, 1), (2, 2), (2, 3), (3, 2)] + ([(3, 3), (1, 4), (4, 1)] if tier != 'quick' else [])
    bitsets = [(1, 1), (2, 3), (3, 1)] if tier == 'quick' else [(1, 1), (2, 3), (3, 1), (4, 2), (3, 3)]

    def add(op, shps, **kw):
        cs.append(('matrix.op', dict(op=op, shapes=[list(s) for s in shps], **kw)))
    for (r, c) in shapes:
        for (b, b2) in bitsets:
            add('identity', [(r, c, b)])
            add('transpose', [(r, c, b)])
            add('reversed', [(r, c, b)])
            add('add', [(r, c, b), (r, c, b2)])
            add('sub', [(r, c, b), (r, c, b2)])
            add('mul', [(r, c, b), (r, c, b2)])
            add('mul_scalar', [(r, c, b), (1, 1, b2)])
            add('matmul', [(r, c, b), (c, r, b2)])
            add('dot', [(r, c, b), (c, r, b2)])
            add('hstack', [(r, c, b), (r, c, b2)])
            add('vstack', [(r, c, b), (r, c, b2)])
            for ax in (None, 0, 1):
                for op in ('sum', 'min', 'max', 'argmax'):
                    add(op, [(r, c, b)], axis=ax)
            for order in 'CF':
                add('flatten', [(r, c, b)], order=order)
                add('reshape', [(r, c, b)], newshape=[c, r], order=order)
                add('reshape', [(r, c, b)], newshape=[-1, r * c if True else 1], order=order)
                add('reshape', [(r, c, b)], newshape=[r * c, -1], order=order)
            add('getitem', [(r, c, b)], key={'r': -1, 'c': -1})
            add('getitem', [(r, c, b)], key={'r': 0, 'c': [None, None, None]})
            add('getitem', [(r, c, b)], key={'r': [None, None, None], 'c': c - 1})
            add('getitem', [(r, c, b)], key={'r': [0, 1, None], 'c': [-c, None, None]})
            add('getitem', [(r, c, b)], key={'r': [-1, None, None], 'c': [None, -1, None]} if c > 1 else {'r': [-1, None, None], 'c': 0})
            add('getitem', [(r, c, b)], key=-1)
            add('getitem', [(r, c, b)], key=[None, None, None])
            add('setitem', [(r, c, b), (1, 1, b)], key=[r - 1, 0])
            add('setitem', [(r, c, b), (1, 1, b)], key=[-1, -1])
            n = r * c
            add('put', [(r, c, b), (1, 2, b)], ind=[0, n - 1], mode='raise')
            add('put', [(r, c, b), (1, 2, b)], ind=[-1, n + 1], mode='wrap')
            add('put', [(r, c, b), (1, 2, b)], ind=[-n - 3, n + 5], mode='clip')
            for mode in ('raise', 'wrap', 'clip'):
                add('put', [(r, c, b), (1, 2, b)], ind=[-1, -n], mode=mode)
                add('put', [(r, c, b), (1, 2, b)], ind=[-2 if n > 1 else -1, 0], mode=mode)
        if r == c:
            for k in (0, 1, 2, 3):
                if k < 3 or r < 3:
                    add('pow', [(r, r, 2)], k=k)
    # inner dimensions that are not powers of two with element widths large enough for the row-by-column
    # sum to need every declared result bit
    for op in ('matmul', 'dot'):
        add(op, [(1, 3, 3), (3, 1, 3)])
        if tier != 'quick':
            add(op, [(1, 3, 4), (3, 1, 4)])
            add(op, [(2, 3, 3), (3, 2, 3)])
            add(op, [(1, 4, 3), (4, 1, 3)])
    # column-major reshape of vectors into 2-D targets (and back), flatten of 2-D sources
    for (src, dst) in (((1, 6), (2, 3)), ((6, 1), (3, 2)), ((1, 4), (2, 2)), ((2, 3), (1, 6)), ((2, 3), (3, 2)),
                       ((1, 6), (3, -1)), ((6, 1), (-1, 3))):
        for order in 'CF':
            add('reshape', [(src[0], src[1], 2)], newshape=list(dst), order=order)
    # powers whose exponent has several set bits (square-and-multiply style implementations)
    add('pow', [(1, 1, 2)], k=7)
    add('pow', [(2, 2, 1)], k=7, max_bits=6)
    add('pow', [(2, 2, 1)], k=5, max_bits=6)
    if tier != 'quick':
        add('pow', [(2, 2, 1)], k=11, max_bits=6)
        add('pow', [(1, 1, 2)], k=13, max_bits=8)
    # in-place operators after the matrix has been observed
    for op in ('add', 'sub', 'mul', 'matmul'):
        add(op, [(2, 2, 2), (2, 2, 2)], inplace=True)
        add(op, [(2, 2, 3), (2, 2, 1)], inplace=True)
    add('pow', [(2, 2, 2)], k=2, inplace=True)
    # subtrahend wider than the minuend (saturating subtraction uses the borrow of the wider width)
    add('sub', [(1, 2, 2), (1, 2, 4)])
    add('sub', [(2, 1, 1), (2, 1, 3)])
    # reductions with an explicit result width smaller than the element width (result modulo 2**bits)
    for op in ('min', 'max', 'sum'):
        for ax in (None, 0, 1):
            add(op, [(3, 2, 4)], axis=ax, rbits=2)
            add(op, [(2, 3, 3)], axis=ax, rbits=1)
    # a row assigned from a wider matrix, the element width raised afterwards
    add('setitem_widen', [(2, 2, 3), (1, 2, 6)], newbits=6)
    add('setitem_widen', [(1, 3, 2), (1, 3, 4)], newbits=5)
    # one Matrix object in both operand positions
    for op in ('add', 'sub', 'mul', 'hstack', 'vstack', 'dot'):
        add(op, [(2, 2, 2)], self2=True)
        add(op, [(1, 3, 2)], self2=True) if op != 'dot' else add(op, [(1, 1, 3)], self2=True)
    add('matmul', [(2, 2, 2)], self2=True)
    # a Const object as the scalar factor: powers of two and other values, minimal and padded bitwidths
    for k in (1, 2, 3, 4, 8, 12):
        add('mul_const', [(2, 2, 4)], k=k)
    add('mul_const', [(1, 2, 3)], k=4, kbw=5)
    add('mul_const', [(2, 1, 2)], k=2, kbw=2)
    # max_bits reached: results reduce modulo 2**max_bits
    add('add', [(2, 2, 3), (2, 2, 3)], max_bits=3, saturates_max_bits=True)
    add('mul', [(2, 2, 3), (2, 2, 3)], max_bits=4, saturates_max_bits=True)
    add('matmul', [(2, 2, 3), (2, 2, 3)], max_bits=5, saturates_max_bits=True)
    return cs


def contracts_part(ctx):
    """P: the bit layout of Matrix <-> WireVector conversion for ALL element widths and values (per shape):
    the real constructor (and the bits setter it runs) executed on a model wire of symbolic width."""
    import contracts.matrix   # noqa: F401
    from pyvc.contract import REGISTRY
    from pyvc import run as prun
    cs = [c for c in REGISTRY.values() if c.__class__.__module__ == 'contracts.matrix']
    for c in cs:
        c._tier = ctx.tier
    prun.run_contracts(ctx, cs, 'contracts.matrix')
    ctx.assume('Matrix layout contracts (contracts/matrix.py): shapes enumerated (1x1 .. 3x3, 1x4, 4x1), element '
               'width / max_bits / value symbolic; WireVector slicing and as_wires through their own contracts (C06)')


def run(ctx):
    contracts_part(ctx)
    combfam.run_comb_family(ctx, 'C19.matrix', cases(ctx.tier), FUNCS,
                            'Matrix operation differs from integer-matrix arithmetic',
                            opts=dict(timeout_ms=120000, const_twins=4))
    ctx.assume('z3 soundness; spec/netsem.py; element layout: first element most significant')
    return ctx.finish('other', './check C19', ['z3', 'spec/netsem.py', 'elab/n2smt.py'],
                      'bounded stand-in: each operation elaborated per shape / element width; all element values by SMT')
